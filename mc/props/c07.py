"""C07 - hand-off between threads and the scheduler; cooperative locks.

E-thr (mc/thr.py): the real recoco Scheduler / SelectHub / CallLaterTask / ScheduleTask / Synchronizer
run on controlled threads; every schedule within a deviation bound from the default schedule is
executed (a deviation = a preemption, or a non-default successor at a forced switch).  Scenarios S1-S4
(both select-hub modes) plus S5, the cooperative Lock, explored sequentially with E-seq.
"""
import collections, gc, itertools, sys
from mc.engine import explore, pmap, Ctx
from mc.report import Report

PID = "C07"

NARROW = {
  "calllater": ("Scheduler.callLater", "CallLaterTask.callLater", "CallLaterTask.run", "Scheduler.fast_schedule",
                "SelectHub.break_idle", "SelectHub.idle", "Scheduler.run", "SelectHub._cycle", "BaseTask.start"),
  "wake": ("Scheduler.schedule", "ScheduleTask.run", "Scheduler.fast_schedule", "SelectHub.break_idle", "SelectHub.idle",
           "Scheduler.run", "BaseTask.start", "SelectHub._cycle"),
  "sync": ("Synchronizer.__enter__", "Synchronizer.__exit__", "SyncTask.run", "Scheduler.synchronized", "Scheduler.schedule",
           "ScheduleTask.run", "Scheduler.fast_schedule", "SelectHub.break_idle", "SelectHub.idle", "Scheduler.run"),
  "idle": ("Scheduler.fast_schedule", "SelectHub.break_idle", "SelectHub.idle", "Scheduler.run", "SelectHub._cycle",
           "BaseTask.start", "Scheduler.schedule", "ScheduleTask.run"),
}


HUB_FUNCS = ("SelectHub._select", "SelectHub.registerSelect", "SelectHub._return", "SelectHub._threadProc")


class FakeOS (object):
  """Stands in for the `os` module inside pox.lib.util so that the REAL pinger code (PipePinger over os.pipe /
  os.write / os.read) runs on modelled pipes: write makes the read end readable, read blocks on an empty pipe."""
  name = "posix"
  def __init__ (self, S):
    self.S = S; self.pipes = {}; self.next = 1000; self.nonblock = set()
  def pipe (self):
    r, w = self.next, self.next + 1; self.next += 2
    buf = [0]
    self.pipes[r] = buf; self.pipes[w] = buf
    return (r, w)
  def set_blocking (self, fd, flag):
    if fd not in self.pipes:
      import os as _os; return _os.set_blocking(fd, flag)
    (self.nonblock.discard if flag else self.nonblock.add)(fd)
  def write (self, fd, data):
    self.S.point("os.write")
    buf = self.pipes[fd]
    if buf[0] + len(data) > PIPE_CAP:
      if fd in self.nonblock: raise BlockingIOError(11, "Resource temporarily unavailable")
      self.S.block(lambda: buf[0] + len(data) <= PIPE_CAP, what="write to a full pipe")
    buf[0] += len(data); return len(data)
  def read (self, fd, n):
    S = self.S
    S.point("os.read")
    buf = self.pipes[fd]
    if buf[0] == 0:
      S.block(lambda: buf[0] > 0, what="read of an empty pipe")
    k = min(n, buf[0]); buf[0] -= k
    return b" " * k
  def close (self, fd): pass
  def readable (self, fd):
    b = self.pipes.get(fd); return bool(b and b[0] > 0)
  def __getattr__ (self, n):
    import os as _os
    return getattr(_os, n)


# ---- scheduling points below the line: reads and writes of the shared objects' fields ---------------------------
# Per-instruction tracing of several threads is not reliable on this interpreter (see configs()), and it is not needed:
# between two accesses to shared state a thread only computes on its own locals, so switching threads there shows
# nothing that switching at the accesses does not.  Inside the functions named in `fields' every read and every write of
# an instance attribute of the scheduler, its select hub, the call-later task and the schedule tasks is a scheduling point
# of its own - once before the access and (reads) once after it, i.e. between fetching `self._calls' and calling
# `.append' on what was fetched, or between two reads of `self._callLaterTask' in one statement.
FIELD_CLASSES = ("Scheduler", "CallLaterTask", "SelectHub", "ScheduleTask", "SyncTask")
FIELDS = {
  "calllater": ("Scheduler.callLater", "CallLaterTask.callLater", "CallLaterTask.run"),
  "wake": ("Scheduler.schedule", "ScheduleTask.run", "Scheduler.fast_schedule"),
  "sync": ("Synchronizer.__enter__", "Synchronizer.__exit__", "SyncTask.run", "Scheduler.synchronized"),
  "idle": ("Scheduler.fast_schedule", "SelectHub.idle", "SelectHub.break_idle", "Scheduler.run"),
}


def field_points (R, S, funcs):
  for cn in FIELD_CLASSES:
    cls = getattr(R, cn)
    for n in ("__getattribute__", "__setattr__"):
      if getattr(cls.__dict__.get(n), "_c07", False): delattr(cls, n)
  if not funcs: return
  funcs = frozenset(funcs)
  getframe = sys._getframe
  oget = object.__getattribute__; oset = object.__setattr__
  def make (cn):
    def ga (self, name):
      co = getframe(1).f_code
      if co.co_qualname in funcs and name in oget(self, "__dict__") and co.co_filename.endswith("recoco/recoco.py"):
        S.point("read %s.%s" % (cn, name))
        v = oget(self, name)
        S.point("have %s.%s" % (cn, name))
        return v
      return oget(self, name)
    def sa (self, name, value):
      co = getframe(1).f_code
      if co.co_qualname in funcs and co.co_filename.endswith("recoco/recoco.py"):
        S.point("write %s.%s" % (cn, name))
      oset(self, name, value)
    ga._c07 = sa._c07 = True
    return ga, sa
  for cn in FIELD_CLASSES:
    cls = getattr(R, cn)
    cls.__getattribute__, cls.__setattr__ = make(cn)


# ---- the epoll back-end: the library's EpollSelect class over a modelled select.epoll object ---------------------
class CEpoll (object):
  """select.epoll stand-in (level-triggered): register / modify / unregister keep the interest set and fail the way
  the kernel does (EEXIST, ENOENT); poll() reports the registered descriptors that are readable, or blocks."""
  def __init__ (self, S, readable, consts):
    self.S = S; self.readable = readable; self.reg = {}; self.c = consts
  def register (self, fd, eventmask=None):
    if not isinstance(fd, int): fd = fd.fileno()
    if fd in self.reg: raise FileExistsError(17, "File exists")
    self.reg[fd] = self.c.EPOLLIN | self.c.EPOLLPRI | self.c.EPOLLOUT if eventmask is None else eventmask
  def modify (self, fd, eventmask):
    if not isinstance(fd, int): fd = fd.fileno()
    if fd not in self.reg: raise FileNotFoundError(2, "No such file or directory")
    self.reg[fd] = eventmask
  def unregister (self, fd):
    if not isinstance(fd, int): fd = fd.fileno()
    if fd not in self.reg: raise FileNotFoundError(2, "No such file or directory")
    del self.reg[fd]
  def _ready (self):
    return [(fd, self.c.EPOLLIN) for fd, m in self.reg.items() if m & (self.c.EPOLLIN | self.c.EPOLLPRI) and self.readable(fd)]
  def poll (self, timeout=None, maxevents=-1):
    from mc import thr
    S = self.S
    S.point("epoll.poll")
    ev = self._ready()
    if ev or timeout == 0: return ev
    if timeout is not None and timeout < 0: timeout = None
    dl = None if timeout is None else S.now + timeout
    S.block(lambda: bool(self._ready()), deadline=dl, poll=(timeout is not None and timeout >= thr.POLL), what="epoll.poll")
    return self._ready()
  def close (self): pass
  def fileno (self): return -2


class EpollModule (object):
  """Stands in for the `select` module inside pox.lib.epoll_select."""
  def __init__ (self, mk):
    import select as _select
    self._real = _select; self._mk = mk
  def epoll (self, *a, **k): return self._mk(self._real)
  def __getattr__ (self, n): return getattr(self._real, n)


def setup (ctx, threaded, funcs, pending, opcode=False, rotate=False, max_points=6000, real_pinger=False, via_core=False,
           fields=(), epoll=False, nondefault=False):
  from mc.env import boot
  boot()
  from mc import thr
  import pox.lib.recoco.recoco as R, pox.lib.util as U, pox.lib.epoll_select as E
  S = thr.Sched(ctx, trace_files=("recoco/recoco.py",), trace_funcs=funcs,
                opcode_funcs=(funcs or ()) if opcode else (), pending=pending, max_points=max_points)
  S.rotate = rotate is True; S.reverse = rotate == "reverse"
  T = thr.CThreadingModule(S)
  R.threading = T; R.Thread = T.Thread; R.Queue = lambda: thr.CQueue(S)
  R.time = thr.CTime(S); R.CYCLE_MAXIMUM = 1e9
  field_points(R, S, fields)
  import os as _realos, select as _realselect
  if real_pinger:
    # the library's own pinger (pox.lib.util.make_pinger -> PipePinger) on modelled pipes
    fos = FakeOS(S)
    U.os = fos
    U.makePinger = U.make_pinger
    class PipeSelect (thr.CSelect):
      def _ready (self_, r, w, x):
        ro = [o for o in r if (getattr(o, "readable", None) or (lambda: fos.readable(o.fileno() if hasattr(o, "fileno") else o)))()]
        return ro, [], []
    R.select = PipeSelect(S)
    readable_fd = fos.readable
  else:
    U.os = _realos
    R.select = thr.CSelect(S)
    # (the counting pingers get a descriptor number each: the epoll back-end tells its objects apart by fileno())
    fdtab = {}
    class NPinger (thr.CPinger):
      def __init__ (self_, S_):
        thr.CPinger.__init__(self_, S_)
        self_.fd = 500 + len(fdtab); fdtab[self_.fd] = self_
      def fileno (self_): return self_.fd
    U.makePinger = lambda: NPinger(S)
    readable_fd = lambda fd: fd in fdtab and fdtab[fd].readable()
  # the other back-end of the select hub: the REAL pox.lib.epoll_select.EpollSelect, its epoll object modelled
  E.select = EpollModule(lambda consts: CEpoll(S, readable_fd, consts)) if epoll else _realselect
  R.Scheduler.runThreaded = R.Scheduler._orig_runThreaded
  other = None
  if nondefault:
    import types
    R.print = lambda *a, **k: None        # (the scheduler prints a traceback for every task that dies)
    R.traceback = types.SimpleNamespace(print_exc=lambda *a, **k: None, format_exc=lambda *a, **k: "")
    # the scheduler under test is not the process-wide default one: another (running) scheduler is
    other = R.Scheduler(isDefaultScheduler=True, startInThread=True, threaded_selecthub=False)
  if via_core:
    # the scheduler made the way a running POX makes it: by POXCore's constructor (whose `import threading` is
    # answered with the controlled module, so whatever thread it starts is under the explorer's control)
    import io, contextlib, pox.core as PC
    real = sys.modules["threading"]
    sys.modules["threading"] = T
    try:
      with contextlib.redirect_stdout(io.StringIO()):
        c = PC.POXCore(threaded_selecthub=threaded, epoll_selecthub=bool(epoll), handle_signals=False)
    finally:
      sys.modules["threading"] = real
    sch = c.scheduler
  else:
    sch = R.Scheduler(isDefaultScheduler=not nondefault, startInThread=True, threaded_selecthub=threaded, use_epoll=bool(epoll))
  R.defaultScheduler = other if nondefault else sch
  return S, R, sch


def kw (p):
  """the configuration's set-up options"""
  return dict(opcode=p.get("opcode"), rotate=p.get("rotate"), real_pinger=p.get("real_pinger", False), fields=p.get("fields") or (),
              epoll=p.get("epoll", False), nondefault=p.get("nondefault", False))


def finish (S, first=0):
  leaked = S.run(first=first)
  v = S.verdict
  if leaked and v is None: v = ("leaked-threads", ",".join(leaked))
  return v


# ---- S1: callLater ---------------------------------------------------------------
def s_calllater (ctx, p):
  ran = []
  nthreads, ncalls = p.get("threads", 2), p.get("calls", 2)
  total = nthreads * ncalls
  S, R, sch = setup(ctx, p["threaded"], p["funcs"], lambda: len(set(ran_tags(ran))) < total, max_points=p.get("max_points", 6000), **kw(p))
  raiser = p.get("raiser")
  if raiser:
    import logging
    logging.getLogger("recoco").disabled = True      # the library logs the traceback of a failing function
  def f (tag):
    ran.append((tag, S.cur.obj is sch._thread))
    # a handed-over function that fails (ordinary exception, or a BaseException such as SystemExit) must not
    # strand the functions queued behind it
    if raiser and tag == (0, 0): raise (SystemExit(3) if raiser == "sysexit" else ValueError("boom"))
  # other users of the select hub next to the call-later task: a cooperative task that waits for input on a descriptor
  # of its own (select: input never comes; io: a foreign thread makes it readable before each of its hand-overs, the
  # task takes it and waits again) or sleeps on a timer - their registrations and wake-ups pass through the same hub,
  # on the same queue and wake-up pinger, as the call-later task's
  cot = p.get("cotask")
  if cot:
    import pox.lib.util as U
    xp = U.makePinger()
    class Co (R.BaseTask):
      def run (self):
        if cot == "sleep":
          yield R.Sleep(5)
        else:
          for _ in range(1 if cot == "select" else ncalls + 1):
            yield R.Select([xp], None, None)
            xp.pongAll()
        yield False
    Co().start(sch, fast=True)
  def foreign (i):
    def body ():
      for j in range(ncalls):
        if cot == "io" and i == 0: xp.ping()
        sch.callLater(f, (i, j))
    return body
  for i in range(nthreads): S.spawn(foreign(i), name="F%d" % i)
  v = finish(S)
  if v: return ("calllater:" + v[0], v[1]), ran
  tags = ran_tags(ran)
  if len(tags) != len(set(tags)): return ("calllater:ran-twice", "a function handed over with callLater ran twice: %r" % (tags,)), ran
  if len(tags) != total: return ("calllater:not-run", "%d of %d functions ran" % (len(tags), total)), ran
  if not all(ok for _, ok in ran): return ("calllater:wrong-thread", "a callLater function ran outside the scheduler thread"), ran
  for i in range(nthreads):
    mine = [t[1] for t in tags if t[0] == i]
    if mine != sorted(mine): return ("calllater:order", "thread %d's functions ran in order %r" % (i, mine)), ran
  return None, tuple(tags)

def ran_tags (ran): return [t for t, _ in ran]


# ---- S2: a task woken from several threads at once ---------------------------------------------
def s_wake (ctx, p):
  st = dict(last_wake=-1, last_step=-2, steps=0, maxq=0, clock=0)
  def tick (): st["clock"] += 1; return st["clock"]
  S, R, sch = setup(ctx, p["threaded"], p["funcs"], lambda: st["last_wake"] > st["last_step"], **kw(p))
  class T (R.BaseTask):
    def run (self):
      for _ in range(p.get("reyield", 0)):
        # re-queue itself with `yield 0`: the task then sits in the ready list without having gone through
        # fast_schedule()
        st["last_step"] = tick(); st["steps"] += 1
        yield 0
      while True:
        st["last_step"] = tick(); st["steps"] += 1
        yield False
  class Sib (R.BaseTask):
    def run (self):
      st["last_wake"] = tick()
      sch.schedule(t)
      yield False
  t = T(); sib = Sib()
  t.start(sch, fast=True); sib.start(sch, fast=True)
  def mon (S_, label):
    c = list(sch._ready).count(t)
    if c > st["maxq"]: st["maxq"] = c
  S.monitor = mon
  def foreign ():
    st["last_wake"] = tick()
    sch.schedule(t)
  for i in range(p.get("threads", 2)): S.spawn(foreign, name="F%d" % i)
  v = finish(S)
  if st["maxq"] > 1: return ("wake:queued-twice", "the woken task was in the ready queue %d times at once" % st["maxq"]), st["steps"]
  if v: return ("wake:" + v[0], v[1]), st["steps"]
  return None, st["steps"]


# ---- S3: synchronized() ----------------------------------------------------------------
def s_sync (ctx, p):
  st = dict(inside=0, bad=None, fdone=False, steps=0, fleft=p.get("threads", 1))
  S, R, sch = setup(ctx, p["threaded"], p["funcs"], lambda: not st["fdone"], via_core=p.get("via_core", False), **kw(p))
  class Worker (R.BaseTask):
    def run (self):
      for i in range(3):
        st["steps"] += 1
        if st["inside"]: st["bad"] = "a cooperative task step ran while a foreign thread was inside synchronized()"
        yield 0
        if st["inside"]: st["bad"] = "a cooperative task resumed while a foreign thread was inside synchronized()"
  Worker().start(sch, fast=True); Worker().start(sch, fast=True)
  def foreign ():
    for rnd in range(p.get("rounds", 2)):
      with sch.synchronized():
        st["inside"] += 1
        S.point("in-section")
        with sch.synchronized():        # nested
          S.point("in-nested")
        S.point("in-section-2")
        st["inside"] -= 1
    st["fdone"] = True
  for i in range(p.get("threads", 1)): S.spawn(foreign, name="F%d" % i)
  v = finish(S)
  if st["bad"]: return ("sync:task-ran-in-section", st["bad"]), st["steps"]
  if v: return ("sync:" + v[0], v[1]), st["steps"]
  if st["steps"] != 6: return ("sync:tasks-not-run", "cooperative tasks made %d of 6 steps" % st["steps"]), st["steps"]
  return None, st["steps"]


# ---- S4: idle / wake-up handshake ----------------------------------------------------
def s_idle (ctx, p):
  st = dict(ran=0, want=0)
  S, R, sch = setup(ctx, p["threaded"], p["funcs"], lambda: st["ran"] < st["want"], **kw(p))
  class One (R.BaseTask):
    def run (self):
      st["ran"] += 1
      yield False
  class Bad (R.BaseTask):
    # a task that dies with an exception on its first step; the tasks queued behind it must still run
    def run (self):
      raise ValueError("task fails")
      yield False
  if p.get("bad"):
    # the scheduler prints a traceback for every task that dies; keep the check's output readable
    import types
    R.print = lambda *a, **k: None
    R.traceback = types.SimpleNamespace(print_exc=lambda *a, **k: None, format_exc=lambda *a, **k: "")
  def foreign ():
    for i in range(p.get("bad", 0)):
      b = Bad()
      if p.get("via") == "schedule": sch.schedule(b)
      else: b.start(sch, fast=True)
    for i in range(p.get("tasks", 2)):
      t = One()
      st["want"] += 1
      if p.get("via") == "schedule": sch.schedule(t)
      else: t.start(sch, fast=True)
      S.point("between-tasks")
  S.spawn(foreign, name="F0")
  # let the scheduler and hub go idle first in the default schedule (they have the lower thread ids)
  v = finish(S)
  if v: return ("idle:" + v[0], v[1]), st["ran"]
  if st["ran"] != st["want"]: return ("idle:count", "%d of %d new tasks ran" % (st["ran"], st["want"])), st["ran"]
  return None, st["ran"]


SCEN = dict(calllater=s_calllater, wake=s_wake, sync=s_sync, idle=s_idle)


# ---- S6: piles of hand-overs on the library's real pinger, scheduler driven step by step ------------------
# The question here is not the interleaving (S1) but HOW MANY hand-overs are pending when the call-later task wakes
# up, where they come from and in which phase of the task they arrive: the functions are handed over while the
# scheduler does not run (it is stepped by hand on the calling thread, inline select hub), so no schedule choice is
# left and a pile of tens of thousands of calls costs milliseconds instead of a thread switch per call.
PIPE_CAP = 65536          # what a pipe holds; a write beyond it would block the writer


class Quiescent (Exception):
  """select() would block: nothing is ready and nothing is readable - the scheduler would now sleep until its polling
  timeout."""


class SeqPipes (object):
  """Stands in for `os` inside pox.lib.util (as FakeOS does) without a thread explorer behind it."""
  name = "posix"
  def __init__ (self):
    self.pipes = {}; self.next = 10 ** 6; self.overflow = False; self.empty_reads = 0; self.reads = 0
    self.nonblock = set(); self.eagain = 0
  def pipe (self):
    r, w = self.next, self.next + 1; self.next += 2
    buf = [0]
    self.pipes[r] = buf; self.pipes[w] = buf
    return (r, w)
  def write (self, fd, data):
    buf = self.pipes[fd]
    if buf[0] + len(data) > PIPE_CAP:
      if fd in self.nonblock:             # the library asked for a write that never waits: EAGAIN is its to handle
        self.eagain += 1
        raise BlockingIOError(11, "Resource temporarily unavailable")
      self.overflow = True                # a blocking write that only the calling thread could ever satisfy
      raise BlockingIOError("write to a full pipe")
    buf[0] += len(data); return len(data)
  def read (self, fd, n):
    buf = self.pipes[fd]
    self.reads += 1
    if buf[0] == 0:
      self.empty_reads += 1
      raise BlockingIOError("read of an empty pipe")
    k = min(n, buf[0]); buf[0] -= k
    return b" " * k
  def close (self, fd): pass
  def set_blocking (self, fd, flag):
    if fd not in self.pipes:
      import os as _os; return _os.set_blocking(fd, flag)
    (self.nonblock.discard if flag else self.nonblock.add)(fd)
  def readable (self, o):
    b = self.pipes.get(o.fileno() if hasattr(o, "fileno") else o); return bool(b and b[0] > 0)
  def __getattr__ (self, n):
    import os as _os
    return getattr(_os, n)


class SeqSelect (object):
  error = OSError
  def __init__ (self, fos): self.fos = fos
  def select (self, r, w, x, timeout=None):
    ro = [o for o in r if self.fos.readable(o)]
    if not ro: raise Quiescent()
    return ro, [], []


class SeqEpoll (object):
  """select.epoll stand-in for the hand-stepped scheduler (the same interest-set model as CEpoll)."""
  def __init__ (self, fos, consts): self.fos = fos; self.c = consts; self.reg = {}
  def register (self, fd, eventmask=None):
    if fd in self.reg: raise FileExistsError(17, "File exists")
    self.reg[fd] = self.c.EPOLLIN | self.c.EPOLLPRI | self.c.EPOLLOUT if eventmask is None else eventmask
  def modify (self, fd, eventmask):
    if fd not in self.reg: raise FileNotFoundError(2, "No such file or directory")
    self.reg[fd] = eventmask
  def unregister (self, fd):
    if fd not in self.reg: raise FileNotFoundError(2, "No such file or directory")
    del self.reg[fd]
  def poll (self, timeout=None, maxevents=-1):
    ev = [(fd, self.c.EPOLLIN) for fd, m in self.reg.items() if m & (self.c.EPOLLIN | self.c.EPOLLPRI) and self.fos.readable(fd)]
    if not ev: raise Quiescent()
    return ev
  def close (self): pass


def pile_lattice (top):
  return sorted(set([1, 2, 3] + [2 ** k + d for k in range(2, 17) for d in (-1, 0, 1) if 2 ** k + d <= top]))


def s_pile (plan, epoll=False):
  """epoll: the select hub uses the library's EpollSelect (on a modelled epoll object) instead of select.select.
  plan: [(source, n, gap)...] - `source' hands over n pieces of work, then the scheduler makes `gap' steps (None:
  runs until it would sleep) before the next burst; after the last one it runs until it would sleep.
  Sources of call-later functions: thread = a foreign thread (started and joined while the scheduler stands still);
  task = a cooperative task in one slice; nested = a handed-over function (handed over by a foreign thread) from inside
  the drain loop.  Sources of task wake-ups, both from a foreign thread: start = n new tasks (start(fast=True));
  wake = schedule(t) for n tasks that sit blocked."""
  import threading, queue, types
  from mc.env import boot, VClock
  boot()
  import pox.lib.recoco.recoco as R, pox.lib.util as U, pox.lib.epoll_select as E
  import select as _realselect
  fos = SeqPipes()
  field_points(R, None, ())
  E.select = EpollModule(lambda consts: SeqEpoll(fos, consts)) if epoll else _realselect
  R.threading = threading; R.Thread = threading.Thread; R.Queue = queue.Queue; R.time = VClock()
  R.print = lambda *a, **k: None
  R.traceback = types.SimpleNamespace(print_exc=lambda *a, **k: None, format_exc=lambda *a, **k: "")
  U.os = fos; U.makePinger = U.make_pinger
  R.select = SeqSelect(fos)
  try:
    sch = R.Scheduler(isDefaultScheduler=True, startInThread=False, threaded_selecthub=False, use_epoll=bool(epoll))
    R.defaultScheduler = sch
    me = threading.current_thread()
    sch._thread = me                      # the thread that steps the scheduler is the scheduler thread
    hub = sch._selectHub
    ran = []; wrong = []
    def f (tag):
      ran.append(tag)
      if threading.current_thread() is not me: wrong.append(tag)
    st = dict(steps=0)
    def drive (limit):
      """-> True when the scheduler would sleep"""
      n = 0
      while limit is None or n < limit:
        if st["steps"] > budget: return False
        st["steps"] += 1; n += 1
        if len(sch._ready): sch.cycle()
        else:
          try: hub.idle()
          except Quiescent: return True
          except BlockingIOError as e:
            # the hub itself read its empty (blocking) wake-up pipe: the scheduler thread would sit in that read for good
            st["blocked"] = str(e) or "read of an empty pipe"
            return False
      return False
    total = sum(n for _, n, _ in plan)
    budget = 200 + 50 * len(plan) + 4 * total
    class Burst (R.BaseTask):
      def run (self, b, n):
        burst(b, n)
        yield False
    class One (R.BaseTask):
      def run (self, tag):
        f(tag)
        yield False
    class Sleeper (R.BaseTask):
      def run (self, tag):
        yield False                       # blocked until somebody schedules it
        while True:
          f(tag)
          yield False
    def burst (b, n):
      try:
        for j in range(n): sch.callLater(f, (b, j))
      except BlockingIOError:
        pass                              # recorded by the pipe model (overflow)
    def starts (b, n):
      try:
        for j in range(n): One((b, j)).start(sch, fast=True)
      except BlockingIOError:
        pass
    def wakes (ts):
      try:
        for t in ts: sch.schedule(t)
      except BlockingIOError:
        pass
    sleepers = {}
    for b, (src, n, gap) in enumerate(plan):
      if src == "wake":
        sleepers[b] = [Sleeper((b, j)) for j in range(n)]
        for t in sleepers[b]: t.start(sch, fast=True)
    if sleepers:
      budget += 4 * total
      drive(None)                         # every sleeper has made its first step and sits blocked
    for b, (src, n, gap) in enumerate(plan):
      if src == "task":
        Burst(b, n).start(sch, fast=True)
      else:
        tgt, args = dict(thread=(burst, (b, n)), nested=(sch.callLater, (burst, b, n)), start=(starts, (b, n)),
                         wake=(wakes, (sleepers.get(b),)))[src]
        th = threading.Thread(target=tgt, args=args); th.start(); th.join()
      if b < len(plan) - 1: drive(gap)
    quiet = drive(None)
    obs = (len(ran), fos.reads)
    kind = dict(thread="calllater", task="calllater", nested="calllater", start="idle", wake="wake")
    if fos.overflow: return ("calllater:pipe-overflow", "more than %d bytes pending in a wake-up pipe: the writer would block" % PIPE_CAP), obs
    if st.get("blocked"):
      return ("calllater:lost-wakeup:scheduler-blocks-in-pipe-read", "the scheduler thread blocks for good in a read of its empty wake-up pipe (%s) with %d of %d pieces of work not yet run"
              % (st["blocked"], total - len(set(ran)), total)), obs
    if len(ran) != len(set(ran)):
      twice = sorted(set(t for t in ran if ran.count(t) > 1))[0] if len(ran) < 5000 else [t for t, c in collections.Counter(ran).items() if c > 1][0]
      src = plan[twice[0]][0]
      if src == "wake": return ("wake:queued-twice", "a task woken once with schedule() ran twice"), obs
      return (kind[src] + ":ran-twice", "a %s ran twice" % ("function handed over with callLater" if kind[src] == "calllater" else "new task"),), obs
    if not quiet: return ("calllater:step-limit", "the scheduler did not come to rest within %d steps; %d of %d pieces of work ran" % (budget, len(ran), total)), obs
    if len(ran) != total:
      got = collections.Counter(t[0] for t in ran)
      b = [i for i, (_, n, _) in enumerate(plan) if got.get(i, 0) != n][0]
      return (kind[plan[b][0]] + ":lost-wakeup", "the scheduler is idle (nothing ready, no descriptor readable: it would sleep until its polling timeout) "
              "but %d of %d %s have not run%s" % (total - len(ran), total, "handed-over functions" if kind[plan[b][0]] == "calllater" else "woken tasks",
                                                "; a wake-up pipe was read while empty" if fos.empty_reads else "")), obs
    if wrong: return ("calllater:wrong-thread", "a callLater function or a task ran outside the scheduler thread"), obs
    for b in range(len(plan)):
      if kind[plan[b][0]] != "calllater": continue       # the statement orders handed-over functions only
      mine = [t[1] for t in ran if t[0] == b]
      if mine != sorted(mine): return ("calllater:order", "burst %d's functions ran out of order" % b), obs
    return None, obs
  finally:
    import os as _realos
    U.os = _realos
    E.select = _realselect


def pile_plans (quick):
  ps = []
  srcs = ("thread", "task", "nested")
  # one pile: every size of the boundary lattice up to a pipe's capacity
  for src in srcs + ("start", "wake"):
    # (piles of tasks stop at 4097: the library's ready-queue membership tests make them quadratic)
    for n in pile_lattice(PIPE_CAP if src in srcs else 4097):
      ps.append(((src, n, None),))
    # ... and past it: pings that no longer fit into the pipe must neither block the pinging thread nor lose work
    if src in srcs:
      for n in (PIPE_CAP + 1, PIPE_CAP + 2, PIPE_CAP + 1025):
        ps.append(((src, n, None),))
  # two piles, the second arriving in every phase of the handling of the first
  sizes = (1, 1023, 1024, 1025, 2049) if quick else (1, 2, 3, 1023, 1024, 1025, 2047, 2048, 2049, 4097)
  gaps = tuple(range(0, 9)) + (None,)
  pairs = (("thread", "thread"), ("thread", "task"), ("task", "thread"), ("nested", "thread"), ("start", "thread"), ("thread", "wake"))
  if not quick: pairs = tuple(itertools.product(srcs + ("start", "wake"), repeat=2))
  tsizes = (1, 1024, 1025) if quick else (1, 2, 1023, 1024, 1025, 2049)
  for sa, sb in pairs:
    # (piles of tasks are quadratic in the library: fewer sizes for them, and in the quick tier fewer phases)
    tasky = sa not in srcs or sb not in srcs
    for a in (sizes if sa in srcs else tsizes):
      for b in (sizes if sb in srcs else tsizes):
        for g in ((0, 2, 4, 6, None) if (tasky and quick) else gaps):
          ps.append(((sa, a, g), (sb, b, None)))
  if not quick:
    for a, b, c in itertools.product((1, 1024, 1025), repeat=3):
      for g1 in (0, 2, 4, 5, None):
        for g2 in (0, 2, 4, 5, None):
          ps.append((("thread", a, g1), ("thread", b, g2), ("thread", c, None)))
  ps = [(p, False) for p in ps]
  # the same on the epoll back-end (the library's EpollSelect keeps its interest set between calls: what matters is the
  # sequence of descriptor sets it is shown, i.e. sources and phases rather than sizes)
  esizes = (1, 2, 1023, 1024, 1025, 4097) if quick else pile_lattice(4097)
  for src in srcs + ("start", "wake"):
    for n in esizes:
      ps.append((((src, n, None),), True))
  for sa, sb in (pairs if quick else tuple(itertools.product(srcs + ("start", "wake"), repeat=2))):
    for a, b in ((1, 1), (1, 1025), (1025, 1)):
      for g in ((0, 2, 4, 6, None) if quick else gaps):
        ps.append((((sa, a, g), (sb, b, None)), True))
  return ps


def pile_name (plan, epoll=False):
  return "pile/inline-hub/real-pinger/" + ("epoll/" if epoll else "") + "+".join(s for s, _, _ in plan)


def _pile_worker (plans):
  rep = Report(PID, "model_checking")
  for plan, epoll in plans:
    bad, obs = s_pile(plan, epoll)
    rep.evaluations += 1
    rep.transitions += sum(n for _, n, _ in plan)
    kk = "execs:" + pile_name(plan, epoll)
    rep.extra[kk] = rep.extra.get(kk, 0) + 1
    rep.outcome(("pile", plan, epoll, bad and bad[0], obs))
    if bad:
      rep.violation("%s:%s:inline-hub%s" % (PID, bad[0], ":epoll" if epoll else ""),
                    "%s [%spiles (source, functions, scheduler steps before the next): %r]" % (bad[1], "epoll back-end; " if epoll else "", plan),
                    dict(pile=True, plan=[list(b) for b in plan], epoll=epoll))
    if len(plan) == 1 and plan[0][1] == 1025:
      rep.sample(dict(scenario=pile_name(plan, epoll), plan=plan, verdict=bad and bad[0], functions_run=obs[0], pipe_reads=obs[1]))
  rep.state_count = rep.evaluations
  return rep


def run_piles (cfg):
  rep = Report(PID, "model_checking")
  ps = pile_plans(cfg.quick)
  if cfg.only and "pile" not in cfg.only: return rep
  # balance: the big piles first, each its own item
  ps.sort(key=lambda p: -sum(n for _, n, _ in p[0]))
  big = [[p] for p in ps if sum(n for _, n, _ in p[0]) >= 8192]
  small = [p for p in ps if sum(n for _, n, _ in p[0]) < 8192]
  nchunk = max(1, cfg.workers * 4)
  items = big + [small[i::nchunk] for i in range(nchunk) if small[i::nchunk]]
  for r in pmap(_pile_worker, items, cfg.workers, seed=cfg.seed):
    rep.merge(r)
  rep.extra["pile_plans"] = len(ps)
  return rep


def configs (quick):
  cs = []
  for threaded in (True, False):
    for name in ("calllater", "wake", "sync", "idle"):
      base = dict(scen=name, threaded=threaded, funcs=NARROW[name])
      cs.append(dict(base, bound=2))
      if name in ("idle", "sync") or not quick:
        cs.append(dict(base, bound=2, rotate=True))
      if name == "idle":
        cs.append(dict(base, bound=2, via="schedule"))
        cs.append(dict(base, bound=2, bad=2, tasks=1))
      if name == "wake":
        cs.append(dict(base, bound=2, reyield=3))
      if name == "sync":
        cs.append(dict(base, bound=2, via_core=True))
        # two foreign threads competing for the section
        cs.append(dict(base, bound=2, threads=2, rounds=1))
      if name == "calllater":
        cs.append(dict(base, bound=2, raiser="sysexit"))
        if not quick: cs.append(dict(base, bound=2, raiser="exc", calls=3))
        # the library's real pipe pinger instead of the counting model; 3 calls per thread
        cs.append(dict(base, bound=2 if threaded else 1, real_pinger=True, calls=3))
        # a pile of hand-overs around the pinger's read size (pong_all reads 1024 bytes at a time): default schedule
        # only (the foreign thread hands everything over while the scheduler sleeps)
        # (the same piles, and far more of them, are run without threads in S6 - inline hub only; these are the
        #  threaded-hub counterpart and the cross-check of S6's pipe model)
        for n in ((1023, 1024, 1025, 2049, 4097) if quick else (1023, 1024, 1025, 2047, 2048, 2049, 4095, 4096, 4097, 8193, 16385)):
          cs.append(dict(base, bound=0, real_pinger=True, threads=1, calls=n, max_points=400000 + 30 * n))
        # two foreign threads with a pile each: every schedule with one deviation would be ~10^4 executions of 10^4
        # points; the default schedule and the rotated one
        cs.append(dict(base, bound=0, real_pinger=True, threads=2, calls=1025, max_points=400000))
        cs.append(dict(base, bound=0, real_pinger=True, threads=2, calls=1025, max_points=400000, rotate=True))
      # ---- configurations and granularities beyond the above (each a dimension of its own, crossed with every scenario
      # and both hubs) ----
      b12 = 1 if quick else 2
      # the select hub's other back-end: the library's EpollSelect over a modelled epoll object
      cs.append(dict(base, bound=b12, epoll=True))
      if name == "calllater":
        cs.append(dict(base, bound=1, epoll=True, real_pinger=True, calls=3))
        if threaded: cs.append(dict(scen="sync", threaded=True, funcs=NARROW["sync"], bound=1, epoll=True, via_core=True))
      # scheduling points below the line: every read / write of a field of the shared objects inside the hand-off
      # functions
      cs.append(dict(base, bound=b12, fields=FIELDS[name]))
      if not quick or name == "calllater": cs.append(dict(base, bound=1, fields=FIELDS[name], rotate="reverse"))
      # the scheduler is not the process-wide default scheduler (another running scheduler is)
      cs.append(dict(base, bound=1, nondefault=True))
      if name == "idle": cs.append(dict(base, bound=1, nondefault=True, via="schedule"))
      # a third default-successor policy (the thread started last goes first: the foreign threads before the scheduler,
      # the scheduler before the hub), bound 2 like the rotating one
      cs.append(dict(base, bound=1 if quick else 2, rotate="reverse"))
      if name == "calllater":
        # every hand-over a first one (the lazily created call-later task): 2 threads x 1 call, so that bound 2 is
        # affordable under every policy (thorough: 3 threads)
        for pol in (False, True, "reverse"):
          # (quick: the default policy is contained in the 2 x 2 configuration above, to the same bound; the rotating one is
          #  left to the thorough tier)
          if pol != "reverse" and quick: continue
          cs.append(dict(base, bound=2, calls=1, rotate=pol))
          if not quick: cs.append(dict(base, bound=2, calls=1, threads=3, rotate=pol))
        # other users of the hub next to the call-later task, under each policy
        # (threaded hub: the hub thread's own code - _select, registerSelect, _return - line by line as well)
        for cot in ("select", "sleep", "io"):
          for pol in (False, True, "reverse"):
            cs.append(dict(base, bound=1, cotask=cot, rotate=pol, funcs=NARROW[name] + (HUB_FUNCS if threaded else ())))
            if not quick: cs.append(dict(base, bound=2, cotask=cot, rotate=pol))
      # every line of recoco.py as a scheduling point, one deviation
      cs.append(dict(base, funcs=None, bound=1))
      if not quick:
        # three deviations; not for the call-later scenario, whose bound-3 space (two foreign threads x two hand-overs
        # each, plus the scheduler and hub threads) does not complete within an hour - it gets more calls / threads
        # at bound 2 instead (below and above)
        if name != "calllater": cs.append(dict(base, bound=3))
        # (bytecode-granularity tracing is not used: CPython 3.12.1 is not deterministic - and can crash - under
        #  per-instruction tracing across threads; see DESIGN.md 9.2)
        cs.append(dict(base, funcs=None, bound=2))
  if not quick:
    cs.append(dict(scen="wake", threaded=True, funcs=NARROW["wake"], bound=2, threads=3))
  return cs


def run_one (cfgd, prefix):
  ctx = Ctx(prefix)
  res = SCEN[cfgd["scen"]](ctx, cfgd)
  return ctx, res


def cfg_name (c):
  return "%s/%s/%s%s%s%s" % (c["scen"], "threaded-hub" if c["threaded"] else "inline-hub",
                             "all-lines" if c["funcs"] is None else "handoff-funcs+hub-lines" if "SelectHub._select" in c["funcs"] else "handoff-funcs",
                             "/opcode" if c.get("opcode") else "", "/reverse" if c.get("rotate") == "reverse" else "/rotate" if c.get("rotate") else "",
                             ("/via-schedule" if c.get("via") else "") + ("/reyield" if c.get("reyield") else "")
                             + ("/real-pinger" if c.get("real_pinger") else "") + ("/raiser-" + c["raiser"] if c.get("raiser") else "")
                             + ("/via-core" if c.get("via_core") else "") + (("/calls%d" % c["calls"] if c.get("threads", 2) == 1 else "/%d-threads-calls%d" % (c.get("threads", 2), c["calls"])) if c.get("calls", 0) > 3 else "")
                             + ("/failing-tasks" if c.get("bad") else "") + ("/2-foreign-threads" if c.get("scen") == "sync" and c.get("threads", 1) > 1 else "")
                             + ("/field-points" if c.get("fields") else "") + ("/epoll" if c.get("epoll") else "")
                             + ("/cotask-" + c["cotask"] if c.get("cotask") else "") + ("/non-default-scheduler" if c.get("nondefault") else "")
                             + ("/%d-threads-1-call" % c.get("threads", 2) if c.get("calls") == 1 else "")
                             + ("/3-threads" if c.get("scen") == "wake" and c.get("threads", 2) == 3 else ""))


def _worker (item):
  ci, cfgd, prefixes = item
  gc.disable()
  rep = Report(PID, "model_checking")
  hub = "threaded-hub" if cfgd["threaded"] else "inline-hub"
  def on_exec (ctx, res):
    bad, out = res
    rep.evaluations += 1
    rep.transitions += len(ctx.trace)
    kk = "execs:" + cfg_name(cfgd) + "/bound%d" % max(1, cfgd["bound"])
    rep.extra[kk] = rep.extra.get(kk, 0) + 1
    rep.outcome((cfgd["scen"], hub, bad and bad[0], out))
    if bad:
      # (the configuration dimensions that are a different piece of the library - the epoll back-end - or a different
      #  way of setting it up - a scheduler that is not the default one - are part of the key)
      rep.violation("%s:%s:%s%s%s" % (PID, bad[0], hub, ":epoll" if cfgd.get("epoll") else "", ":non-default-scheduler" if cfgd.get("nondefault") else ""),
                    "%s [%s]" % (bad[1], cfg_name(cfgd)),
                    dict(config=dict(cfgd, funcs=None if cfgd["funcs"] is None else list(cfgd["funcs"])), choices=ctx.choices()))
    if rep.evaluations == 1 and prefixes and (prefixes[0] or cfgd.get("calls", 0) > 3):
      rep.sample(dict(scenario=cfg_name(cfgd), deviations=[(i, t[2], t[0]) for i, t in enumerate(ctx.trace) if t[0]],
                      scheduling_points=len(ctx.trace), verdict=bad and bad[0], observation=out))
    if rep.evaluations % 200 == 0: gc.collect()
  for pfx in prefixes:
    explore(lambda ctx: SCEN[cfgd["scen"]](ctx, cfgd), dev_bound=cfgd["bound"], prefix0=pfx, on_exec=on_exec)
  gc.collect(); gc.enable()
  rep.state_count = rep.evaluations
  return rep


def first_level (cfgd):
  """Run the default schedule, check it is deterministic, return the prefixes of its one-deviation children."""
  ctx1, r1 = run_one(cfgd, [])
  ctx2, r2 = run_one(cfgd, [])
  if [(t[1], t[2]) for t in ctx1.trace] != [(t[1], t[2]) for t in ctx2.trace]:
    raise RuntimeError("nondeterministic default schedule for %s" % cfg_name(cfgd))
  kids = [[]]
  if cfgd["bound"] >= 1:
    for i, (c, n, label, costly) in enumerate(ctx1.trace):
      for alt in range(1, n):
        kids.append([0] * i + [alt])
  return kids, len(ctx1.trace)


def _first_worker (item):
  ci, cfgd = item
  gc.disable()
  try:
    kids, npts = first_level(cfgd)
  finally:
    gc.enable()
  return ci, kids, npts


def run (cfg):
  rep = Report(PID, "model_checking")
  cs = configs(cfg.quick)
  if cfg.only: cs = [c for c in cs if cfg.only in cfg_name(c) + "/bound%d" % c["bound"]]
  items = []
  pts = {}
  for ci, kids, npts in pmap(_first_worker, list(enumerate(cs)), cfg.workers):
    pts[cfg_name(cs[ci]) + "/bound%d" % cs[ci]["bound"]] = npts
    # [] is the root: explore() on the root would enumerate everything serially, so the root execution is
    # taken as a bound-0 item and each one-deviation child as its own subtree
    root = dict(cs[ci], bound=0)
    items.append((ci, root, [[]]))
    kids = kids[1:]
    n = max(1, len(kids) // (cfg.workers * 2) + 1)
    for i in range(0, len(kids), n):
      items.append((ci, cs[ci], kids[i:i+n]))
  for r in pmap(_worker, items, cfg.workers, seed=cfg.seed):
    rep.merge(r)
  # S6: piles of hand-overs (sequential)
  rep.merge(run_piles(cfg))
  # S5: cooperative locks (sequential)
  from mc.props import c07_locks
  if not cfg.only or "lock" in cfg.only:
    rep.merge(c07_locks.run_locks(cfg))
  rep.rule = ("controlled-thread exploration of the real recoco scheduler: scenarios callLater (2 foreign threads x 2 calls), "
              "wake (task woken by 2 foreign threads + a sibling task), synchronized (foreign thread, nested, 2 rounds, 2 worker tasks), "
              "idle/wake-up handshake (new tasks via fast start and via schedule), each with threaded and inline select hub; "
              "scheduling points = line events in the hand-off functions (deviation bound 2; thorough 3) or in all "
              "of recoco.py (bound 1; thorough 2) plus every Lock/Event/Queue/select/pinger operation; every schedule within the bound "
              "is executed.  Further dimensions, each crossed with every scenario and both hubs (bound 1; thorough 2): the select hub's epoll back-end "
              "(the library's EpollSelect over a modelled select.epoll object with kernel-like register/modify/unregister errors; also via POXCore and on the real pipe pinger); "
              "scheduling points below the line - every read and write of a field of the Scheduler / SelectHub / CallLaterTask / ScheduleTask / SyncTask objects inside the "
              "hand-off functions, before and after the access; a scheduler that is not the default scheduler (a second, running one is); three default-successor "
              "policies at forced switches (lowest thread id, round robin, highest id); call-later with every hand-over a first one (2 threads x 1 call, bound 2 under "
              "each policy; thorough 3 threads); call-later next to another user of the hub (a task selecting on a descriptor that stays silent / that a foreign thread "
              "makes readable before each hand-over / a task sleeping on a timer) under each policy, the hub thread's own functions traced line by line.  "
              "Piles of pending work on the library's real pipe pinger (modelled pipes of 65536 bytes), the scheduler "
              "stepped by hand until it would sleep: one pile of every size 1,2,3 and 2^k-1,2^k,2^k+1 (k=2..16, <= 65536) of call-later "
              "functions handed over by a foreign thread / by a cooperative task in one slice / by a handed-over function from inside the "
              "drain loop, and (<= 4097) of new tasks started / blocked tasks woken with schedule() by a foreign thread; two piles "
              "(sizes 1,1023,1024,1025,2049, piles of tasks 1,1024,1025; thorough 10 resp. 6 sizes, all source pairs, three piles) with the "
              "second arriving after 0..8 scheduler steps or at rest; the same piles of 1023..4097 (thorough ..16385) calls from one and 1025 from each of two controlled foreign "
              "threads with both hubs (default schedule); single piles (1,2,1023,1024,1025,4097; thorough the lattice to 4097) of every source and pairs (1|1025) x phases "
              "on the epoll back-end.  "
              "Cooperative Lock against an owner-less reference lock: every `owned' program of 2-3 tasks x acquire/try-acquire/release/yield "
              "scripts on 1-2 locks (a script releases only what it took), and every free-form program (scripts ending in a lock operation) - any task may release, locks created "
              "free or held (Lock(locked=True)), acquire/release also done inside a task_function helper (another task object): "
              "2 tasks x scripts <= 3 ops and 3 tasks x scripts <= 2 ops on one lock, 2 tasks x scripts <= 2 ops on two locks - each with every "
              "waiter-pop choice; owned programs of 2 tasks (scripts <= 3 ops) and free-form ones (<= 2 ops) with every non-empty subset of the task objects false "
              "in a boolean context (__len__ == 0).  distinct = (scenario, hub, verdict, observation)")
  rep.bound = dict(configs=len(cs), scheduling_points_default_schedule=pts,
                   pile_sizes=pile_lattice(PIPE_CAP), pile_plans=rep.extra.get("pile_plans"), lock_programs=rep.extra.get("lock_programs"))
  rep.assumptions = ["C-level atomicity of deque/dict/list operations (CPython GIL)",
                     "granularity: line events plus (field-points configurations) accesses to the shared objects' fields; a switch between two "
                     "instructions that touch only locals is not explored (it commutes with the other threads' steps)",
                     "epoll model: level-triggered, readable descriptors only (the wake-up pipes), EEXIST / ENOENT on bad register / modify / unregister",
                     "modelled Lock/Event/Queue/select/pinger semantics (mc/thr.py); polling timeouts are never fired while work is pending",
                     "no partial-order reduction: counts are schedules, not equivalence classes",
                     "piles: a pipe holds 65536 bytes and a read returns min(asked, pending) bytes; the work arrives while the scheduler "
                     "thread is between two steps (no interleaving inside a step - that is the controlled-thread part); more pending "
                     "wake-up bytes than a pipe holds are out of the bound",
                     "locks: the reference is a lock without owner (the documented `semantics of the Python Lock'); what becomes of a task "
                     "that releases a lock which is free by the reference is not judged"]
  return rep


def replay (cfg, data):
  if "locks" in data:
    from mc.props import c07_locks
    return c07_locks.replay_locks(data)
  if data.get("pile"):
    plan = tuple(tuple(b) for b in data["plan"])
    bad, obs = s_pile(plan, bool(data.get("epoll")))
    return bool(bad), "%s %r\n=> %r (functions run, pipe reads: %r)" % (pile_name(plan, data.get("epoll")), plan, bad, obs)
  c = dict(data["config"])
  if c.get("funcs") is not None: c["funcs"] = tuple(c["funcs"])
  gc.disable()
  try:
    ctx, (bad, out) = run_one(c, list(data["choices"]))
  finally:
    gc.enable()
  return bool(bad), "%s\nschedule deviations at: %r\n=> %r" % (cfg_name(c), [(i, t[2], t[0]) for i, t in enumerate(ctx.trace) if t[0]], bad)
