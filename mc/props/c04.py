"""C04 - the flow table evolves as the OpenFlow 1.0 FLOW_MOD / timeout state machine.

Explicit-state BFS (replay based) over command / traffic / time histories on a real SoftwareSwitch
behind the byte-level connection.  After EVERY operation the table is read back over the wire
(flow-stats request decoded by mc/refs/ofwire.py) and compared, together with the messages the
switch emitted, with the reference state machine in mc/refs/reftable.py.  The search runs against a switch with the
default (practically unbounded) flow table and against switches whose table holds 0 - 3 entries (CAP_ROOTS).

In those searches the harness fires the expiry sweep by hand (table.remove_expired_entries()).  SWEEP_ROOTS repeat the
search against the SELF-SWEEPING switch the statement's anchors name (pox.datapaths' ExpiringSwitch = ExpireMixin +
SoftwareSwitch): the switch hands its sweep to a recurring pox.lib.recoco Timer, and that Timer task is run by a real
recoco Scheduler + inline SelectHub whose select() waits on the virtual clock (VScheduler).  Time passes only through
("run", d) operations, during which the switch sweeps whenever ITS timer fires; the reference sweeps every period
counted from the construction of the switch.  Every history is closed by letting SETTLE seconds pass without input.
"""
import struct
from mc.engine import bfs
from mc.report import Report, digest
from mc.refs import ofwire as W
from mc.refs.reftable import RefTable, is_exact

PID = "C04"

MAC_A = bytes.fromhex("020000000001"); MAC_B = bytes.fromhex("020000000002")
IP_A = 0x0a000001; IP_B = 0x0a000002

def _ip (proto, payload, src=IP_A, dst=IP_B, tos=0):
  h = struct.pack("!BBHHHBBHLL", 0x45, tos, 20 + len(payload), 1, 0, 64, proto, 0, src, dst)
  s = sum(struct.unpack("!10H", h)); s = (s & 0xffff) + (s >> 16); s = (s & 0xffff) + (s >> 16)
  h = h[:10] + struct.pack("!H", (~s) & 0xffff) + h[12:]
  return h + payload

TCP = struct.pack("!HHLLBBHHH", 1111, 80, 1, 0, 0x50, 0x02, 1000, 0, 0) + b"x" * 6
UDP = struct.pack("!HHHH", 53, 5353, 8 + 10, 0) + b"y" * 10
FRAME1 = MAC_B + MAC_A + b"\x08\x00" + _ip(6, TCP)
FRAME2 = MAC_A + MAC_B + b"\x08\x00" + _ip(17, UDP, IP_B, IP_A)
PKT1 = dict(in_port=1, dl_src=MAC_A, dl_dst=MAC_B, dl_vlan=0xffff, dl_vlan_pcp=0, dl_type=0x0800, nw_tos=0,
            nw_proto=6, nw_src=IP_A, nw_dst=IP_B, tp_src=1111, tp_dst=80)
PKT2 = dict(in_port=2, dl_src=MAC_B, dl_dst=MAC_A, dl_vlan=0xffff, dl_vlan_pcp=0, dl_type=0x0800, nw_tos=0,
            nw_proto=17, nw_src=IP_B, nw_dst=IP_A, tp_src=53, tp_dst=5353)

MATCHES = {
  "A": dict(in_port=1),
  "B": dict(in_port=1, dl_type=0x0800),
  "C": dict(dl_type=0x0800),
  "D": dict(PKT1, nw_src=(IP_A, 32), nw_dst=(IP_B, 32)),
  "ALL": {},
}
VARIANTS = {"plain": (0, 0, 0), "overlap": (W.OFPFF_CHECK_OVERLAP, 0, 0),
            "rem-idle": (W.OFPFF_SEND_FLOW_REM, 2, 0), "rem-hard": (W.OFPFF_SEND_FLOW_REM, 0, 3),
            # actions that change the frame's length before the output (byte counters count the frame as received)
            "tag": (0, 0, 0)}
COOKIE = {"plain": 1, "overlap": 2, "rem-idle": 3, "rem-hard": 4, "tag": 5, "mod": 9}


def wire_match (m):
  return W.match_fields(**m)


def _prefix_mask (plen):
  return 0 if plen <= 0 else (0xffffffff << (32 - plen)) & 0xffffffff


# ---------------------------------------------------------------------------------------------------
# One flow, several spellings.  ofp_match has room for more than a match says: address bits below the prefix, values
# in wildcarded fields, wildcard counts 33..63 (= 32), fields whose prerequisite is absent.  None of it is part of the
# match: two wire forms that differ only there describe the IDENTICAL match (ADD replaces, *_STRICT selects), and
# subsumption / overlap / lookup look at the specified bits only.
#   SPELL[id] = (kind of spelling, reference match = the specified fields with addresses cut to the prefix, wire form)
# ---------------------------------------------------------------------------------------------------
_WBITS = dict(in_port=W.OFPFW_IN_PORT, dl_vlan=W.OFPFW_DL_VLAN, dl_src=W.OFPFW_DL_SRC, dl_dst=W.OFPFW_DL_DST,
              dl_type=W.OFPFW_DL_TYPE, nw_proto=W.OFPFW_NW_PROTO, tp_src=W.OFPFW_TP_SRC, tp_dst=W.OFPFW_TP_DST,
              dl_vlan_pcp=W.OFPFW_DL_VLAN_PCP, nw_tos=W.OFPFW_NW_TOS)
_WSHIFT = dict(nw_src=W.OFPFW_NW_SRC_SHIFT, nw_dst=W.OFPFW_NW_DST_SHIFT)

def _spelled (specified, values=None, counts=None, unwild=()):
  """wire match specifying `specified` (as W.match_fields), then: `values` written into fields the match does not
  specify, `counts` = nw_src / nw_dst wildcard bit counts written as given (32..63 all mean any address), `unwild` =
  wildcard bits cleared although the field's prerequisite (dl_type / nw_proto) is not specified"""
  pm = W.parse_match(W.match_fields(**specified))
  for f, v in (values or {}).items(): pm[f] = v
  w = pm["wildcards"]
  for f, n in (counts or {}).items(): w = (w & ~(0x3f << _WSHIFT[f])) | (n << _WSHIFT[f])
  for f in unwild:
    if f in _WSHIFT: w &= ~(0x3f << _WSHIFT[f])
    else: w &= ~_WBITS[f]
  pm["wildcards"] = w
  return W.match(**pm)

def _spellings ():
  S = {}
  IP = 0x0800
  def prefix (sid, field, net, plen, host, kind=None):
    ref = dict(dl_type=IP); ref[field] = (net & _prefix_mask(plen), plen)
    S[sid] = (kind or ("canonical" if host == 0 else "nw-host-bits"), ref, _spelled({"dl_type": IP, field: ((net & _prefix_mask(plen)) | host, plen)}))
  # address bits below the prefix: each prefix length x host part {0, lowest bit, highest host bit, all ones}
  for fld, tag, net, plen in (("nw_src", "s24", 0x0a000000, 24), ("nw_src", "s31", 0x0a000000, 31), ("nw_src", "s1", 0x00000000, 1),
                              ("nw_dst", "d8", 0x0a000000, 8), ("nw_dst", "d31", 0x0a000002, 31)):
    hb = 32 - plen
    for nm, host in (("0", 0), ("1", 1), ("h", 1 << (hb - 1)), ("f", (1 << hb) - 1)):
      if nm in ("h", "f") and host in (0, 1): continue
      prefix("%s.%s" % (tag, nm), fld, net, plen, host)
  # other flows next to them: the neighbouring network (lowest network bit differs), with and without host bits; hosts
  prefix("s24x.0", "nw_src", 0x0a000100, 24, 0); prefix("s24x.1", "nw_src", 0x0a000100, 24, 1)
  prefix("s32.a", "nw_src", IP_A, 32, 0); prefix("s32.b", "nw_src", IP_B, 32, 0)
  # "any address" spelt with counts above 32 / with an address left in the field; values left in wildcarded fields
  S["C.63"] = ("nw-wildcard-count", dict(dl_type=IP), _spelled(dict(dl_type=IP), dict(nw_src=IP_A, nw_dst=0xffffffff), dict(nw_src=63, nw_dst=33)))
  S["C.val"] = ("wildcarded-field-values", dict(dl_type=IP), _spelled(dict(dl_type=IP), dict(nw_src=IP_A, nw_dst=IP_B, in_port=1, dl_vlan=5, nw_proto=6,
                                                                                       dl_src=MAC_A, tp_dst=80, nw_tos=8)))
  S["A.val"] = ("wildcarded-field-values", dict(in_port=1), _spelled(dict(in_port=1), dict(dl_type=IP, dl_vlan=5, dl_dst=MAC_B, nw_src=IP_A, tp_src=1111,
                                                                                      dl_vlan_pcp=3)))
  # fields that count for nothing because their prerequisite is not specified, although their wildcard bit is clear
  S["A.pre"] = ("fields-without-prerequisite", dict(in_port=1),
                _spelled(dict(in_port=1), dict(nw_proto=6, nw_tos=8, nw_src=IP_A, nw_dst=IP_B, tp_src=1111, tp_dst=80),
                         unwild=("nw_proto", "nw_tos", "nw_src", "nw_dst", "tp_src", "tp_dst")))
  S["G.0"] = ("canonical", dict(dl_type=IP, nw_proto=47), _spelled(dict(dl_type=IP, nw_proto=47)))
  S["G.tp"] = ("fields-without-prerequisite", dict(dl_type=IP, nw_proto=47), _spelled(dict(dl_type=IP, nw_proto=47), dict(tp_src=1111, tp_dst=80), unwild=("tp_src", "tp_dst")))
  S["R.0"] = ("canonical", dict(dl_type=0x0806), _spelled(dict(dl_type=0x0806)))
  S["R.pre"] = ("fields-without-prerequisite", dict(dl_type=0x0806), _spelled(dict(dl_type=0x0806), dict(nw_tos=8, tp_src=1, tp_dst=2), unwild=("nw_tos", "tp_src", "tp_dst")))
  S["A.0"] = ("canonical", dict(in_port=1), _spelled(dict(in_port=1)))
  S["C.0"] = ("canonical", dict(dl_type=IP), _spelled(dict(dl_type=IP)))
  return S
SPELL = _spellings()
# quick tier: both address fields, a long, a short and a one-bit host part, every kind of spelling
SPELL_QUICK = ("s24.0", "s24.1", "s24.f", "s24x.0", "s31.0", "s31.1", "d8.0", "d8.f", "s32.a", "s32.b", "C.0", "C.63", "A.0", "A.val", "A.pre", "G.0", "G.tp")
# deepest search (three operations: install, replace / modify under another spelling, a third command under a third)
SPELL_CORE = ("s24.1", "s24.f", "s32.a", "d8.0", "d8.f", "A.0", "A.pre", "C.63")
SPELL_CORE_QUICK = ("s24.1", "s24.f", "s32.a", "d8.f", "A.pre")


def wire_of (mid):
  return SPELL[mid][2] if mid in SPELL else W.match_fields(**MATCHES[mid])


def ref_match (pm):
  """Wire match (parsed dict) -> reference dict of specified fields, applying the specification's
  prerequisite rule (network fields only count under an IP/ARP dl_type, transport fields only under
  TCP/UDP/ICMP).  Addresses are cut to their prefix (the bits below it are not part of the match)."""
  w = pm["wildcards"]
  m = {}
  bits = dict(in_port=W.OFPFW_IN_PORT, dl_vlan=W.OFPFW_DL_VLAN, dl_src=W.OFPFW_DL_SRC, dl_dst=W.OFPFW_DL_DST,
              dl_type=W.OFPFW_DL_TYPE, dl_vlan_pcp=W.OFPFW_DL_VLAN_PCP)
  for f, b in bits.items():
    if not w & b: m[f] = pm[f]
  ip = m.get("dl_type") == 0x0800
  arp = m.get("dl_type") == 0x0806
  if ip or arp:
    if not w & W.OFPFW_NW_PROTO: m["nw_proto"] = pm["nw_proto"]
    for f, sh in (("nw_src", W.OFPFW_NW_SRC_SHIFT), ("nw_dst", W.OFPFW_NW_DST_SHIFT)):
      n = (w >> sh) & 0x3f
      if n < 32: m[f] = (pm[f] & _prefix_mask(32 - n), 32 - n)
  if ip:
    if not w & W.OFPFW_NW_TOS: m["nw_tos"] = pm["nw_tos"]
    if m.get("nw_proto") in (1, 6, 17):
      if not w & W.OFPFW_TP_SRC: m["tp_src"] = pm["tp_src"]
      if not w & W.OFPFW_TP_DST: m["tp_dst"] = pm["tp_dst"]
  return m


for _sid, (_k, _ref, _wire) in SPELL.items():
  # the harness' own consistency: each wire form, read by the specification's rules, is the match it is a spelling of
  assert ref_match(W.parse_match(_wire)) == _ref, _sid
  MATCHES[_sid] = _ref


def spell_ops (sids):
  """the commands of the search over spellings: every command kind with every spelling, at one priority (priorities are
  the main search's business); the ADDs ask for notification, so that every later removal is visible as a message too"""
  ops = []
  for sid in sids:
    ops += [("add", sid, 1, "rem-idle"), ("add", sid, 1, "overlap"), ("mods", sid, 1), ("dels", sid, 1), ("mod", sid, 1), ("del", sid)]
  return ops + [("del", "ALL"), ("rx", 1), ("rx", 2)]


def out_ports (actions):
  ports = []; o = 0
  while o + 4 <= len(actions):
    t, l = struct.unpack_from("!HH", actions, o)
    if l < 4: break
    if t == 0: ports.append(struct.unpack_from("!H", actions, o + 4)[0])
    o += l
  return tuple(ports)


def all_ops ():
  ops = []
  for mid in "ABCD":
    for prio in ((1,) if mid == "D" else (1, 2)):
      for v in VARIANTS: ops.append(("add", mid, prio, v))
      ops.append(("mods", mid, prio)); ops.append(("dels", mid, prio))
    ops.append(("mod", mid, 1)); ops.append(("del", mid))
  ops += [("mod", "A", 2), ("mod", "C", 2), ("mod-out", "A", 3), ("mod-out", "ALL", 2), ("add-emerg",), ("del", "ALL"), ("del-out", 2), ("del-out", 3),
          ("rx", 1), ("rx", 2), ("tick", 1.1), ("tick", 2.1), ("sweep",), ("ticksweep", 2.1)]
  return ops
OPS = all_ops()
# the self-sweeping switch: no sweep by hand, time passes with the scheduler running (dyadic steps: the virtual
# clock arithmetic is exact; operations happen at construction + 0.25 + multiples of 0.5, never on a sweep instant)
HAND_TIME = (("tick", 1.1), ("tick", 2.1), ("sweep",), ("ticksweep", 2.1))
def sweep_ops (thorough=False, core=False):
  runs = [("run", 1.0), ("run", 2.0)] + ([("run", 0.5), ("run", 4.5)] if thorough else [])
  ops = [o for o in OPS if o not in HAND_TIME]
  if core:
    # the part of the alphabet that sets, refreshes or ends a timeout (for the deepest search from the empty table)
    ops = [o for o in ops if o in SWEEP_CORE]
  return ops + runs
SWEEP_CORE = ([("add", m, 1, v) for m in "ABCD" for v in ("rem-idle", "rem-hard")] +
              [("add", "A", 2, "rem-idle"), ("add", "C", 2, "rem-hard"), ("add", "A", 1, "plain"),
               ("mod", "A", 1), ("mods", "A", 1), ("del", "A"), ("dels", "C", 1), ("del", "ALL"), ("del-out", 2), ("rx", 1), ("rx", 2)])
SWEEP_OFFSET = 0.25       # the first operation reaches the switch this long after it was built
SETTLE = 6.5              # > largest timeout (3) + largest period (3): everything that can time out has met its sweep


# ---------------------------------------------------------------------------------------------------
# the switch's own expiry timer, run by the real recoco scheduler on the virtual clock
# ---------------------------------------------------------------------------------------------------
ESCAPED = []              # what tasks raised into Scheduler.cycle (which prints it and drops the task)

class _TracebackTap (object):
  """stands in for the `traceback` module inside recoco: Scheduler.cycle reports what a task raised through it"""
  def print_exc (self, *a, **k):
    import sys
    ESCAPED.append(sys.exc_info()[1])
  def __getattr__ (self, n):
    import traceback
    return getattr(traceback, n)


class VScheduler (object):
  """A real pox.lib.recoco Scheduler with the inline SelectHub (no thread).  recoco's `time` is the virtual clock and
  the hub's select function is virtual: with a wake-up pending on the pinger it returns at once; otherwise it lets
  the clock jump to the end of the timeout the hub computed (the earliest timer), or - when that lies beyond the
  instant the caller runs to - to that instant, reporting only the pinger so that no timer is released early.
  Everything else (Scheduler.schedule / cycle, ScheduleTask, Sleep.execute, SelectHub.registerTimer / _select /
  _return, Timer.run with selfStoppable / cancel / recurring) is the real code."""
  def __init__ (self, clock):
    import pox.lib.recoco.recoco as R, pox.lib.util as U
    from mc.env import FakePinger
    self.R, self.clock = R, clock
    R.time = clock
    if not isinstance(R.traceback, _TracebackTap):
      R.traceback = _TracebackTap()
      R.print = lambda *a, **k: None
    old = U.makePinger; U.makePinger = FakePinger
    try: self.sch = R.Scheduler(isDefaultScheduler=True, startInThread=False, threaded_selecthub=False)
    finally: U.makePinger = old
    self.hub = self.sch._selectHub
    self.hub._select_func = self._select
    self.target = clock.now
    self.at_target = False
    self.steps = 0

  def _select (self, rl, wl, xl, timeout):
    p = self.hub._pinger
    if p.pings: return ([p], [], [])
    wake = self.clock.now + timeout
    if wake <= self.target:
      self.clock.now = wake
      return ([], [], [])
    self.clock.now = self.target
    self.at_target = True
    return ([p], [], [])

  def run_until (self, t):
    """what Scheduler.run() does, until virtual time t with nothing left to run"""
    sch = self.sch
    self.target = t
    del ESCAPED[:]
    n = 0
    while True:
      while sch._ready:
        sch.cycle(); self.steps += 1; n += 1
        if n > 10000: raise RuntimeError("scheduler does not come to rest")
      self.at_target = False
      self.hub.idle()
      n += 1
      if n > 10000: raise RuntimeError("scheduler does not come to rest")
      if self.at_target and not sch._ready: break
    if ESCAPED:
      e = ESCAPED[0]; del ESCAPED[:]
      raise e

  def sleeping (self, task):
    """virtual instant at which the hub will wake the task, None if it is not waiting for a timer"""
    ent = self.hub._tasks.get(task)
    return None if ent is None else ent[4]


def SelfSweepStack (clock, period=None, dpid=1, ports=4, **kw):
  """mc.env.SwitchStack around the switch class pox.datapaths.softwareswitch launches: ExpireMixin + SoftwareSwitch.
  period None = ExpireMixin's default, otherwise passed as expire_period."""
  from mc.env import SwitchStack, FakeSock, FakePinger, boot
  boot()
  import pox.datapaths.switch as sw
  import pox.openflow.flow_table as ft
  from pox.lib.ioworker import RecocoIOWorker
  class ExpiringSwitch (sw.ExpireMixin, sw.SoftwareSwitch):
    pass
  self = SwitchStack.__new__(SwitchStack)
  self.swmod = sw; self.clock = clock
  sw.time = clock; ft.time = clock
  self.sock = FakeSock()
  self.worker = RecocoIOWorker(self.sock)
  self.worker.pinger = FakePinger()
  self.closed = []
  self.worker.on_close = lambda w: self.closed.append(w)
  self.conn = sw.OFConnection(self.worker)
  if period is not None: kw["expire_period"] = period
  self.sw = ExpiringSwitch(dpid, ports=ports, **kw)
  self.sw.set_connection(self.conn)
  self.out = []
  self.sw.addListener(sw.DpPacketOut, self._on_out)
  self.drain()
  return self


class World (object):
  def __init__ (self, capacity=None, selfsweep=None):
    """capacity: size of the switch's flow table (SoftwareSwitch max_entries); None = the default, practically unbounded
    selfsweep: None = plain SoftwareSwitch, the harness sweeps by hand; dict(period=None|p) = the self-sweeping
    ExpiringSwitch (period None: ExpireMixin's default of 2 s, else expire_period=p) under a VScheduler"""
    from mc.env import SwitchStack, VClock
    self.clock = VClock(1000.0)
    self.capacity = capacity
    kw = {} if capacity is None else dict(max_entries=capacity)
    self.selfsweep = selfsweep
    self.vs = None
    if selfsweep is None:
      self.st = SwitchStack(dpid=1, ports=4, clock=self.clock, max_buffers=0, **kw)
    else:
      self.vs = VScheduler(self.clock)
      self.st = SelfSweepStack(self.clock, period=selfsweep.get("period"), max_buffers=0, **kw)
      # reference: a switch that expires entries by itself sweeps once per period, counted from its construction
      self.period = float(selfsweep.get("period") or 2)
      self.next_sweep = self.clock.now + self.period
      self.vs.run_until(self.clock.now + SWEEP_OFFSET)
    self.ref = RefTable(capacity=capacity)
    self.xid = 10
    self.bad = []
    self.spelt = {}           # id(reference entry) -> id of the spelling it was installed under

  def fail (self, clause, what): self.bad.append(("%s:%s" % (PID, clause), what))
  def nxid (self): self.xid += 1; return self.xid

  def read_table (self):
    self.st.feed(W.stats_request(self.nxid(), W.OFPST_FLOW, W.flow_stats_body()))
    msgs, rest = W.split(self.st.drain())
    ds = [W.decode(m) for m in msgs]
    if len(ds) != 1 or ds[0]["type"] != W.STATS_REPLY or not ds[0].get("wellformed", False):
      self.fail("read-back:no-flow-stats", "flow stats request not answered with one well-formed reply"); return None
    rows = []
    for e in ds[0]["flows"]:
      rm = ref_match(e["match"])
      rows.append((tuple(sorted(rm.items())), e["priority"], out_ports(e["actions"]), e["idle_timeout"], e["hard_timeout"],
                   e["cookie"], e["packet_count"], e["byte_count"], e["duration_sec"]))
    # table order: descending effective priority (exact-match entries first)
    effs = [((1 << 16) + 1) if is_exact(dict(r[0])) else r[1] for r in rows]
    if any(effs[i] < effs[i+1] for i in range(len(effs) - 1)):
      self.fail("order:not-by-priority", "table not ordered by effective priority: %r" % (effs,))
    return rows

  def apply (self, op):
    try:
      return self._apply(op)
    except Exception as e:
      # an exception escaping the switch / flow table while it handles an operation
      import traceback
      site = "?"
      for fr in reversed(traceback.extract_tb(e.__traceback__)):
        if "/pox/" in fr.filename: site = "%s:%s" % (fr.filename.split("/pox/")[-1], fr.name); break
      if site == "?": raise
      self.bad = [("%s:raises:%s:%s:%s" % (PID, op[0], site, type(e).__name__), "%r: %s: %s raised in %s" % (op, type(e).__name__, e, site))]
      return ("raised",)

  def _apply (self, op):
    """one operation; a command that fails while it meets (as the identical match of ADD / *_STRICT, or as an entry its
    match subsumes) an entry installed under another spelling than its own is reported as such"""
    mid = op[1] if op[0] in ("add", "mod", "mods", "del", "dels", "mod-out") else None
    before = list(self.ref.entries)
    out = self._apply1(op)
    if mid is not None:
      for e in self.ref.entries:
        if e not in before: self.spelt[id(e)] = mid           # (Entry compares by identity)
      if self.bad and not any("partial-overlap" in key for key, what in self.bad):
        from mc.refs.reftable import identical, subsumes
        m = MATCHES[mid]
        if op[0] in ("add", "mods", "dels"): met = [e for e in before if identical(e.match, m) and e.priority == op[2]]
        else: met = [e for e in before if subsumes(m, e.match)]
        kind = lambda x: SPELL[x][0] if x in SPELL else "canonical"
        kinds = set(); pairs = set()
        for e in met:
          other = self.spelt.get(id(e))
          if other != mid: kinds |= set([kind(mid), kind(other)]); pairs.add(other)
        kinds.discard("canonical")
        if kinds:
          self.bad = [("%s:%s:respelled:%s" % (PID, op[0], "+".join(sorted(kinds))),
                       "command match %s = %s meets entries installed as %s: %s" % (mid, wire_of(mid).hex(), sorted(pairs), self.bad[0][1]))]
    return out

  def _apply1 (self, op):
    self.bad = []
    st, ref, now = self.st, self.ref, self.clock.now
    k = op[0]
    exp = []
    rxinfo = None
    atcap = None
    if k == "tick":
      self.clock.advance(op[1]); return ("tick",)
    if k == "ticksweep":
      # what the switch's periodic expiry timer amounts to: time passes, then a sweep
      self.clock.advance(op[1]); now = self.clock.now
      st.sweep(); exp = ref.sweep(now)
    elif k == "sweep":
      st.sweep(); exp = ref.sweep(now)
    elif k == "run":
      # time passes with the scheduler running: the switch sweeps when its own timer fires, the reference at every
      # multiple of the period since the switch was built
      now = now + op[1]
      self.vs.run_until(now)
      while self.next_sweep <= now:
        exp += ref.sweep(self.next_sweep); self.next_sweep += self.period
    elif k == "rx":
      frame, pkt = (FRAME1, PKT1) if op[1] == 1 else (FRAME2, PKT2)
      cands = ref.candidates(pkt)
      before = ref.view(now)
      st.rx(frame, op[1])
      rxinfo = (frame, pkt, cands)
    else:
      x = self.nxid()
      # was the table full when the command arrived, and is there an entry the command would replace?
      if self.capacity is not None and len(ref.entries) >= self.capacity:
        atcap = "at-capacity:new-flow" if k in ("add", "add-emerg") else "at-capacity"
        if k in ("add", "add-emerg"):
          from mc.refs.reftable import identical
          m0 = MATCHES[op[1]] if k == "add" else MATCHES["A"]; p0 = op[2] if k == "add" else 1
          if any(identical(e.match, m0) and e.priority == p0 for e in ref.entries): atcap = "at-capacity:replacing"
      if k == "add":
        _, mid, prio, v = op
        flags, idle, hard = VARIANTS[v]
        acts = (W.a_set_vlan_vid(5) + W.a_output(2, 0)) if v == "tag" else W.a_output(2, 0)
        st.feed(W.flow_mod(x, wire_of(mid), W.OFPFC_ADD, acts, priority=prio, idle=idle, hard=hard,
                           cookie=COOKIE[v], flags=flags))
        exp = ref.add(now, MATCHES[mid], prio, (2,), flags, idle, hard, COOKIE[v])
      elif k == "add-emerg":
        st.feed(W.flow_mod(x, wire_of("A"), W.OFPFC_ADD, W.a_output(2, 0), priority=1, flags=W.OFPFF_EMERG))
        exp = ref.add(now, MATCHES["A"], 1, (2,), W.OFPFF_EMERG)
      elif k in ("mod", "mods"):
        _, mid, prio = op
        st.feed(W.flow_mod(x, wire_of(mid), W.OFPFC_MODIFY_STRICT if k == "mods" else W.OFPFC_MODIFY,
                           W.a_output(3, 0), priority=prio, cookie=COOKIE["mod"]))
        exp = ref.modify(now, MATCHES[mid], prio, (3,), k == "mods", cookie=COOKIE["mod"])
      elif k == "mod-out":
        # out_port is a DELETE-only filter: a MODIFY carrying one behaves like a plain MODIFY
        _, mid, port = op
        st.feed(W.flow_mod(x, wire_of(mid), W.OFPFC_MODIFY, W.a_output(3, 0), priority=1, cookie=COOKIE["mod"], out_port=port))
        exp = ref.modify(now, MATCHES[mid], 1, (3,), False, cookie=COOKIE["mod"])
      elif k in ("del", "dels"):
        mid = op[1]; prio = op[2] if k == "dels" else 0
        st.feed(W.flow_mod(x, wire_of(mid), W.OFPFC_DELETE_STRICT if k == "dels" else W.OFPFC_DELETE, priority=prio))
        exp = ref.delete(now, MATCHES[mid], prio, k == "dels")
      elif k == "del-out":
        st.feed(W.flow_mod(x, wire_match({}), W.OFPFC_DELETE, out_port=op[1]))
        exp = ref.delete(now, {}, 0, False, out_port=op[1])
    # ---- messages emitted by the operation -------------------------------
    msgs, rest = W.split(st.drain())
    ds = [W.decode(m) for m in msgs]
    got = []
    for d in ds:
      if d["type"] == W.ERROR: got.append(("error", d["etype"], d["code"]))
      elif d["type"] == W.FLOW_REMOVED:
        rm = ref_match(d["match"])
        got.append(("flow_removed", (tuple(sorted(rm.items())), d["priority"], d["idle_timeout"], d["cookie"],
                                     d["packet_count"], d["byte_count"], d["duration_sec"]), d["reason"]))
      elif d["type"] == W.PACKET_IN: got.append(("packet_in", d["in_port"]))
      else: got.append((d["t"],))
    want = []
    for e in exp:
      if e[0] == "flow_removed":
        v = e[1]   # (match, prio, actions, idle, hard, cookie, packets, bytes, duration)
        want.append(("flow_removed", (v[0], v[1], v[3], v[5], v[6], v[7], v[8]), e[2]))
      else: want.append(e)
    if rxinfo is not None and not rxinfo[2]: want.append(("packet_in", op[1]))
    def norm (lst, wild):
      out = []
      for m in lst:
        if m[0] == "error" and wild.get(("error", m[1])): m = ("error", m[1], None)
        if m[0] == "flow_removed" and wild.get(("fr", m[1])): m = ("flow_removed", m[1], None)
        out.append(m)
      return sorted(out, key=repr)
    wild = {}
    for m in want:
      if m[0] == "error" and m[2] is None: wild[("error", m[1])] = True
      if m[0] == "flow_removed" and m[2] is None: wild[("fr", m[1])] = True
    if norm(got, wild) != norm(want, wild):
      cl = "messages"
      if k == "add" and op[3] == "overlap" and not got and want:
        # classify: is the conflicting equal-priority entry nested with the new match, or do they only partially overlap?
        from mc.refs.reftable import subsumes, overlaps
        new = MATCHES[op[1]]
        rel = set()
        for e in self.ref.entries:
          if e.priority == op[2] and overlaps(e.match, new) and is_exact(e.match) == is_exact(new):
            rel.add("nested" if (subsumes(e.match, new) or subsumes(new, e.match)) else "partial-overlap")
        cl = "check-overlap-not-refused:" + "+".join(sorted(rel))
        if not rel and atcap: cl = atcap      # nothing overlaps: the refusal that is missing is the one for the full table
      elif k in ("add", "add-emerg", "mod", "mods", "mod-out") and atcap:
        cl = atcap
      elif k == "run":
        # the switch's own sweeps: which entry's notification is absent / unexpected / carries other values
        ident = lambda m: (m[1][0], m[1][1], m[1][3]) if m[0] == "flow_removed" else m[:1]
        gi = [ident(m) for m in got]; wi = [ident(m) for m in want]
        if any(gi.count(x) < wi.count(x) for x in wi): cl = "not-removed-at-first-sweep-after-timeout"
        elif any(gi.count(x) > wi.count(x) for x in gi): cl = "removed-before-timeout-or-twice"
        else: cl = "removed-at-other-instant-or-reason"
      gk = sorted(set(m[0] for m in got)); wk = sorted(set(m[0] for m in want))
      self.fail("%s:%s:got-%s-want-%s" % (k, cl, "+".join(gk) or "none", "+".join(wk) or "none"),
                "%r: switch emitted %r, specification says %r" % (op, norm(got, wild), norm(want, wild)))
    if self.bad: return ("bad",)
    # ---- table read back ---------------------------------------------------
    rows = self.read_table()
    emitted = st.take_out()
    if rows is None: return ("unreadable",)
    real = sorted(rows)
    if rxinfo is not None:
      frame, pkt, cands = rxinfo
      if not cands:
        if emitted: self.fail("rx:miss-emits", "table miss emitted frames on %r" % [p for p, f in emitted])
        if real != ref.view(now):
          self.fail("rx:miss-changes-table", "a table miss changed the table")
      else:
        chosen = None
        for c in cands:
          c.packets += 1; c.bytes += len(frame); old = c.touched; c.touched = now
          if ref.view(now) == real: chosen = c; break
          c.packets -= 1; c.bytes -= len(frame); c.touched = old
        if chosen is None:
          self.fail("rx:lookup", "frame on port %d: table after lookup %r is not the table with one of the highest-priority matching entries %r hit"
                    % (op[1], real, [c.view(now) for c in cands]))
        else:
          if [p for p, f in emitted] != [p for p in chosen.actions if p != op[1]]:     # frame bytes are C12's business
            self.fail("rx:output", "frame matched entry with actions %r but was emitted on %r" % (chosen.actions, [p for p, f in emitted]))
      return ("rx", len(cands), [p for p, f in emitted])
    if real != ref.view(now):
      mine = ref.view(now)
      extra = list(real); missing = []              # (multisets: the same row may be installed twice)
      for r in mine:
        if r in extra: extra.remove(r)
        else: missing.append(r)
      self.fail("%s:table" % k, "%r: table differs from the specification's; only in switch %r; only in reference %r" % (op, extra, missing))
    return (k, len(real), [g[0] for g in got])

  def key (self):
    now = self.clock.now
    model = sorted((e.view(now), e.flags, round(now - e.created, 1), round(now - e.touched, 1)) for e in self.ref.entries)
    real = []
    for e in self.st.sw.table.entries:
      real.append((e.priority, e.cookie, e.idle_timeout, e.hard_timeout, e.flags, e.packet_count, e.byte_count,
                   round(now - e.created, 1), round(now - e.last_touched, 1), digest(e.match.pack()),
                   tuple(getattr(a, "port", None) for a in e.actions)))
    if self.vs is None: return (model, real, self.capacity)
    tm = getattr(self.st.sw, "_expire_timer", None)
    wake = self.vs.sleeping(tm)
    timer = (None if wake is None else round(wake - now, 3), getattr(tm, "_cancelled", None), round(getattr(tm, "_next", now) - now, 3),
             len(self.vs.sch._ready), len(self.vs.hub._tasks))
    return (model, real, self.capacity, ("self-sweep", self.period, round(self.next_sweep - now, 3)), timer)


ROOTS = [
  (),
  (("add", "A", 1, "rem-idle"), ("add", "C", 2, "rem-hard"), ("add", "D", 1, "plain")),
  (("add", "B", 1, "rem-idle"), ("add", "C", 1, "rem-idle"), ("add", "A", 2, "plain"), ("tick", 1.1)),
  # only permanent entries, and a sweep has already looked at them
  (("add", "A", 1, "plain"), ("add", "C", 2, "plain"), ("sweep",)),
  # entries with the same kind of timeout installed at different times: they run out in an order that differs from
  # their order in the table (newest first among equals; exact matches first)
  (("add", "A", 1, "rem-hard"), ("add", "B", 2, "rem-idle"), ("tick", 1.1), ("add", "C", 1, "rem-hard"), ("add", "D", 1, "rem-idle")),
]

# Switches with a small flow table (SoftwareSwitch max_entries).  The same alphabet runs against them, so every command
# that can install an entry (ADD of a new flow, ADD replacing an identical entry, ADD+CHECK_OVERLAP, ADD+EMERG,
# MODIFY / MODIFY_STRICT acting as ADD) meets a table that is full, one below full, and freed again by DELETE*, an
# expiry sweep or a replacement.  Reference: a replacement needs no free slot, a new flow without one is refused with
# ALL_TABLES_FULL and changes nothing (when CHECK_OVERLAP refuses as well, either code is accepted).
CAP_ROOTS = [
  # (capacity, root, depth = tier depth + this)
  (0, (), -2),                                    # a table without room at all
  (1, (), 0),                                     # all histories over tables of at most one entry
  (2, (("add", "C", 2, "plain"), ("add", "A", 1, "rem-idle"), ("del", "C")), -1),     # one below full, after having been full
  (2, (("add", "B", 1, "rem-hard"), ("add", "C", 1, "plain"), ("rx", 1)), -1),        # full, counters running
  (3, ROOTS[1], -1),                              # full, with an exact-match entry and both kinds of timeout
  (3, ROOTS[4][:3], -1),                          # one below full, staggered timeouts
]

# The self-sweeping switch (ExpireMixin's recoco Timer run by the real scheduler on the virtual clock).
# (expire_period or None = ExpireMixin's default, root, depth = tier depth + this, alphabet).  Roots are installed at
# construction + 0.25 s; the periodic sweeps fall on construction + k * period.
SWEEP_ROOTS = [
  # from the empty table: the first sweeps find nothing at all
  (None, (), 0, "core"),
  (None, (), -1, "full"),
  # idle + hard + permanent, installed together: one sweep finds nothing, the next finds everything that can expire
  (None, ROOTS[1], -1, "full"),
  # staggered: a sweep that finds nothing, one that finds some (and leaves a younger idle and a younger hard entry),
  # one that finds the rest; a sweep has already run (and found nothing) when the younger entries are installed
  (None, (("add", "A", 1, "rem-hard"), ("add", "B", 2, "rem-idle"), ("run", 2.0), ("add", "C", 1, "rem-hard"), ("add", "D", 1, "rem-idle")), -1, "full"),
  # periods given as expire_period: shorter than both timeouts (several empty sweeps before anything is due), and as
  # long as the hard timeout
  (1, (("add", "A", 1, "rem-hard"), ("add", "C", 2, "rem-idle"), ("add", "B", 1, "plain")), -1, "full"),
  (3, ROOTS[1], -1, "full"),
]

# One flow, several spellings (SPELL): every command kind x every spelling against tables holding entries installed under
# other spellings of the same flow, of nested flows and of neighbouring flows.
SPELL_ROOTS = [
  (),
  (("add", "s24.1", 1, "rem-idle"), ("add", "s32.b", 1, "rem-idle"), ("add", "A.pre", 1, "rem-idle"), ("add", "d8.f", 1, "rem-idle"), ("add", "G.tp", 1, "rem-idle")),
]

def make_expand (root, capacity=None, selfsweep=None, ops=None):
  if ops is None: ops = OPS
  def expand (h):
    w = World(capacity, selfsweep)
    out = None
    rootbad = []
    for op in root:
      w.apply(op)
      if selfsweep is not None: rootbad += w.bad        # these roots contain ("run", d), which nothing else checks
    for op in h: out = w.apply(op)
    extra = dict(root=[list(o) for o in root])
    if capacity is not None: extra["capacity"] = capacity
    bad = w.bad if h else rootbad
    key = w.key()
    if selfsweep is not None:
      extra["selfsweep"] = selfsweep
      if not bad:
        # close the history: no further input, the switch's own sweeps must clear everything that can time out
        w.apply(("run", SETTLE)); bad = w.bad
        if bad: extra["settle"] = SETTLE
    return dict(key=key, ops=ops, bad=bad, out=out, replay_extra=extra)
  return expand


def run (cfg):
  from mc.env import boot
  boot()
  rep = Report(PID, "model_checking")
  depth = cfg.pick(3, 4)
  sops = dict(full=sweep_ops(thorough=not cfg.quick), core=sweep_ops(thorough=not cfg.quick, core=True))
  rep.rule = ("breadth-first search, every reachable table state expanded once, over histories of <=%d operations (from the empty table; one less from four populated tables) from %d: "
              "ADD x matches {in_port=1; in_port=1,dl_type=IP; dl_type=IP; exact} x priority {1,2} x {plain, CHECK_OVERLAP, set_vlan_vid+output, "
              "SEND_FLOW_REM+idle 2, SEND_FLOW_REM+hard 3}, ADD+EMERG, MODIFY, MODIFY_STRICT, DELETE, DELETE_STRICT, DELETE with "
              "out_port filter, a frame hitting all four matches, a frame hitting only dl_type=IP, clock +1.1 / +2.1, expiry sweep; "
              "after every operation the table is read back with a flow-stats request and compared with the reference state machine, "
              "as are the emitted error / flow-removed / packet-in messages; distinct = (last op, observation).  "
              "The same search is repeated against switches whose flow table holds at most 0, 1, 2, 3 entries (%s), so every "
              "installing command (new ADD, replacing ADD, CHECK_OVERLAP, EMERG, MODIFY* acting as ADD) meets a full table, a table "
              "one below full, and one freed by DELETE*, an expiry sweep or a replacement.  "
              "In all of the above the harness fires the sweep (table.remove_expired_entries()).  Self-sweeping switch: the same search "
              "against pox.datapaths' ExpiringSwitch (ExpireMixin + SoftwareSwitch) whose sweep is the callback of the recurring "
              "pox.lib.recoco Timer ExpireMixin starts, that Timer task being run by a real recoco Scheduler with the inline SelectHub on "
              "the virtual clock (virtual select(): jumps to the earliest timer, never beyond the instant run to); no sweep by hand - "
              "instead time passes %s s with the scheduler running, the sweeps being the ones the switch's timer makes; the reference "
              "sweeps at every multiple of the period since the switch was built; operations arrive 0.25 s + multiples of 0.5 s after "
              "that.  Searches: %s.  Every history of these searches (roots included) is closed by letting %.1f s pass without input "
              "(all sweeps in that span checked: entries with a timeout go at their first sweep after it with one flow-removed, "
              "the others stay), so each enumerated history is also checked for what an earlier sweep - one that found nothing, "
              "something or everything expired - does to the later ones.  "
              "One flow, several spellings: ofp_match has room for more than a match says, so the searches (plain switch, <=%d operations "
              "from the empty table and from a table of five entries installed under non-canonical spellings%s) run {ADD+SEND_FLOW_REM, "
              "ADD+CHECK_OVERLAP, MODIFY, MODIFY_STRICT, DELETE, DELETE_STRICT} x %d wire spellings of %d flows + DELETE all + both frames: "
              "{nw_src, nw_dst} x prefix {/1, /8, /24, /31} x bits below the prefix {0, lowest, highest, all}, the neighbouring network, "
              "the two hosts /32 inside them, any-address spelt with wildcard counts 33 / 63 and with addresses left in the field, "
              "values left in wildcarded fields, wildcard bits cleared on fields whose prerequisite (dl_type, nw_proto) the match does not "
              "give (IP without dl_type, transport ports under GRE, nw_tos / ports under ARP); two spellings of one flow are the identical "
              "match for ADD / *_STRICT, and subsumption, overlap and lookup see the specified bits only"
              % (depth, len(OPS), "; ".join("capacity %d: <=%d operations from %s" % (c, max(1, depth + dd), "a populated table" if r else "the empty table")
                                           for c, r, dd in CAP_ROOTS),
                 " / ".join("%g" % o[1] for o in sops["full"] if o[0] == "run"),
                 "; ".join("expire_period %s, <=%d operations out of %d from %s" % ("default (2 s)" if p is None else "= %d s" % p, max(1, depth + dd), len(sops[a]),
                                                                                   "a table with idle, hard and permanent entries%s" % (" installed on both sides of a sweep" if any(o[0] == "run" for o in r) else "") if r else "the empty table")
                           for p, r, dd, a in SWEEP_ROOTS), SETTLE,
                 2, "; <=3 operations over %d spellings from the empty table" % len(cfg.pick(SPELL_CORE_QUICK, SPELL_CORE)),
                 len(SPELL_QUICK) if cfg.quick else len(SPELL), len(set(repr(sorted(SPELL[x][1].items())) for x in (SPELL_QUICK if cfg.quick else SPELL)))))
  rep.bound = dict(depth=depth, operations=len(OPS), table_capacities=sorted(set(c for c, r, dd in CAP_ROOTS)) + ["default (0x7fffffff)"],
                   self_sweep=dict(expire_periods=["default"] + sorted(set(p for p, r, dd, a in SWEEP_ROOTS if p is not None)),
                                   operations=dict((a, len(sops[a])) for a in sops), settle_seconds=SETTLE,
                                   run_steps=[o[1] for o in sops["full"] if o[0] == "run"]))
  rep.bound["spellings"] = dict(quick=list(SPELL_QUICK), thorough=sorted(SPELL), depth=2, deep=dict(spellings=list(cfg.pick(SPELL_CORE_QUICK, SPELL_CORE)), depth=3))
  rep.assumptions = ["clock steps are non-integral so no sweep lands exactly on a timeout boundary",
                     "a match is the set of packets it describes together with its wildcard pattern: address bits below the prefix, values "
                     "in wildcarded fields, wildcard counts above 32 and fields without their prerequisite are not part of it (they are "
                     "neither compared by ADD / *_STRICT nor demanded back in flow-stats / flow-removed: read-back addresses are cut to "
                     "the prefix before comparison)",
                     "among equal-priority overlapping entries a lookup may return either (specification leaves it open)",
                     "when idle and hard timeouts have both passed either removal reason is accepted",
                     "state key = whole real table (ages relative to now) + reference table + table capacity",
                     "an ADD whose match and priority equal an installed entry's takes that entry's place and needs no free slot; any other "
                     "installing command on a full table is refused with ALL_TABLES_FULL and leaves the table alone; entries whose timeout has "
                     "passed occupy their slot until the sweep removes them",
                     "an ADD that both overlaps (CHECK_OVERLAP) and finds the table full may be refused with either code",
                     "self-sweeping switch: a switch that expires entries by itself sweeps once per expire_period (ExpireMixin's default: "
                     "2 s), counted from its construction, for as long as it exists; a sweep and the scheduler's bookkeeping take no "
                     "virtual time; the scheduler, select hub and Timer are the real pox.lib.recoco code, only select() and time are "
                     "virtual; whatever a task raises into Scheduler.cycle (which drops the task) counts as raised by the operation; "
                     "controller messages and frames are handled between scheduler steps (cooperative tasks, as in POX)",
                     "self-sweeping switch: state key additionally holds the phase of the reference's next sweep and the switch's timer "
                     "(wake-up instant in the select hub, cancelled flag, ready-queue and hub sizes)"]
  for i, root in enumerate(ROOTS):
    # start from the empty table and from two populated tables (defects rarely show from the initial state)
    bfs(make_expand(root), depth if i == 0 else depth - 1, rep, workers=cfg.workers, seed=cfg.seed, max_states=cfg.pick(400000, 2000000))
  for cap, root, dd in CAP_ROOTS:
    bfs(make_expand(root, cap), max(1, depth + dd), rep, workers=cfg.workers, seed=cfg.seed, max_states=cfg.pick(400000, 2000000))
  for period, root, dd, alpha in SWEEP_ROOTS:
    bfs(make_expand(root, None, dict(period=period), sops[alpha]), max(1, depth + dd), rep, workers=cfg.workers, seed=cfg.seed,
        max_states=cfg.pick(400000, 2000000))
  spell_sets = [(SPELL_QUICK if cfg.quick else tuple(sorted(SPELL)), r, 2) for r in SPELL_ROOTS] + [(cfg.pick(SPELL_CORE_QUICK, SPELL_CORE), (), 3)]
  for sids, root, d in spell_sets:
    bfs(make_expand(root, ops=spell_ops(sids)), d, rep, workers=cfg.workers, seed=cfg.seed, max_states=cfg.pick(400000, 2000000))
  rep.extra["spelling_roots"] = [dict(spellings=list(sids), root=list(map(list, r)), depth=d) for sids, r, d in spell_sets]
  rep.extra["spellings"] = dict((sid, dict(kind=SPELL[sid][0], wire=SPELL[sid][2].hex())) for sid in sorted(SPELL))
  rep.extra["self_sweep_roots"] = [dict(expire_period=p, root=list(map(list, r)), depth=max(1, depth + dd), operations=len(sops[a])) for p, r, dd, a in SWEEP_ROOTS]
  rep.extra["roots"] = [list(map(list, r)) for r in ROOTS]
  rep.extra["capacity_roots"] = [dict(capacity=c, root=list(map(list, r)), depth=max(1, depth + dd)) for c, r, dd in CAP_ROOTS]
  return rep


def replay (cfg, data):
  from mc.env import boot
  boot()
  w = World(data.get("capacity"), data.get("selfsweep")); lines = []
  bad = []
  for op in data.get("root", []):
    out = w.apply(tuple(op))
    if data.get("selfsweep") is not None:
      lines.append("root %r -> %r %s" % (tuple(op), out, w.bad or "")); bad += w.bad
  hist = [tuple(op) for op in data["history"]]
  if data.get("settle"): hist.append(("run", data["settle"]))
  for op in hist:
    out = w.apply(op)
    lines.append("%r -> %r %s" % (op, out, w.bad or ""))
  return bool(w.bad or bad), "\n".join(lines)
