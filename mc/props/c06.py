"""C06 - cooperative scheduler runs every task step exactly once, in isolation (pox.lib.recoco).

PART 1 (inline select hub, E-seq).  A real Scheduler(startInThread=False, threaded_selecthub=False) is run by
calling its own run() on the calling thread (which is made the scheduler's thread).  recoco.time is a
virtual clock, SelectHub._select_func / recoco.select a virtual select that advances the clock to the next
readiness / timer instant and ends the run (sets scheduler._hasQuit) when nothing can ever happen again (the
explicit horizon); the hub's pinger is the library's own (pox.lib.util.make_pinger -> PipePinger) on a virtual os.pipe
(pox.lib.util.os rebound to VOs).  Programs: every ORDERED tuple of 2 (quick) / 2-3
(thorough) entities, an entity being a task (a generator script of <= 3 yields over the vocabulary OPS) or a
Timer variant, within a cap on the total number of yields (see inline_suites); environment choices (fd
readiness instant per selecting task - all explored; the scheduler's _random for the priority-0.5 task and the
virtual time consumed per step - deviations) are explored with mc.engine.explore within a deviation bound.

PART 2 (E-thr).  Representative programs of the same grammar (THR_PROGRAMS) run on controlled threads under the
controlled-thread explorer mc/thr.py, every schedule within a deviation bound: (a) threaded select hub - the scheduler
thread + the select-hub thread (+ an environment thread that lets virtual time reach the fd readiness instants);
(b) INLINE select hub run on a scheduler thread of its own, with wake-ups that arrive from OTHER threads: the worker
thread of a CallBlocking (returning at once / after a second / raising an Exception / raising SystemExit), a foreign thread that schedule()s a blocked
task or start()s a new one (fast_schedule directly, or through a ScheduleTask), while the scheduler is busy, about to
idle, or waiting in select for a timer; (c) the same cross-thread wake-ups with the threaded hub.  A wake-up that is
only noticed because the hub's polling interval expires counts as lost.

PART 3.  The hub's alternative select function, pox.lib.epoll_select.EpollSelect, against select.select on real
local sockets, every short sequence of calls.

PART 4.  The hub's wake-up pipe between two idles (inline hub; the registration forms also with the threaded hub, default schedule): large programs of the same grammar (N tasks started at once, a
task woken N times, N sleepers, N timers, next to a waiter) with N over a boundary lattice around the multiples of the
pinger's read size (1024) and around a pipe's capacity (65536); a read of the empty pipe / a write to the full one on the
scheduler thread is a hang (see VOs, run_ping_part).

Oracle (parts 1, 2) = invariants on the recorded trace (task, step, virtual time, thread), see World:
steps in program order, one at a time, on the scheduler thread; a task is never in the ready queue twice or while
it runs (also with several tasks of priority < 1 and runs of high random draws); a timed wake never before the
requested instant; a blocked task resumes only after a sibling scheduled
it; a Select wake carries the task's own readable (or hung-up) fd or an expired timeout; timers fire at >= each period, the
expected number of times, never after cancel(); at the horizon nothing runnable is left un-run and every
unfinished task waits for something that can never happen; a raising task leaves the others exactly as if it had
ended there (differential twin) whatever it raises (Exception, SystemExit, GeneratorExit, KeyboardInterrupt, another
BaseException) and wherever (its step, the execute() of the operation it yielded, a timer callback, a sub-task) - in
particular nothing it raises ends Scheduler.run(); a CallBlocking resumes its task once, with (value, None) or
(None, exc_info), after the function finished; a sub-task's value / exception / plain return arrives at exactly its caller, also
through two levels of sub-task calls; a Send resumes its task once, with the byte count, after all bytes reached the
socket complete and in order whatever each send() accepted; a Recv hands over the next bytes of the stream or None
after its timeout (b"" or None once the peer has hung up); no I/O event ends Scheduler.run() or the hub thread.

Debugging aids: --only inline | inline:N (every N-th program) | suite:K (K-th inline suite) | threaded | threaded:K | pinger | epoll.
"""
import gc, itertools, sys, threading, time, queue
import os as _real_os
from mc.engine import explore, pmap, Ctx, Divergence
from mc.report import Report

PID = "C06"
T0 = 1000.0         # virtual epoch
DT = 0.625          # virtual seconds a step may consume (dyadic, so all clock arithmetic is exact)
FD_AT = (None, 0.5, 1.5)    # fd readiness scripts: never, at T0+0.5, at T0+1.5
# ... plus, in the suites that say so (hup=True), the peer hanging up at T0+0.5 without having sent anything: from then on the
# socket is at end-of-file (select reports it readable and recv() returns b""; epoll reports EPOLLIN|EPOLLHUP, whatever it was asked)
FD_FATES_HUP = FD_AT + (("hup", 0.5),)
RX_STREAM = b"hello"                                    # what every task's socket has to read, from its readiness instant on
TX_BIG = bytes((i * 7 + (i >> 8)) & 0xff for i in range(20000))     # > 2 blocks of Send's default block_size (8192)
TX_SMALL = b"small"
POLL = 1e8          # select timeouts >= POLL are the hub's polling interval (CYCLE_MAXIMUM is rebound to 1e9)
MAX_STEPS = 120
MAX_SELECTS = 300

# ---------------------------------------------------------------------------------------------------
# vocabulary
# ---------------------------------------------------------------------------------------------------
# op -> (kind, argument, description)
OPS = {
  "0":   ("resched", None, "yield 0"),
  "0f":  ("resched", 0.0, "yield 0.0"),
  "n1":  ("num", 1, "yield 1"),
  "n-1": ("num", -1, "yield -1"),
  "n.5": ("num", 0.5, "yield 0.5"),
  "S2":  ("sleep", 2, "yield Sleep(2)"),
  "S1":  ("sleep", 1, "yield Sleep(1)"),
  "S0":  ("sleep", 0, "yield Sleep(0)"),
  "Sa-1": ("asleep", -1, "yield Sleep(now-1, absoluteTime=True)"),
  "Sa0": ("asleep", 0, "yield Sleep(now, absoluteTime=True)"),
  "Sa1": ("asleep", 1, "yield Sleep(now+1, absoluteTime=True)"),
  "SN":  ("block", "Sleep(None)", "yield Sleep(None)"),
  "F":   ("block", "False", "yield False"),
  "Se":  ("select", None, "yield Select([fd], None, None, None)"),
  "Se1": ("select", 1, "yield Select([fd], None, None, 1)"),
  "Se0": ("select", 0, "yield Select([fd], None, None, 0)"),
  "Av":  ("again", "v", "yield Again(sub yielding a value)"),
  "As":  ("again", "s", "yield task_function(sub: Sleep(1) then yields a value)()"),
  "Ar":  ("again", "r", "yield Again(sub raising)"),
  "Ae":  ("again", "e", "yield Again(sub returning before its first yield)"),
  "Asr": ("again", "sr", "yield Again(sub: Sleep(1) then returns)"),
  "Ase": ("again", "se", "yield Again(sub: Sleep(1) then raises)"),
  "TF":  ("again", "tf", "yield task_function(plain function returning a value)()"),
  "TFr": ("again", "tfr", "yield task_function(plain function raising)()"),
  # sub-tasks nested two deep: the called sub-task (middle) itself calls a sub-task (inner)
  "Nv":  ("again", "nv", "yield Again(middle: v = yield Again(inner yielding a value); yields its own value)"),
  "Nc":  ("again", "nc", "yield Again(middle: catches what Again(inner raising) throws; yields its own value)"),
  "Nu":  ("again", "nu", "yield Again(middle: yield Again(inner raising), not caught)"),
  "Ncs": ("again", "ncs", "yield Again(middle: catches what Again(inner: Sleep(1) then raises) throws; yields its own value)"),
  "Nus": ("again", "nus", "yield Again(middle: yield Again(inner: Sleep(1) then raises), not caught)"),
  # socket I/O on the task's own (fake) stream socket
  "Tx":  ("send", "big", "yield Send(sock, %d bytes)  [default block_size 8192: several rounds]" % 20000),
  "Txs": ("send", "small", "yield Send(sock, 5 bytes)"),
  "Rx":  ("recv", None, "yield Recv(sock)"),
  "Rx1": ("recv", 1, "yield Recv(sock, timeout=1)"),
  "W":   ("wake", None, "schedule() every blocked/ready sibling; yield 0"),
  "St":  ("start", None, "start() every Timer built with started=False; yield 0"),
  "C":   ("cancel", None, "cancel() every Timer; yield 0"),
  "X":   ("exit", None, "yield Exit()"),
  "!":   ("raise", "E", "raise"),
  # what is raised need not be an Exception: the scheduler must contain everything a step can raise
  "!S":  ("raise", "S", "raise SystemExit (sys.exit())"),
  "!G":  ("raise", "G", "raise GeneratorExit"),
  "!K":  ("raise", "K", "raise KeyboardInterrupt"),
  "!B":  ("raise", "B", "raise a BaseException subclass that is not an Exception"),
  # the yielded blocking operation itself fails when the scheduler executes it
  "Bx":  ("opraise", "E", "yield a BlockingOperation whose execute() raises"),
  "BxS": ("opraise", "S", "yield a BlockingOperation whose execute() raises SystemExit"),
  "BxB": ("opraise", "B", "yield a BlockingOperation whose execute() raises a BaseException subclass that is not an Exception"),
  "ArS": ("again", "rS", "yield Again(sub raising SystemExit)"),
  # work handed to another OS thread (part 2 only): the completion is a wake-up that arrives from that thread
  "CB":  ("callblocking", 0, "yield CallBlocking(func returning a value at once)"),
  "CB1": ("callblocking", 1, "yield CallBlocking(func that takes 1 s, then returns a value)"),
  "CBr": ("callblocking", "r", "yield CallBlocking(func raising)"),
  "CBrS": ("callblocking", "rS", "yield CallBlocking(func raising SystemExit)"),
}
RAISE_KIND = {"E": "Exception", "S": "SystemExit", "G": "GeneratorExit", "K": "KeyboardInterrupt", "B": "other BaseException"}
OPS_QUICK = ("0", "n1", "S2", "SN", "F", "Se", "Se1", "Av", "As", "Ar", "Ae", "W", "X", "!")
OPS_NESTED = ("Nv", "Nc", "Nu", "Ncs", "Nus")
OPS_EXTRA = ("S1", "S0", "n.5", "0f", "n-1", "Se0", "Asr", "Ase", "TF", "TFr") + OPS_NESTED + ("Tx", "Txs", "Rx", "Rx1", "Sa-1", "Sa0", "Sa1")      # thorough, in the programs of few yields
# quick: the nested sub-task calls and the zero-timeout Select in a small context vocabulary
OPS_NESTED_CTX = ("0", "n1", "S2", "Se0", "SN", "W", "!", "TF") + OPS_NESTED
# sleeps whose deadline has passed / is now when the scheduler executes them, in a small context vocabulary
OPS_PAST = ("0", "n1", "S2", "SN", "Se1", "W") + ("S0", "Sa-1", "Sa0", "Sa1")
TIMERS_PAST = ("rec2", "slow1", "slow2")       # recurring timers whose callback takes 0 / the interval / more than the interval
# timers built with started=False and start()ed by a task after the clock has moved
OPS_PARK = ("0", "n1", "S2", "SN", "St")
TIMERS_PARK = ("parked", "parkedrec", "once")
# the epoll hub variant (Scheduler(use_epoll=True): EpollSelect over a scripted epoll object)
OPS_EPOLL = ("0", "n1", "Se", "Se1", "Rx1", "Txs", "W")
# socket I/O ops in a small context vocabulary
OPS_IO = ("Tx", "Txs", "Rx", "Rx1")
OPS_IO_CTX = ("0", "n1", "SN", "Se1", "W", "!") + OPS_IO
# task priorities {1, 0.5} per task (every assignment) in a small context vocabulary
OPS_PRIO = ("0", "n1", "S2", "SN", "Se1", "W", "Av")
# sleepers (tied deadlines, a longer one, zero timeouts) for the 3-entity quick suite
OPS_SLEEPERS = ("0", "n1", "S2", "Se0")
OPS_RAISES = ("!", "!S", "!G", "!K", "!B", "Bx", "BxS", "BxB")
# what a task step / a blocking operation's execute() / a timer callback / a sub-task raises, in a small context vocabulary
OPS_RAISE_CTX = ("0", "n1", "SN", "Se1", "W", "ArS") + OPS_RAISES
TIMERS_RAISE = ("once", "cbx", "cbxS", "reccbx")
TERMINAL = ("X",) + OPS_RAISES                               # nothing after them can run
SHAPE_NAME = {"rS": "raises-SystemExit", "v": "yields-value", "s": "sleeps-then-yields-value", "r": "raises", "e": "returns-without-yield",
              "sr": "sleeps-then-returns", "se": "sleeps-then-raises", "tf": "plain-function-value",
              "tfr": "plain-function-raises",
              "nv": "calls-an-inner-sub-task-that-yields-a-value", "nc": "catches-the-exception-of-its-inner-sub-task",
              "nu": "does-not-catch-the-exception-of-its-inner-sub-task",
              "ncs": "catches-the-exception-of-its-inner-sub-task-that-slept", "nus": "does-not-catch-the-exception-of-its-inner-sub-task-that-slept"}
# violation key per shape (one defect, one key: the four nested exception shapes share the delivery path)
SHAPE_KEY = dict((k, "subtask-result:" + v) for k, v in SHAPE_NAME.items())
SHAPE_KEY.update(nv="subtask-result:nested-value", nc="subtask-result:nested-exception", nu="subtask-result:nested-exception",
                 ncs="subtask-result:nested-exception", nus="subtask-result:nested-exception")
SHAPE_KEY["rS"] = "subtask-result:non-Exception-exception-never-reaches-the-caller"
SHAPE_EXPECT = {"rS": "exc", "v": "val", "s": "val", "tf": "val", "r": "exc", "se": "exc", "tfr": "exc", "e": "none", "sr": "none",
                "nv": "val", "nc": "val", "ncs": "val", "nu": "exc", "nus": "exc"}
SHAPE_INNER = {"nv": "v", "nc": "r", "nu": "r", "ncs": "se", "nus": "se"}       # shape of the inner sub-task
SLEEPING_SHAPES = ("s", "sr", "se", "ncs", "nus")

# Timer variants: (recurring, expected number of callbacks when nobody else cancels, description)
TIMERS = {
  "once":   (False, 1, "Timer(1, cb)"),
  "rec2":   (True, 2, "Timer(1, cb, recurring=True), cb returns False on its 2nd call"),
  "pre":    (True, 0, "Timer(1, cb, recurring=True) cancelled before its first fire"),
  "selfc":  (True, 1, "Timer(1, cb, recurring=True), cb cancels the timer on its 1st call"),
  "slow1":  (True, 2, "Timer(1, cb, recurring=True), cb takes 1 s (the interval), returns False on its 2nd call"),
  "slow2":  (True, 2, "Timer(1, cb, recurring=True), cb takes 2 s (more than the interval), returns False on its 2nd call"),
  "parked":    (False, 1, "Timer(1, cb, started=False), start()ed later by a task"),
  "parkedrec": (True, 2, "Timer(1, cb, recurring=True, started=False), start()ed later by a task, cb returns False on its 2nd call"),
  "nostop": (True, 2, "Timer(1, cb, recurring=True, selfStoppable=False), cb returns False, cancels on its 2nd call"),
  "cbx":    (False, 1, "Timer(1, cb), cb raises"),
  "cbxS":   (False, 1, "Timer(1, cb), cb raises SystemExit"),
  "reccbx": (True, 1, "Timer(1, cb, recurring=True), cb raises on its 1st call"),
}
TIMER_RAISES = {"cbx": "E", "cbxS": "S", "reccbx": "E"}
TIMER_ORDER = ("once", "rec2", "pre", "selfc", "nostop")

# The constructor-parameter lattice of Timer: periods {0, 0.0, 0.5, 2} next to the 1 of the variants above, relative and
# absolute (now-1, now, now+1, started=False) times, recurring timers stopped on their n-th call by the callback returning
# False / by the callback cancelling them / by nobody but the callback's return value being ignored (selfStoppable=False),
# callbacks that need the args / kw they were registered with.
#   spec -> dict(period, absolute (offset from the construction instant, or "T0+1"), stop (n, "false"|"cancel"|"nostop"),
#                slow (seconds the callback takes), args, parked)
def _tp (period=1, absolute=None, stop=None, slow=0, args=False, parked=False):
  return dict(period=period, absolute=absolute, stop=stop, slow=slow, args=args, parked=parked)
TPARAM = {
  "once0":      _tp(period=0),
  "once.5":     _tp(period=0.5),
  "once2":      _tp(period=2),
  "rec0":       _tp(period=0, stop=(3, "false")),
  "rec0f":      _tp(period=0.0, stop=(3, "false")),
  "rec0c":      _tp(period=0, stop=(3, "cancel")),
  "spin0":      _tp(period=0, stop=(5, "false"), slow=0.5),
  "nostop0":    _tp(period=0, stop=(3, "nostop")),
  "rec.5":      _tp(period=0.5, stop=(3, "false")),
  "rec2s":      _tp(period=2, stop=(2, "false")),
  "abs-1":      _tp(absolute=-1),
  "abs0":       _tp(absolute=0),
  "abs1":       _tp(absolute=1),
  "parkedabs":  _tp(absolute="T0+1", parked=True),
  "parked0rec": _tp(period=0, stop=(3, "false"), parked=True),
  "args":       _tp(args=True),
  "recargs":    _tp(stop=(2, "false"), args=True),
}
def _tp_text (spec):
  p = TPARAM[spec]
  a = ["now%+d" % p["absolute"] if isinstance(p["absolute"], int) else "T0+1" if p["absolute"] else repr(p["period"]), "cb"]
  if p["absolute"] is not None: a.append("absoluteTime=True")
  if p["stop"]: a.append("recurring=True")
  if p["stop"] and p["stop"][1] == "nostop": a.append("selfStoppable=False")
  if p["args"]: a.append("args=(token,), kw={'k': token}")
  if p["parked"]: a.append("started=False")
  t = "Timer(%s)" % ", ".join(a)
  if p["parked"]: t += ", start()ed later by a task"
  if p["args"]: t += ", cb requires them"
  if p["slow"]: t += ", cb takes %s s" % p["slow"]
  if p["stop"]:
    n, how = p["stop"]
    t += {"false": ", cb returns False on its %d. call", "cancel": ", cb cancels the timer on its %d. call",
          "nostop": ", cb returns False, cancels on its %d. call"}[how] % n
  return t
for _s, _p in TPARAM.items():
  TIMERS[_s] = (bool(_p["stop"]), _p["stop"][0] if _p["stop"] else 1, _tp_text(_s))
TIMERS_PARAM = tuple(TPARAM)
# tasks next to these timers: reschedule (yield 0 / 0.0) / sleep 1, 2, -1 / start() the parked timers (/ cancel the timers: added by ProgSpace)
OPS_TPARAM = ("0", "0f", "n1", "n-1", "S2", "St")
# violation-key class per timer variant (one defect, one key: a recurring timer of period 0 is one class however it is stopped)
def timer_key (spec):
  p = TPARAM.get(spec)
  if p is None: return spec
  if p["stop"] and not p["period"]: return "recurring-period-0"
  if p["absolute"] is not None: return "absolute-time"
  if p["args"]: return "callback-args"
  if p["stop"]: return "recurring-period-%s" % p["period"]
  return "one-shot-period-%s" % p["period"]


def scripts (ops, maxlen):
  """All scripts of <= maxlen yields; a terminal op only in last position.  Grouped by length."""
  by = {0: [()]}
  inner = [o for o in ops if o not in TERMINAL]
  for n in range(1, maxlen + 1):
    by[n] = [p + (o,) for p in itertools.product(inner, repeat=n - 1) for o in ops]
  return by


class ProgSpace (object):
  """Every ordered tuple of nent entities (task script over ops, or Timer variant) whose scripts have <= maxlen
  yields each and <= total yields together, addressable by index (nothing is materialised).  "C" (cancel the
  timers) is only in the vocabulary of programs that contain a Timer (elsewhere it would be `yield 0`)."""
  def __init__ (self, ops, nent, total, maxlen=3, timers=True, prios=False, need_timer=False):
    by_plain = scripts(ops, maxlen)
    by_c = scripts(tuple(ops) + ("C",), maxlen)
    shapes = []
    def rec_shape (k, left, acc):
      if k == nent:
        if need_timer and not any(e[0] == "T" for e in acc): return      # (a suite about timers: task-only programs are in the others)
        shapes.append(tuple(acc)); return
      for tv in (TIMER_ORDER if timers is True else timers or ()):
        rec_shape(k + 1, left, acc + [("T", tv)])
      for n in range(0, min(maxlen, left) + 1):
        rec_shape(k + 1, left - n, acc + [("t?", n)])
    rec_shape(0, total, [])
    self.blocks = []            # (first index, slots)
    n = 0
    for sh in shapes:
      by = by_c if any(e[0] == "T" for e in sh) else by_plain
      if prios:    # every assignment of a priority in {1, 0.5} to every task
        slots = [[e] if e[0] == "T" else [("t", sc, pr) for sc in by[e[1]] for pr in (1, 0.5)] for e in sh]
      else:        # positional default: entity 0 has priority 0.5, the others 1
        slots = [[e] if e[0] == "T" else [("t", sc) for sc in by[e[1]]] for e in sh]
      size = 1
      for sl in slots: size *= len(sl)
      self.blocks.append((n, slots))
      n += size
    self.n = n
    self.starts = [b[0] for b in self.blocks]

  def __len__ (self): return self.n

  def __getitem__ (self, i):
    import bisect
    first, slots = self.blocks[bisect.bisect_right(self.starts, i) - 1]
    i -= first
    out = []
    for sl in reversed(slots):
      i, k = divmod(i, len(sl))
      out.append(sl[k])
    return tuple(reversed(out))


def programs (ops, nent, total, maxlen=3):
  sp = ProgSpace(ops, nent, total, maxlen)
  return [sp[i] for i in range(len(sp))]


def prio_of (i, e):
  """Priority of task entity e at position i: explicit third element, else 0.5 for entity 0 and 1 for the others."""
  return e[2] if len(e) > 2 else (0.5 if i == 0 else 1)


def prog_text (prog):
  out = []
  for i, e in enumerate(prog):
    if e[0] == "T":
      out.append("E%d: %s" % (i, TIMERS[e[1]][2]))
    else:
      out.append("E%d: task (%s, priority %s%s) [%s]" % (i, "Task subclass" if i == 0 else "Task(target=...)", prio_of(i, e),
                                                         ", start(fast=False)" if len(e) > 3 and e[3] == "slow" else "",
                                                         "; ".join(OPS[o][2] for o in e[1]) or "returns at once"))
  return " | ".join(out)


# ---------------------------------------------------------------------------------------------------
# the world: real scheduler + recorded trace + oracle
# ---------------------------------------------------------------------------------------------------
class Abort (BaseException): pass
class ScriptError (Exception): pass
class SubError (Exception): pass
class CBError (Exception): pass
class ScriptBase (BaseException): pass        # raised by scripted tasks: a BaseException that is not an Exception


def script_exc (kind, where, *args):
  """The exception a scripted task / operation / callback / sub-task raises, marked as the script's own (so that a
  SystemExit or KeyboardInterrupt meant for the harness process is never mistaken for it)."""
  cls = {"E": ScriptError, "S": SystemExit, "G": GeneratorExit, "K": KeyboardInterrupt, "B": ScriptBase}[kind]
  e = cls(*args)
  e._c06_script = where
  return e


def scripted (e):
  return getattr(e, "_c06_script", None)


class VFd (object):
  """A task's fake stream socket.  From its readiness instant on it has RX_STREAM to read (it stays readable until
  that has been received); it is always writable.  How many bytes a send() accepts / a recv() hands out are
  environment choices (default: everything; deviations: half, one byte, EAGAIN / one byte)."""
  def __init__ (self, w, name, ready_at, hup_at=None):
    self.w = w; self.name = name; self.ready_at = ready_at
    self.hup_at = hup_at          # the instant the peer hangs up (a socket has data to read or is hung up on, not both)
    self.fd = w.new_fileno(self)
    self.rx_pos = 0
    self.tx = b""
    self.eagain = 0               # number of send() calls answered with EAGAIN
    self.sends = []               # (offered, accepted) per send() call
  def has_data (self):
    return self.ready_at is not None and self.ready_at <= self.w.now() and self.rx_pos < len(RX_STREAM)
  def eof (self):
    return self.hup_at is not None and self.hup_at <= self.w.now()
  def readable (self):
    return self.has_data() or self.eof()
  def will_be_readable (self):
    return (self.ready_at is not None and self.rx_pos < len(RX_STREAM)) or self.hup_at is not None
  def next_readable (self):
    """The instant from which it is readable (asked only when will_be_readable())."""
    return self.ready_at if (self.ready_at is not None and self.rx_pos < len(RX_STREAM)) else self.hup_at
  def fate (self):
    return ("hung up on at +%s" % (self.hup_at - T0) if self.hup_at is not None else
            "never" if self.ready_at is None else "at +%s" % (self.ready_at - T0))
  def writable (self): return True
  def errored (self): return False
  def fileno (self): return self.fd
  def send (self, data, flags=0):
    w = self.w
    c = w.ctx.choose(4, "send@" + self.name) if w.env_choices else 0
    n = len(data)
    if c == 3:
      self.eagain += 1; self.sends.append((n, "EAGAIN"))
      import errno
      raise OSError(errno.EAGAIN, "would block")
    k = n if c == 0 else max(1, n // 2) if c == 1 else 1
    self.tx += bytes(data[:k]); self.sends.append((n, k))
    return k
  def recv (self, n, flags=0):
    w = self.w
    if not self.has_data():
      if self.eof(): return b""
      import errno
      raise OSError(errno.EAGAIN, "would block")
    avail = min(n, len(RX_STREAM) - self.rx_pos)
    k = avail
    if avail > 1 and w.env_choices and w.ctx.choose(2, "recv@" + self.name): k = 1
    d = RX_STREAM[self.rx_pos:self.rx_pos + k]; self.rx_pos += k
    return d
  def __repr__ (self): return "<fd %s>" % self.name


class Rec (object):
  """Book-keeping for one entity (task or timer)."""
  def __init__ (self, idx, kind, spec):
    self.idx = idx; self.kind = kind; self.spec = spec
    self.name = ("T%d" if kind == "t" else "Timer%d") % idx
    self.obj = None
    self.state = "new"          # new ready running timed blocked select again exit done raised
    self.op = None; self.opi = None
    self.req = None             # requested instant of the pending timed wait
    self.woken = False
    self.fd = None
    self.sub_done = False
    self.sub_req = None
    self.prio = 1
    self.tx_expect = b""        # what this task's completed Sends must have put on its socket, in order
    self.rx_got = b""           # what its Recvs returned, concatenated
    self.steps = []             # (step, vtime)
    self.recv = []              # what each yield received
    self.style = None
    self.cb_done = False        # the function handed to CallBlocking has finished
    # timers
    self.fires = []             # (seq, vtime at callback start)
    self.created = None
    self.cancel_seq = None      # seq of an external cancel()
    self.self_cancel_seq = None
    self.period = 1             # the Timer's timeToWake (relative timers)
    self.first = None           # the instant an absolute-time Timer was set for


class World (object):
  def __init__ (self, ctx, prog, R, now, mode, twin=None, env_choices=True):
    self.ctx = ctx; self.prog = prog; self.R = R; self.now = now; self.mode = mode; self.twin = twin
    self.env_choices = env_choices
    self.sch = None
    self.recs = []
    self.seq = 0
    self.trace = []             # (name, step, vtime)
    self.bad = []               # (clause key, what) - first occurrence per clause
    self.bad_keys = set()
    self.running = None
    self.nsteps = 0
    self.nselect = 0
    self.nrand = 0
    self.streak = 0               # further draws that are "high" (see rand)
    self.n_low = 1
    self.ntwins = 0
    self.exited = False
    self.abort = None
    self.horizon = False
    self.fdmap = {}               # fileno -> object (what the scripted epoll object resolves descriptors with)
    self.step_time = {}           # part 2: virtual seconds a given step takes ("T1.0" -> 2), fixed by the program
    self.on_sched_thread = None   # callable (part 2)
    self.fd_at = None             # part 2: readiness offsets fixed by the program instead of explored
    self.crashed = False          # what a task raised ended Scheduler.run()
    self.late = ()                # part 2: entities that are not started at build time (another thread starts them)
    self.hung = False             # the scheduler thread blocked for good in its wake-up pipe
    self.vos = None               # the virtual os the library's pinger runs on
    self.max_steps = MAX_STEPS; self.max_selects = MAX_SELECTS
    self.hup = False              # part 1: the fd environment includes the peer hanging up

  # ---- recording ----------------------------------------------------------------------------
  def fail (self, clause, what):
    if self.hung: return          # (the scheduler thread is stuck for good: what the harness unwinds through after that means nothing)
    if clause not in self.bad_keys:
      self.bad_keys.add(clause)
      self.bad.append((clause, what))

  def new_fileno (self, obj):
    fd = 3 + len(self.fdmap)
    self.fdmap[fd] = obj
    return fd

  def consume (self, label):
    """Environment choice: how much virtual time this step takes (0 default, DT a deviation)."""
    if not self.env_choices:
      d = self.step_time.get(label)
      if d: self.advance(d)
      return
    if self.ctx.choose(2, "dt@" + label):
      self.advance(DT)

  def rand (self):
    self.nrand += 1
    if self.nrand > 400:
      self.abort = "runaway"; raise Abort()
    if not self.env_choices: return 0.0
    # environment: 0 = a low draw (the task runs); k>0 = this and the next k-1 draws are high (tasks of priority < 1
    # are passed over); run lengths up to the number of low-priority tasks of the program, one deviation each
    if self.streak > 0:
      self.streak -= 1; return 0.99
    c = self.ctx.choose(1 + self.n_low, "random")
    if c:
      self.streak = c - 1; return 0.99
    return 0.0

  def begin (self, who):
    if self.running is not None:
      self.fail("overlap:step-began-while-another-step-was-running", "%s began while %s was running" % (who, self.running))
    self.running = who
    if self.on_sched_thread is not None and not self.on_sched_thread():
      self.fail("thread:step-ran-off-the-scheduler-thread", "%s ran on a thread other than the scheduler's" % who)
    self.nsteps += 1
    if self.nsteps > self.max_steps:
      self.abort = self.abort or "runaway"; raise Abort()
    self.seq += 1

  def end (self):
    self.running = None

  def check_queue (self, r):
    rq = list(self.sch._ready)
    ids = [id(x) for x in rq]
    if len(set(ids)) != len(ids) or (r.obj is not None and id(r.obj) in ids):
      self.fail("queued-twice:task-in-ready-queue-while-running-or-twice",
                "ready queue %r while %s is running" % ([getattr(x, "name", type(x).__name__) for x in rq], r.name))

  def step_begin (self, r, i):
    self.begin("%s.%d" % (r.name, i))
    self.check_queue(r)
    t = self.now()
    r.steps.append((i, t))
    self.trace.append((r.name, i, t))
    r.state = "running"

  # ---- building the program ---------------------------------------------------------------------
  def build (self, sch):
    R = self.R
    self.sch = sch
    cls = _task_classes(R)
    _subs(R)                     # (built outside the execution: task_function() is itself code under trace)
    for idx, e in enumerate(self.prog):
      r = Rec(idx, "t" if e[0] == "t" else "T", e[1])
      if r.kind == "t": r.prio = prio_of(idx, e)
      self.recs.append(r)
    self.n_low = max(1, sum(1 for r in self.recs if r.kind == "t" and r.prio < 1))
    # environment: readiness instant of each selecting task's fd
    for r in self.recs:
      if r.kind == "t" and any(OPS[o][0] in ("select", "recv", "send") for o in r.spec):
        if self.fd_at is not None:
          at = self.fd_at.get(r.idx)
        elif not any(OPS[o][0] in ("select", "recv") for o in r.spec):
          at = None
        else:
          # (no hang-up on a socket the task also sends on: what send() does then is not modelled)
          fates = FD_FATES_HUP if self.hup and not any(OPS[o][0] == "send" for o in r.spec) else FD_AT
          at = fates[self.ctx.choose(len(fates), "fd@%s" % r.name, costly=False)]
        if isinstance(at, (tuple, list)):
          r.fd = VFd(self, r.name, None, hup_at=T0 + at[1])
        else:
          r.fd = VFd(self, r.name, None if at is None else T0 + at)
    for r, e in zip(self.recs, self.prog):
      if r.kind == "t":
        if r.idx == 0:
          r.style = "subclass"
          r.obj = cls["ProgTask"](self, r)
        else:
          r.style = "target"
          r.obj = R.Task(target=body, args=(self, r), name=r.name)
        if r.idx in self.late:
          r.state = "unstarted"
        else:
          r.state = "ready"
          r.obj.start(sch, priority=r.prio, fast=not (len(e) > 3 and e[3] == "slow"))     # ("slow": through Scheduler.schedule())
      else:
        recurring, expect, _ = TIMERS[r.spec]
        r.created = self.now()
        kw = dict(recurring=recurring, scheduler=sch)
        if r.spec == "nostop": kw["selfStoppable"] = False
        if r.spec in ("parked", "parkedrec"):
          kw["started"] = False; r.created = None        # the deadline counts from start()
        when = 1
        p = TPARAM.get(r.spec)
        if p is not None:
          when = r.period = p["period"]
          if p["absolute"] is not None:
            when = r.first = T0 + 1 if p["absolute"] == "T0+1" else self.now() + p["absolute"]
            kw["absoluteTime"] = True
          if p["stop"] and p["stop"][1] == "nostop": kw["selfStoppable"] = False
          if p["parked"]:
            kw["started"] = False; r.created = None
          if p["args"]:
            kw["args"] = (("token", r.idx),); kw["kw"] = {"k": ("token", r.idx)}
        r.obj = R.Timer(when, _make_cb(self, r, bool(p and p["args"])), **kw)
        r.state = "timer"
        if r.spec == "pre":
          r.obj.cancel()

  # ---- what a task does at a yield ---------------------------------------------------------------
  def prepare (self, r, i, op):
    R = self.R
    kind, arg, _ = OPS[op]
    r.op = op; r.opi = i; r.woken = False; r.req = None; r.sub_done = False
    label = "%s.%d" % (r.name, i)
    tc = self.now()
    if kind == "sleep" or kind == "asleep":
      # the requested instant is fixed at construction; it may have passed when the scheduler executes the operation
      y = R.Sleep(arg) if kind == "sleep" else R.Sleep(tc + arg, absoluteTime=True)
      self.consume(label)
      r.req = tc + arg; r.state = "timed"
      return y
    if kind == "wake":
      for o in self.recs:
        if o is r or o.kind != "t": continue
        if o.state == "blocked":
          o.woken = True; o.state = "ready"
          self.sch.schedule(o.obj)
        elif o.state == "ready":
          self.sch.schedule(o.obj)           # already runnable: must be a no-op
    elif kind == "start":
      for o in self.recs:
        if o.kind == "T" and o.created is None:            # (also one that was cancel()led before: it must never fire)
          o.created = self.now()
          o.obj.start(self.sch)
    elif kind == "cancel":
      for o in self.recs:
        if o.kind == "T":
          if o.cancel_seq is None: o.cancel_seq = self.seq
          o.obj.cancel()
    self.consume(label)
    ty = self.now()
    if kind in ("resched", "wake", "cancel", "start"):
      r.state = "ready"; return 0 if arg is None else arg
    if kind == "num":
      r.req = ty + arg; r.state = "timed"; return arg
    if kind == "block":
      r.state = "blocked"
      return R.Sleep(None) if arg == "Sleep(None)" else False
    if kind == "select":
      r.req = None if arg is None else ty + arg
      r.state = "select"
      return R.Select([r.fd], None, None, arg)
    if kind == "send":
      data = TX_BIG if arg == "big" else TX_SMALL
      r.tx_expect += data; r.state = "send"
      r.eagain_before = r.fd.eagain
      return R.Send(r.fd, data)
    if kind == "recv":
      r.req = None if arg is None else ty + arg
      r.state = "recv"
      return R.Recv(r.fd, timeout=arg)
    if kind == "exit":
      r.state = "exit"; self.exited = True
      return R.Exit()
    if kind == "opraise":
      # differential twin: the same operation simply never reschedules the task
      r.state = "done" if self.twin == r.idx else "raised"
      return _task_classes(R)["RaisingOp"](arg, "blocking-operation", self.twin != r.idx, "%s's operation at step %d raises" % (r.name, i))
    if kind == "callblocking":
      r.state = "cb"; r.cb_done = False
      return R.CallBlocking(_cb_func, args=(self, r, i, arg))
    if kind == "again":
      r.state = "again"
      subs = _subs(R)
      if arg == "v": return R.Again(sub_gen(self, r, i, "v"))
      if arg == "s": return subs["tf_sleepval"](self, r, i, "s")
      if arg in ("r", "e", "sr", "se", "rS"): return R.Again(sub_gen(self, r, i, arg))
      if arg == "tf": return subs["tf_plain"](self, r, i, False)
      if arg == "tfr": return subs["tf_plain"](self, r, i, True)
      if arg in SHAPE_INNER: return R.Again(mid_gen(self, r, i, arg))
    raise RuntimeError("unknown op %r" % (op,))

  # ---- oracle at every resume ----------------------------------------------------------------------
  def resumed (self, r, i, op, v, exc):
    kind, arg, _ = OPS[op]
    now = self.now()
    if exc is not None:
      got = ("exc", type(exc).__name__)
    elif kind == "callblocking" and isinstance(v, tuple) and len(v) == 2:
      got = ("cb", repr(v[0]), None if v[1] is None else getattr(v[1][0], "__name__", "?"))
    elif isinstance(v, tuple) and len(v) == 3 and v[:1] == ("subval",):
      got = ("subval", v[1], v[2])
    elif isinstance(v, tuple) and len(v) == 3 and all(isinstance(x, list) for x in v):
      got = ("sel", tuple(len(x) for x in v))
    elif isinstance(v, (bytes, bytearray)):
      got = ("bytes", len(v))
    else:
      got = ("v", repr(v))
    r.recv.append((i, got, now))
    if kind != "again":
      if exc is not None:
        self.fail("subtask-result:exception-delivered-to-a-task-that-called-nothing",
                  "%s received %s at '%s'" % (r.name, type(exc).__name__, OPS[op][2]))
      elif got[0] == "subval":
        self.fail("subtask-result:value-delivered-to-a-task-that-called-nothing",
                  "%s received a sub-task's value %r at '%s'" % (r.name, v, OPS[op][2]))
    if kind in ("num", "sleep", "asleep"):
      if now < r.req:
        self.fail("timed-wake-early:%s" % ("number" if kind == "num" else "Sleep"),
                  "%s resumed from '%s' at +%s, requested +%s" % (r.name, OPS[op][2], now - T0, r.req - T0))
    elif kind == "opraise":
      self.fail("raise-isolation:task-resumed-after-its-blocking-operation-raised",
                "%s resumed from '%s' with %s" % (r.name, OPS[op][2], _got_text(got, exc)))
    elif kind == "callblocking":
      if not r.cb_done:
        self.fail("callblocking:resumed-before-the-call-finished", "%s resumed from '%s' with %r before the function had finished" % (r.name, OPS[op][2], got))
      elif arg in ("r", "rS"):
        if not (got[0] == "cb" and v[0] is None and isinstance(v[1][1], CBError if arg == "r" else SystemExit) and v[1][1].args == (r.idx, i)):
          self.fail("callblocking:wrong-result", "%s resumed from '%s' with %r" % (r.name, OPS[op][2], got))
      elif not (got[0] == "cb" and v[0] == ("cbval", r.idx, i) and v[1] is None):
        self.fail("callblocking:wrong-result", "%s resumed from '%s' with %r" % (r.name, OPS[op][2], got))
    elif kind == "block":
      if not r.woken:
        self.fail("unrequested-wake:%s" % arg, "%s resumed from '%s' although nobody scheduled it" % (r.name, OPS[op][2]))
    elif kind == "select":
      if got[0] != "sel":
        self.fail("select-wake:bad-value", "%s resumed from Select with %r" % (r.name, v))
      else:
        rr, ww, xx = v
        # (its own fd may also come back as exceptional once the peer has hung up: the epoll hub reports that unasked)
        if ww or len(rr) > 1 or len(xx) > 1 or any(x is not r.fd for x in rr + xx):
          self.fail("select-wake:foreign-fds", "%s resumed from Select([own fd]) with %r" % (r.name, v))
        elif xx and not r.fd.eof():
          self.fail("select-wake:reports-unready-fd", "%s resumed at +%s with its fd reported exceptional; nothing has happened to it (readable %s)"
                    % (r.name, now - T0, r.fd.fate()))
        elif rr or xx:
          if not r.fd.readable():
            self.fail("select-wake:reports-unready-fd", "%s resumed at +%s with its fd reported readable; it is readable %s"
                      % (r.name, now - T0, r.fd.fate()))
        else:
          if r.req is None or now < r.req:
            self.fail("select-wake:empty-before-timeout", "%s resumed at +%s from Select with no fd ready; timeout %s"
                      % (r.name, now - T0, "None" if r.req is None else "at +%s" % (r.req - T0)))
    elif kind == "send":
      n = len(TX_BIG if arg == "big" else TX_SMALL)
      if r.fd.tx != r.tx_expect:
        sent = r.fd.tx
        k = next((j for j in range(min(len(sent), len(r.tx_expect))) if sent[j] != r.tx_expect[j]), min(len(sent), len(r.tx_expect)))
        self.fail("send:resumed-before-all-bytes-were-sent" if r.tx_expect.startswith(sent) else "send:bytes-out-of-order",
                  "%s resumed from Send of %d bytes with %r; its socket has taken %d of the %d bytes due so far (first difference at %d); send() calls: %r"
                  % (r.name, n, v if not isinstance(v, tuple) else "a select result", len(sent), len(r.tx_expect), k, r.fd.sends[-4:]))
      elif v != n:
        self.fail("send:wrong-result", "%s resumed from a completed Send of %d bytes with %r" % (r.name, n, v))
    elif kind == "recv":
      if isinstance(v, (bytes, bytearray)) and len(v) > 0:
        want = RX_STREAM[len(r.rx_got):len(r.rx_got) + len(v)]
        if bytes(v) != want or r.fd.rx_pos != len(r.rx_got) + len(v):
          self.fail("recv:wrong-bytes", "%s resumed from Recv with %r; the stream continues with %r (socket position %d)"
                    % (r.name, v, RX_STREAM[len(r.rx_got):], r.fd.rx_pos))
        r.rx_got += bytes(v)
        if r.fd.ready_at is None or now < r.fd.ready_at:
          self.fail("recv:data-before-readable", "%s received %r at +%s, before its socket had anything to read" % (r.name, v, now - T0))
      elif isinstance(v, (bytes, bytearray)) and r.fd.eof():
        pass                      # end of file: the peer has hung up
      elif v is None and r.fd.eof():
        pass                      # ... which the hub may also report as a socket error (Recv documents None for that)
      elif v is None:
        if r.req is None or now < r.req:
          self.fail("recv:empty-before-timeout", "%s resumed at +%s from Recv with None; timeout %s"
                    % (r.name, now - T0, "None" if r.req is None else "at +%s" % (r.req - T0)))
      else:
        self.fail("recv:bad-value", "%s resumed from Recv with %r" % (r.name, v))
    elif kind == "again":
      key = SHAPE_KEY[arg]
      want = SHAPE_EXPECT[arg]
      exc_args = (r.idx, i, "inner") if arg in SHAPE_INNER else (r.idx, i)
      if not r.sub_done:
        self.fail(key, "%s resumed from its sub-task call before the sub-task finished" % r.name)
      elif want == "val":
        if got != ("subval", r.idx, i):
          self.fail(key, "%s called a sub-task that %s; it received %s" % (r.name, SHAPE_NAME[arg], _got_text(got, exc)))
      elif want == "exc":
        if not (isinstance(exc, SystemExit if arg == "rS" else SubError) and exc.args == exc_args):
          self.fail(key, "%s called a sub-task that %s; it received %s" % (r.name, SHAPE_NAME[arg], _got_text(got, exc)))
      else:
        if exc is not None or v is not None:
          self.fail(key, "%s called a sub-task that %s; it received %s" % (r.name, SHAPE_NAME[arg], _got_text(got, exc)))
      if arg in SLEEPING_SHAPES and r.sub_req is not None and now < r.sub_req:
        self.fail("timed-wake-early:Sleep", "%s resumed at +%s from a sub-task that slept until +%s" % (r.name, now - T0, r.sub_req - T0))

  # ---- timers ---------------------------------------------------------------------------------------
  def fired (self, r):
    self.begin("%s.cb%d" % (r.name, len(r.fires) + 1))
    self.check_queue(r)          # the timer's task must not be queued while its callback runs
    now = self.now()
    n = len(r.fires) + 1
    r.fires.append((self.seq, now))
    self.trace.append((r.name, n, now))
    recurring, expect, _ = TIMERS[r.spec]
    first = "timer:" + r.spec
    if r.created is None:
      self.fail("timer:fired-before-start", "%s (%s) called back although it was never started" % (r.name, TIMERS[r.spec][2]))
    elif n == 1:
      due = r.first if r.first is not None else r.created + r.period
      if now < due:
        self.fail("timed-wake-early:Timer", "%s (%s) fired at +%s, set for +%s" % (r.name, TIMERS[r.spec][2], now - T0, due - T0))
    else:
      if now < r.fires[-2][1] + r.period:
        self.fail("timed-wake-early:Timer", "%s (%s) fired again at +%s, %s after its previous fire (interval %s)"
                  % (r.name, TIMERS[r.spec][2], now - T0, now - r.fires[-2][1], r.period))
    if r.cancel_seq is not None or r.spec == "pre":
      self.fail("timer:fired-after-cancel", "%s (%s) called back after cancel()" % (r.name, TIMERS[r.spec][2]))
    elif r.self_cancel_seq is not None:
      self.fail("timer:fired-after-cancel", "%s (%s) called back after its callback cancelled it" % (r.name, TIMERS[r.spec][2]))
    elif n > expect:
      self.fail("timer:extra-fire:" + timer_key(r.spec), "%s (%s) called back %d times" % (r.name, TIMERS[r.spec][2], n))
    rv = None
    if r.spec in TIMER_RAISES:
      try:
        self.consume("%s.cb" % r.name)
      finally:
        self.end()
      if self.twin == r.idx: return False          # differential twin: the callback ends the timer instead of raising
      r.state = "raised"
      raise script_exc(TIMER_RAISES[r.spec], "timer-callback", "%s's callback raises" % r.name)
    if r.spec in ("slow1", "slow2"):
      self.advance(1 if r.spec == "slow1" else 2)       # the callback itself takes that long
    if r.spec in ("rec2", "slow1", "slow2", "parkedrec") and n >= 2: rv = False
    elif r.spec == "selfc":
      r.self_cancel_seq = self.seq; r.obj.cancel()
    elif r.spec == "nostop":
      rv = False
      if n >= 2:
        r.self_cancel_seq = self.seq; r.obj.cancel()
    p = TPARAM.get(r.spec)
    if p is not None:
      if p["slow"]: self.advance(p["slow"])               # the callback itself takes that long
      if p["stop"]:
        sn, how = p["stop"]
        if how == "nostop": rv = False                    # (ignored: selfStoppable=False)
        if n >= sn:
          if how == "false": rv = False
          else:
            r.self_cancel_seq = self.seq; r.obj.cancel()
    try:
      self.consume("%s.cb" % r.name)
    finally:
      self.end()
    return rv

  # ---- oracle at the horizon ----------------------------------------------------------------------
  def at_horizon (self):
    if self.hung: return          # (reported where it hung)
    if self.abort:
      self.fail("no-horizon:" + self.abort, "the run did not come to rest within %d steps / %d selects" % (MAX_STEPS, MAX_SELECTS))
      return
    if self.exited:
      return
    rq = list(self.sch._ready)
    if rq:
      self.fail("lost:task-left-in-ready-queue", "at the horizon the ready queue still holds %r"
                % ([getattr(x, "name", type(x).__name__) for x in rq],))
    for r in self.recs:
      if r.kind == "t":
        s = r.state
        if s in ("done", "raised", "blocked", "running", "unstarted"): continue
        what = "%s never resumed from '%s' (step %d)" % (r.name, OPS[r.op][2] if r.op else "start", (r.opi or 0))
        if s == "ready":
          self.fail("lost:runnable-task-never-run", what if r.op else "%s was started and never ran" % r.name)
        elif s == "timed":
          self.fail("lost-wake:" + ("number" if OPS[r.op][0] == "num" else "Sleep"), what)
        elif s == "select":
          if r.req is not None: self.fail("lost-wake:Select-timeout", what)
          elif r.fd.will_be_readable(): self.fail("lost-wake:Select-fd-readable", what + "; fd readable %s" % r.fd.fate())
        elif s == "recv":
          if r.req is not None: self.fail("lost-wake:Recv-timeout", what)
          elif r.fd.will_be_readable(): self.fail("lost-wake:Recv-readable", what + "; socket readable %s" % r.fd.fate())
        elif s == "send":
          self.fail("lost-wake:Send" + (":after-a-send()-that-took-nothing" if r.fd.eagain > r.eagain_before else ""),
                    what + "; the socket took %d of %d bytes; send() calls: %r" % (len(r.fd.tx), len(r.tx_expect), r.fd.sends[-4:]))
        elif s == "cb" and any(x is r.obj for x in rq):
          self.fail("lost:runnable-task-never-run", what + "; the function had finished and the task was queued")
        elif s == "cb":
          self.fail("lost-wake:CallBlocking", what + ("; the function had finished" if r.cb_done else "; the function never finished"))
        elif s == "again":
          arg = OPS[r.op][1]
          key = SHAPE_KEY[arg]
          if SHAPE_EXPECT[arg] == "exc" and r.style == "target" and r.sub_done and arg != "rS":
            # one defect whatever the sub-task's shape: the exception is thrown into the Task.run wrapper
            key = "subtask-result:exception-never-reaches-a-Task(target)-caller"
          self.fail(key, "%s called a sub-task that %s and %s" % (r.name, SHAPE_NAME[arg],
                    "was never resumed" if r.sub_done else "the sub-task never finished"))
      else:
        recurring, expect, _ = TIMERS[r.spec]
        if r.cancel_seq is None and r.created is not None and len(r.fires) < expect:
          self.fail("timer:missed-fire:" + timer_key(r.spec), "%s (%s) called back %d times, expected %d"
                    % (r.name, TIMERS[r.spec][2], len(r.fires), expect))

  def pending (self):
    """Part 2: is there anything that must still happen?  (asked when no thread can run)"""
    if self.exited or self.abort: return False
    for r in self.recs:
      if r.kind == "t":
        if r.state in ("new", "ready", "timed", "again", "running", "cb"): return True
        if r.state in ("select", "recv") and (r.req is not None or r.fd.will_be_readable()): return True
        if r.state == "send": return True
      elif r.cancel_seq is None and r.created is not None and len(r.fires) < TIMERS[r.spec][1]:
        return True
    return False

  # ---- observations -----------------------------------------------------------------------------------
  def observation (self, exclude=None):
    out = []
    for r in self.recs:
      if r.idx == exclude: continue
      if r.kind == "t":
        out.append((r.name, tuple(r.steps), tuple((i, g) for i, g, t in r.recv), r.state) + ((tuple(r.fd.sends),) if r.fd is not None and r.fd.sends else ()))
      else:
        out.append((r.name, tuple(t for s, t in r.fires)))
    return tuple(out)

  def text (self):
    lines = [prog_text(self.prog)]
    for r in self.recs:
      if r.fd is not None:
        lines.append("  %s's fd/socket readable: %s%s" % (r.name, r.fd.fate(),
                                                      "; send() calls (offered, accepted): %r" % (r.fd.sends,) if r.fd.sends else ""))
    lines.append("  trace (entity, step, virtual time): " + ", ".join("%s.%s@+%s" % (n, s, t - T0) for n, s, t in self.trace))
    for r in self.recs:
      if r.kind == "t":
        lines.append("  %s: state %s; received %s" % (r.name, r.state, ["step %d: %s @+%s" % (i, g, t - T0) for i, g, t in r.recv]))
      else:
        lines.append("  %s: callbacks at %s%s" % (r.name, ["+%s" % (t - T0) for s, t in r.fires],
                                                   "; cancelled by a task" if r.cancel_seq is not None else ""))
    return "\n".join(lines)


def _got_text (got, exc):
  if exc is not None: return "the exception %s(%s)" % (type(exc).__name__, ", ".join(map(repr, exc.args)))
  if got[0] == "subval": return "the value of sub-task call %r" % (got[1:],)
  return "the value %s" % got[1]


# ---- generators run by the real scheduler -----------------------------------------------------------------
def body (w, r):
  script = r.spec
  n = len(script)
  for i in range(n):
    op = script[i]
    w.step_begin(r, i)
    if OPS[op][0] == "raise":
      w.consume("%s.%d" % (r.name, i))
      if w.twin == r.idx:           # differential twin: the same task ends here instead of raising
        r.state = "done"; w.end(); return
      r.state = "raised"; w.end()
      raise script_exc(OPS[op][1], "step", "%s raises at step %d" % (r.name, i))
    y = w.prepare(r, i, op)
    w.end()
    try:
      v = yield y
    except BaseException as e:
      if not isinstance(e, Exception) and not scripted(e): raise      # (the interpreter closing the generator)
      w.resumed(r, i, op, None, e)
    else:
      w.resumed(r, i, op, v, None)
  w.step_begin(r, n)
  w.consume("%s.%d" % (r.name, n))
  r.state = "done"
  w.end()


def sub_gen (w, r, i, shape, inner=False, last=True):
  """A sub-task (or, with inner=True, the inner sub-task of a nested call).  `last`: nothing of the call runs after it."""
  R = w.R
  tag = ".inner" if inner else ".sub"
  extra = ("inner",) if inner else ()
  r.sub_req = None
  w.begin("%s.%d%s0" % (r.name, i, tag))
  w.trace.append((r.name + tag, 0, w.now()))
  if shape in ("s", "sr", "se"):
    r.sub_req = w.now() + 1
    y = R.Sleep(1)
    w.end()
    yield y
    w.begin("%s.%d%s1" % (r.name, i, tag))
    w.trace.append((r.name + tag, 1, w.now()))
    if w.now() < r.sub_req:
      w.fail("timed-wake-early:Sleep", "%s's sub-task resumed from Sleep(1) at +%s, requested +%s" % (r.name, w.now() - T0, r.sub_req - T0))
  if last: r.sub_done = True
  w.end()
  if shape in ("v", "s"):
    yield ("subval", r.idx, i) + extra
  elif shape in ("r", "se"):
    raise SubError(r.idx, i, *extra)
  elif shape == "rS":
    raise script_exc("S", "sub-task", r.idx, i)
  else:
    return


def mid_gen (w, r, i, shape):
  """The middle level of a nested call: calls the inner sub-task; what it receives must be exactly what the inner
  sub-task produced."""
  R = w.R
  catches = shape in ("nv", "nc", "ncs")
  w.begin("%s.%d.mid0" % (r.name, i))
  w.trace.append((r.name + ".mid", 0, w.now()))
  y = R.Again(sub_gen(w, r, i, SHAPE_INNER[shape], inner=True, last=not catches))
  w.end()
  if not catches:
    v = yield y                 # the inner sub-task's exception passes through to the caller
    got = ("the value %r" % (v,))
  else:
    try:
      v = yield y
    except Exception as e:
      got = None if (shape != "nv" and isinstance(e, SubError) and e.args == (r.idx, i, "inner")) else \
            "the exception %s(%s)" % (type(e).__name__, ", ".join(map(repr, e.args)))
    else:
      got = None if (shape == "nv" and v == ("subval", r.idx, i, "inner")) else "the value %r" % (v,)
  w.begin("%s.%d.mid1" % (r.name, i))
  w.trace.append((r.name + ".mid", 1, w.now()))
  if got is not None:
    w.fail(SHAPE_KEY[shape], "%s's sub-task called an inner sub-task that %s; the sub-task received %s"
           % (r.name, SHAPE_NAME[SHAPE_INNER[shape]], got))
  if r.sub_req is not None and w.now() < r.sub_req:
    w.fail("timed-wake-early:Sleep", "%s's sub-task resumed at +%s from an inner sub-task that slept until +%s" % (r.name, w.now() - T0, r.sub_req - T0))
  r.sub_done = True
  w.end()
  yield ("subval", r.idx, i)


def _tf_plain (w, r, i, raises):
  r.sub_req = None
  w.begin("%s.%d.sub0" % (r.name, i))
  w.trace.append((r.name + ".sub", 0, w.now()))
  r.sub_done = True
  w.end()
  if raises: raise SubError(r.idx, i)
  return ("subval", r.idx, i)


def _cb_func (w, r, i, arg):
  """What a task hands to CallBlocking: runs on a thread of its own."""
  if arg == 1: w.R.time.sleep(1)
  r.cb_done = True
  if arg == "r": raise CBError(r.idx, i)
  if arg == "rS": raise script_exc("S", "function handed to CallBlocking", r.idx, i)
  return ("cbval", r.idx, i)


def _make_cb (w, r, args=False):
  def cb ():
    return w.fired(r)
  def cb_args (a, k):           # needs the positional and the keyword argument it was registered with
    if not (a == k == ("token", r.idx)):
      w.fail("timer:callback-args:wrong-arguments", "%s (%s) called back with (%r, k=%r)" % (r.name, TIMERS[r.spec][2], a, k))
    return w.fired(r)
  return cb_args if args else cb


_CACHE = {}

def _task_classes (R):
  c = _CACHE.get(("cls", id(R)))
  if c is None:
    class ProgTask (R.Task):
      def __init__ (self, w, r):
        self._w = w; self._r = r
        R.Task.__init__(self, name=r.name)
      def run (self):
        return body(self._w, self._r)
    class RaisingOp (R.BlockingOperation):
      """A blocking operation that fails when the scheduler executes it."""
      def __init__ (self, kind, where, raises, text):
        self.kind = kind; self.where = where; self.raises = raises; self.text = text
      def execute (self, task, scheduler):
        if self.raises: raise script_exc(self.kind, self.where, self.text)
    c = _CACHE[("cls", id(R))] = dict(ProgTask=ProgTask, RaisingOp=RaisingOp)
  return c

def _subs (R):
  c = _CACHE.get(("subs", id(R)))
  if c is None:
    c = _CACHE[("subs", id(R))] = dict(tf_plain=R.task_function(_tf_plain), tf_sleepval=R.task_function(sub_gen))
  return c


class _Null (object):
  def write (self, s): return len(s)
  def flush (self): pass


class _QuietTraceback (object):
  """Stands in for the `traceback` module inside recoco: the scheduler's report of a de-scheduled task is
  output only; formatting it costs more than the rest of an execution."""
  def print_exc (self, *a, **k): pass
  def __getattr__ (self, n):
    import traceback
    return getattr(traceback, n)


# ---------------------------------------------------------------------------------------------------
# the wake-up pipe: the REAL pox.lib.util pinger (make_pinger() -> PipePinger: ping / pongAll / fileno) over a virtual os.pipe
# ---------------------------------------------------------------------------------------------------
VFD_BASE = 1 << 20          # descriptor numbers of virtual pipes (never mistaken for a real descriptor by a late __del__)
PIPE_CAPACITY = 65536       # bytes a pipe holds before a write blocks (Linux default)

class VPipe (object):
  """A pipe of the virtual os: a byte count (every wake-up byte is the same), a capacity, blocking flags per end."""
  def __init__ (self, vos, k):
    self.vos = vos
    self.rfd = VFD_BASE + 2 * k; self.wfd = self.rfd + 1
    self.n = 0                  # bytes buffered
    self.r_blocking = True; self.w_blocking = True
    self.written = 0
    self.reads = []             # (bytes pending, bytes asked for) per read: what the evidence reports as the boundary reached
  # what the virtual select / the scripted epoll object ask of the read end
  def fileno (self): return self.rfd
  def readable (self): return self.n > 0
  def writable (self): return False
  def errored (self): return False
  def __repr__ (self): return "<vpipe %d: %d bytes>" % (self.rfd - VFD_BASE, self.n)


class VOs (object):
  """Stands in for the `os` module inside pox.lib.util: pipe() / read() / write() / close() / set_blocking() on virtual
  pipes, everything else is the real module.  How a read of an empty pipe / a write to a full one waits is up to the
  world: `wait(pipe, "read"|"write")` returns when the operation can proceed (controlled threads), or never returns
  (inline hub: the only thread that could make it proceed is the caller itself - the scheduler hangs)."""
  name = "posix"
  def __init__ (self, w, wait, point=None):
    self.w = w; self.wait = wait; self.point = point or (lambda what: None)
    self.pipes = []
    self.by_fd = {}
  def pipe (self):
    p = VPipe(self, len(self.pipes))
    self.pipes.append(p)
    self.by_fd[p.rfd] = p; self.by_fd[p.wfd] = p
    self.w.fdmap[p.rfd] = p
    return p.rfd, p.wfd
  def write (self, fd, data):
    p = self.by_fd.get(fd)
    if p is None:
      if fd >= VFD_BASE: raise OSError(9, "Bad file descriptor")
      return _real_os.write(fd, data)
    if fd != p.wfd: raise OSError(9, "Bad file descriptor (write to the read end of a pipe)")
    self.point("ping pinger")
    n = len(data)
    if n == 0: return 0
    if p.n >= PIPE_CAPACITY:
      if not p.w_blocking: raise BlockingIOError(11, "Resource temporarily unavailable")
      self.wait(p, "write")
    k = min(n, PIPE_CAPACITY - p.n)
    p.n += k; p.written += k
    return k
  def read (self, fd, n):
    p = self.by_fd.get(fd)
    if p is None:
      if fd >= VFD_BASE: raise OSError(9, "Bad file descriptor")
      return _real_os.read(fd, n)
    if fd != p.rfd: raise OSError(9, "Bad file descriptor (read from the write end of a pipe)")
    self.point("pong pinger")
    if len(p.reads) < 64: p.reads.append((p.n, n))
    if n <= 0: return b""
    if p.n == 0:
      if not p.r_blocking: raise BlockingIOError(11, "Resource temporarily unavailable")
      self.wait(p, "read")
    k = min(n, p.n)
    p.n -= k
    return b" " * k
  def close (self, fd):
    if fd >= VFD_BASE: return   # (possibly a pipe of an earlier execution, closed by a late __del__: numbers are re-used)
    return _real_os.close(fd)
  def set_blocking (self, fd, blocking):
    p = self.by_fd.get(fd)
    if p is None: return _real_os.set_blocking(fd, blocking)
    if fd == p.rfd: p.r_blocking = bool(blocking)
    else: p.w_blocking = bool(blocking)
  def get_blocking (self, fd):
    p = self.by_fd.get(fd)
    if p is None: return _real_os.get_blocking(fd)
    return p.r_blocking if fd == p.rfd else p.w_blocking
  def __getattr__ (self, n):
    return getattr(_real_os, n)


def _real_pinger_factory (U):
  """pox.lib.util's own pinger factory, whatever the harness (this one or another) has rebound makePinger to."""
  f = _CACHE.get(("mkpinger", id(U)))
  if f is None:
    f = _CACHE[("mkpinger", id(U))] = U.make_pinger
  return f


# ---------------------------------------------------------------------------------------------------
# PART 1: inline hub
# ---------------------------------------------------------------------------------------------------
class VClockX (object):
  """Virtual `time` module."""
  def __init__ (self): self.now = T0
  def time (self): return self.now
  def sleep (self, s): self.now += s
  def __getattr__ (self, n):
    import time as _t
    return getattr(_t, n)


class VSelect (object):
  """Virtual select: returns what is ready now; otherwise advances the clock to the next instant at which one of
  the objects it was given becomes readable or the timeout expires; if neither can ever happen (the timeout is
  the hub's polling interval) the run has reached its horizon and the scheduler is told to quit."""
  error = OSError
  def __init__ (self, w, clock, pinger_cls):
    self.w = w; self.clock = clock; self.pinger_cls = pinger_cls
  def _ready (self, objs):
    out = []
    for o in objs:
      if isinstance(o, self.pinger_cls):            # the library's pinger: readable when its pipe holds bytes
        if self.w.fdmap[o.fileno()].readable(): out.append(o)
      elif isinstance(o, (VFd, VPipe)):
        if o.readable(): out.append(o)
    return out
  def select (self, rl, wl, xl, timeout=None):
    w = self.w
    w.nselect += 1
    if w.nselect > w.max_selects or w.abort:
      w.abort = w.abort or "runaway"
      w.sch._hasQuit = True
      return [], [], []
    rl = list(rl); wl = list(wl)
    ro = self._ready(rl)
    wo = [o for o in wl if isinstance(o, VFd) and o.writable()]
    if ro or wo: return ro, wo, []
    now = self.clock.now
    cands = [o.next_readable() for o in rl if isinstance(o, VFd) and o.will_be_readable()]
    if timeout is not None and timeout < POLL:
      cands.append(now + max(0, timeout))
    if not cands:
      w.horizon = True
      w.sch._hasQuit = True
      return [], [], []
    self.clock.now = max(now, min(cands))
    return self._ready(rl), [], []


class VEpollModule (object):
  """Stands in for the `select` module inside pox.lib.epoll_select: epoll() hands out scripted epoll objects whose
  poll() answers from the same virtual select (inline: VSelect, threaded: the explorer's select) as the plain hub."""
  EPOLLIN = 0x001; EPOLLPRI = 0x002; EPOLLOUT = 0x004; EPOLLERR = 0x008; EPOLLHUP = 0x010
  EPOLLRDNORM = 0x040; EPOLLRDBAND = 0x080; EPOLLWRNORM = 0x100; EPOLLWRBAND = 0x200
  error = OSError
  def __init__ (self, w, select_func):
    self.w = w; self.select_func = select_func
  def epoll (self, *a):
    return VEpoll(self)
  def select (self, *a): return self.select_func(*a)


class VEpoll (object):
  def __init__ (self, mod):
    self.mod = mod; self.reg = {}
  def register (self, fd, mask):
    if fd in self.reg: raise FileExistsError(17, "epoll: fd %r already registered" % (fd,))
    if fd not in self.mod.w.fdmap: raise OSError(9, "epoll: bad file descriptor %r" % (fd,))
    self.reg[fd] = mask
  def modify (self, fd, mask):
    if fd not in self.reg: raise FileNotFoundError(2, "epoll: fd %r not registered" % (fd,))
    self.reg[fd] = mask
  def unregister (self, fd):
    if fd not in self.reg: raise FileNotFoundError(2, "epoll: fd %r not registered" % (fd,))
    del self.reg[fd]
  def poll (self, timeout=None, maxevents=-1):
    m = self.mod; fdmap = m.w.fdmap
    rl = [fdmap[fd] for fd, mask in self.reg.items() if mask & (m.EPOLLIN | m.EPOLLPRI)]
    wl = [fdmap[fd] for fd, mask in self.reg.items() if mask & m.EPOLLOUT]
    if timeout is not None and timeout < 0: timeout = None
    ro, wo, xo = m.select_func(rl, wl, [], timeout)
    ev = {}
    for o in ro: ev[o.fileno()] = ev.get(o.fileno(), 0) | m.EPOLLIN
    for o in wo: ev[o.fileno()] = ev.get(o.fileno(), 0) | m.EPOLLOUT
    # a hang-up is reported for every registered descriptor, whatever events it is registered for (epoll_ctl(2))
    for fd in self.reg:
      o = fdmap[fd]
      if isinstance(o, VFd) and o.eof():
        ev[fd] = ev.get(fd, 0) | m.EPOLLHUP
    return sorted(ev.items())
  def close (self): pass


_QUIET = _QuietTraceback()

def _mods ():
  from mc.env import boot
  boot()
  import pox.lib.recoco.recoco as R, pox.lib.util as U
  return R, U


def run_inline (ctx, prog, twin=None, epoll=False, big=None, hup=False):
  R, U = _mods()
  clock = VClockX()
  R.threading = threading; R.Thread = threading.Thread; R.Queue = queue.Queue
  R.time = clock; R.CYCLE_MAXIMUM = 1e9
  R.traceback = _QUIET
  w = World(ctx, prog, R, clock.time, "inline", twin=twin, env_choices=big is None)
  if big is not None:           # a large program of the wake-up-pipe part: fixed environment, larger caps
    w.fd_at = big["fd_at"]; w.max_steps = big["max_steps"]; w.max_selects = big["max_selects"]
  # the hub's pinger is the library's own (pox.lib.util.make_pinger -> PipePinger) on a virtual pipe.  A read of the
  # empty pipe / a write to the full one would wait for another thread; here there is none: the scheduler hangs.
  def hang (pipe, what):
    w.fail("scheduler-hangs:" + ("read-of-the-empty-wake-up-pipe" if what == "read" else "write-to-the-full-wake-up-pipe"),
           "the scheduler thread (inline select hub) blocks for good in a %s its wake-up pipe, which holds %d bytes; reads so far (pending, asked for): %r"
           % ("read of" if what == "read" else "write to", pipe.n, pipe.reads[-4:]))
    w.hung = True; w.abort = w.abort or "hang"
    raise Abort()
  w.vos = U.os = VOs(w, hang)
  U.makePinger = _real_pinger_factory(U)
  def advance (d): clock.now += d
  w.advance = advance
  w.epoll = epoll
  w.hup = hup
  vs = VSelect(w, clock, U.Pinger)
  R.select = vs
  if epoll:
    import pox.lib.epoll_select as ES
    ES.select = VEpollModule(w, vs.select)
  sch = R.Scheduler(isDefaultScheduler=True, startInThread=False, threaded_selecthub=False, use_epoll=epoll)
  R.defaultScheduler = sch
  sch._thread = threading.current_thread()        # run() below executes on "the scheduler's thread"
  if not epoll: sch._selectHub._select_func = vs.select
  sch._random = w.rand
  w.build(sch)
  try:
    sch.run()
  except Abort:
    pass
  except BaseException as e:
    if not isinstance(e, Exception):
      if not scripted(e): raise                 # meant for the harness process, not raised by the program
      # one key per place in Scheduler.cycle that must contain it: the task's step (a timer callback and a sub-task
      # are steps of their tasks) / the execute() of the operation it yielded
      w.fail("raise-isolation:what-a-task-raised-escapes-Scheduler.run:%s:non-Exception-BaseException"
             % ("blocking-operation" if scripted(e) == "blocking-operation" else "step"),
             "Scheduler.run() ended with the %s that a %s of the program raised: %s" % (type(e).__name__, scripted(e), e))
      w.at_horizon_skipped = True; w.crashed = True
      return w
    import traceback
    tb = traceback.extract_tb(e.__traceback__)
    site = next(("%s:%s" % (f.filename.rsplit("/", 1)[-1], f.name) for f in reversed(tb) if "/pox/" in f.filename), "?")
    w.fail("scheduler-crash:%s:%s" % (site, type(e).__name__), "Scheduler.run() raised %s: %s" % (type(e).__name__, e))
    w.at_horizon_skipped = True
    return w
  w.at_horizon()
  return w


def run_inline_checked (ctx, prog, epoll=False, hup=False):
  """One execution plus, for every task that raised in it, the differential twin (the same task returning
  instead of raising, same environment choices): everything the other entities did must be identical."""
  w = run_inline(ctx, prog, epoll=epoll, hup=hup)
  if not w.abort and not w.crashed:
    for r in w.recs:
      if r.state != "raised": continue
      ctx2 = Ctx(ctx.choices())
      try:
        w2 = run_inline(ctx2, prog, twin=r.idx, epoll=epoll, hup=hup)
        same = (len(ctx2.trace) == len(ctx.trace) and w2.trace == w.trace and w2.observation(r.idx) == w.observation(r.idx))
        diff = "" if same else _first_diff(w, w2, r.idx)
      except Divergence as e:
        same = False; diff = "the environment was consulted differently (%s)" % e
      w.ntwins += 1
      if not same:
        w.fail("raise-isolation:others-differ-from-run-without-the-raise",
               "with %s raising, the other entities behave differently than when it simply ends: %s" % (r.name, diff))
  return w


def _first_diff (w, w2, k):
  for a, b in zip(w.trace, w2.trace):
    if a != b: return "trace diverges at %r vs %r" % (a, b)
  if len(w.trace) != len(w2.trace):
    lo = min(len(w.trace), len(w2.trace))
    return "trace has %d steps vs %d (first extra: %r)" % (len(w.trace), len(w2.trace), (w.trace[lo:] or w2.trace[lo:])[0])
  return "observations differ: %r vs %r" % (w.observation(k), w2.observation(k))


_SPACE = None        # the program space of the suite being run (built before the pool forks)
_EPOLL = False       # the suite being run uses the epoll hub variant
_HUP = False         # the fd environment of the suite being run includes the peer hanging up
_STRIDE = 1          # debugging (--only inline:N): every N-th program only

def _violation (rep, w, replay):
  for clause, what in w.bad:
    rep.violation("%s:%s" % (PID, clause), what, replay)


def _inline_worker (item):
  lo, step, dev, suite = item
  step *= _STRIDE
  t_cpu = time.process_time()
  rep = Report(PID, "model_checking")
  old = sys.stdout, sys.stderr
  sys.stdout = sys.stderr = _Null()
  n = 0
  try:
    for pi in range(lo, len(_SPACE), step):
      prog = _SPACE[pi]
      def on_exec (ctx, w, prog=prog):
        rep.evaluations += 1
        rep.transitions += w.nsteps + w.nselect
        if w.ntwins: rep.extra["differential_twin_runs"] = rep.extra.get("differential_twin_runs", 0) + w.ntwins
        rep.outcome((w.observation(), tuple(k for k, _ in w.bad)))
        if w.bad:
          _violation(rep, w, dict(part="inline", prog=_prog_to_json(prog), choices=ctx.choices(), epoll=_EPOLL, hup=_HUP))
        elif not rep.samples and w.nsteps >= 7 and len(ctx.trace) > 4 and any(c for c in ctx.choices()):
          rep.sample(dict(part="inline hub" + (" (epoll)" if _EPOLL else ""), program=prog_text(prog),
                          environment=[(l, c) for l, c in ctx.labelled() if c], observed=w.text().split("\n")[1:]))
      explore(lambda ctx, prog=prog: run_inline_checked(ctx, prog, _EPOLL, _HUP), dev_bound=dev, on_exec=on_exec)
      n += 1
  finally:
    sys.stdout, sys.stderr = old
  rep.extra["programs_inline"] = n
  rep.extra["executions: " + suite] = rep.evaluations
  rep.extra["cpu_ms_inline"] = int((time.process_time() - t_cpu) * 1000)
  return rep


def _prog_to_json (prog):
  return [[e[0], list(e[1]) if isinstance(e[1], tuple) else e[1]] + list(e[2:]) for e in prog]

def _prog_from_json (p):
  return tuple((e[0], tuple(e[1]) if isinstance(e[1], list) else e[1]) + tuple(e[2:]) for e in p)


TPARAM_SUITE = ("%s, the Timer parameter lattice: period 0 / 0.0 / 0.5 / 2, one-shot and recurring (stopped on the n-th call by returning False / "
                "by cancel() from the callback / with selfStoppable=False), callbacks slower than a zero period, absoluteTime at now-1 / now / now+1, "
                "started=False, callbacks that need their args / kw")

def inline_suites (cfg):
  """(name, ops, entities, cap on the total number of yields, deviation bound[, cap on the yields of one script])"""
  if cfg.quick:
    return [("2 entities, <=4 yields", OPS_QUICK, 2, 4, 1),
            ("2 tasks, <=3 yields, nested sub-task calls and zero-timeout Select", OPS_NESTED_CTX, 2, 3, 1, 3, False),
            ("3 tasks, <=4 yields (<=2 each), sleepers", OPS_SLEEPERS, 3, 4, 1, 2, False),
            ("2 entities, <=3 yields, sleeps whose deadline has passed when executed, slow timer callbacks", OPS_PAST, 2, 3, 1, 3, TIMERS_PAST),
            ("2 tasks, <=3 yields, socket Send/Recv with partial writes and short reads", OPS_IO_CTX, 2, 3, 1, 3, False),
            ("2 tasks, <=4 yields (<=2 each), every priority assignment in {1,0.5}", OPS_PRIO, 2, 4, 1, 2, False, True),
            ("3 tasks, <=3 yields (<=1 each), every priority assignment in {1,0.5}", OPS_PRIO, 3, 3, 1, 1, False, True),
            ("2 entities, <=3 yields, timers built with started=False and start()ed by a task", OPS_PARK, 2, 3, 1, 3, TIMERS_PARK),
            ("2 tasks, <=3 yields, epoll hub (use_epoll=True over a scripted epoll object), fd environment incl. the peer hanging up", OPS_EPOLL, 2, 3, 1, 3, False, False, dict(epoll=True, hup=True)),
            ("2 entities, <=3 yields, what a step / a blocking operation's execute() / a timer callback / a sub-task raises: Exception, SystemExit, GeneratorExit, KeyboardInterrupt, other BaseException",
             OPS_RAISE_CTX, 2, 3, 1, 3, TIMERS_RAISE),
            (TPARAM_SUITE % "2 entities (>= 1 Timer), <=3 yields", OPS_TPARAM, 2, 3, 1, 3, TIMERS_PARAM, False, dict(need_timer=True))]
  return [("2 entities, <=4 yields", OPS_QUICK, 2, 4, 2),
          ("2 entities, <=6 yields (every ordered pair of scripts of <=3 yields)", OPS_QUICK, 2, 6, 0),
          ("2 entities, <=3 yields, extended vocabulary", OPS_QUICK + OPS_EXTRA, 2, 3, 1),
          ("2 tasks, <=4 yields, nested sub-task calls and zero-timeout Select", OPS_NESTED_CTX, 2, 4, 2, 3, False),
          ("3 entities, <=3 yields", OPS_QUICK, 3, 3, 1),
          ("3 entities, <=4 yields", OPS_QUICK, 3, 4, 0),
          ("3 tasks, <=5 yields (<=2 each), sleepers", OPS_SLEEPERS + ("Se1", "S1", "S0"), 3, 5, 1, 2, False),
          ("2 tasks, <=3 yields, socket Send/Recv with partial writes and short reads", OPS_IO_CTX, 2, 3, 2, 3, False),
          ("2 entities, <=4 yields, sleeps whose deadline has passed when executed, slow timer callbacks", OPS_PAST, 2, 4, 2, 3, TIMERS_PAST),
          ("2 tasks, <=4 yields (<=2 each), every priority assignment in {1,0.5}", OPS_PRIO, 2, 4, 2, 2, False, True),
          ("3 tasks, <=4 yields (<=2 each), every priority assignment in {1,0.5}", OPS_PRIO, 3, 4, 1, 2, False, True),
          ("2 entities, <=4 yields, timers built with started=False and start()ed by a task", OPS_PARK, 2, 4, 2, 3, TIMERS_PARK),
          ("2 tasks, <=4 yields, epoll hub (use_epoll=True over a scripted epoll object), fd environment incl. the peer hanging up", OPS_EPOLL, 2, 4, 2, 3, False, False, dict(epoll=True, hup=True)),
          ("2 tasks, <=3 yields, select hub, the vocabulary of the epoll suite, fd environment incl. the peer hanging up", OPS_EPOLL, 2, 3, 1, 3, False, False, dict(hup=True)),
          ("2 entities, <=4 yields, what a step / a blocking operation's execute() / a timer callback / a sub-task raises: Exception, SystemExit, GeneratorExit, KeyboardInterrupt, other BaseException",
           OPS_RAISE_CTX, 2, 4, 2, 3, TIMERS_RAISE),
          ("3 entities, <=3 yields (<=2 each), what a step / a blocking operation's execute() / a timer callback / a sub-task raises", OPS_RAISE_CTX, 3, 3, 1, 2, TIMERS_RAISE),
          (TPARAM_SUITE % "2 entities (>= 1 Timer), <=3 yields", OPS_TPARAM, 2, 3, 2, 3, TIMERS_PARAM, False, dict(need_timer=True)),
          (TPARAM_SUITE % "3 entities (>= 1 Timer), <=3 yields (<=2 each), blocked tasks woken by siblings", OPS_TPARAM + ("SN", "W"), 3, 3, 1, 2, TIMERS_PARAM, False, dict(need_timer=True))]


# ---------------------------------------------------------------------------------------------------
# PART 2: threaded hub under the controlled-thread explorer
# ---------------------------------------------------------------------------------------------------
# hand-off functions between the scheduler thread and the hub thread: their lines are scheduling points
HANDOFF = ("Scheduler.fast_schedule", "Scheduler.run", "SelectHub.idle", "SelectHub.break_idle", "SelectHub._cycle",
           "SelectHub.registerSelect", "SelectHub.registerTimer", "SelectHub._return", "SelectHub._threadProc",
           "Scheduler.schedule", "Scheduler.quit", "Sleep.execute", "Select.execute", "Exit.execute")

# further hand-off functions when threads other than the scheduler's (and the hub's) take part
HANDOFF_FOREIGN = ("CallBlocking.execute", "CallBlocking._proc", "ScheduleTask.run", "BaseTask.start")

def T (*script): return ("t", tuple(script))

# (program, {entity index: fd readiness offset, or ["hup", offset]: the peer hangs up then})
THR_PROGRAMS = [
  ((T("n1"), T("S2")), {}),
  ((T("Se", "0"), T("0", "0")), {0: 0.5}),
  ((T("Se1"), T("n1")), {}),
  ((T("SN", "0"), T("n1", "W")), {}),
  ((T("As"), T("0")), {}),
  ((T("Ae"), T("0")), {}),
  ((("T", "once"), T("n1")), {}),
  ((("T", "rec2"), T("Se")), {1: 1.5}),
  ((T("n1", "!"), T("S2", "0")), {}),
  ((T("Se1", "F"), T("Se", "W")), {0: 0.5, 1: 1.5}),
  # several sleepers: tied deadlines plus a longer one; zero-timeout Select next to a longer sleeper; nested sub-tasks
  ((T("n1"), T("n1"), T("S2")), {}),
  ((T("Se0", "S2"), T("S2"), ("T", "once")), {}),
  ((T("Nus", "0"), T("Ncs")), {}),
  ((T("Tx", "0"), T("Rx", "Rx1")), {1: 0.5}),
  # deadlines that have passed when the scheduler executes the Sleep
  ((T("Sa-1", "S2"), T("n1", "Sa0")), {}),
  ((("T", "slow2"), T("S2")), {}),
  # a timer built with started=False, start()ed by a task one second later
  ((("T", "parked"), T("n1", "St")), {}),
  # a recurring timer of period 0 (fires on every pass of the hub until its callback returns False) next to a sleeper
  ((("T", "rec0"), T("n1")), {}),
  ((("T", "spin0"), T("n1", "C")), {"thorough": True}),
  # a timed wait expires while the scheduler thread is busy in a long step of another task that then asks for I/O
  ((T("Se1", "0"), T("Se")), {"step_time": {"T1.0": 2}}),
  # the epoll hub variant (Scheduler(use_epoll=True), EpollSelect over the scripted epoll object)
  ((T("Se1", "0"), T("Se")), {"step_time": {"T1.0": 2}, "epoll": True}),
  ((T("Se", "0"), T("Rx1", "n1")), {0: 0.5, "epoll": True}),
  ((T("Txs", "Se1"), T("n1", "Se1")), {1: 1.5, "epoll": True}),
  # a step raises something that is not an Exception while a sibling sleeps
  ((T("0", "!S"), T("n1")), {}),
  ((T("n1", "!S"), T("S2", "0")), {"thorough": True}),
  # INLINE hub (threaded_selecthub=False: the scheduler thread itself sits in select) with wake-ups that arrive from other
  # threads: the completion of a CallBlocking (instant / after 1 s / raising), schedule() of a blocked task, start() of a new
  # task (fast_schedule directly / through a ScheduleTask), at once or while the hub waits for a timer, alone or two at a time
  ((T("CB", "0"),), {"inline": True}),
  ((T("CB1", "0"), T("n1")), {"inline": True}),
  ((T("CBr", "0"), T("0", "0")), {"inline": True}),
  ((T("CBrS", "0"),), {"inline": True}),
  ((T("F", "0"), T("0", "0")), {"inline": True, "foreign": [[["sched", 0]]]}),
  ((T("SN", "0"), T("S2")), {"inline": True, "foreign": [[["at", 1], ["sched", 0]]]}),
  ((T("n1"), T("0")), {"inline": True, "late": [1], "foreign": [[["start", 1, 1]]]}),
  ((T("F"), T()), {"inline": True, "late": [1], "foreign": [[["sched", 0], ["start", 1, 0]]]}),
  ((T("F", "0"), T("0")), {"inline": True, "late": [1], "foreign": [[["sched", 0]], [["start", 1, 0]]], "thorough": True}),
  ((T("CB"), T("Se1")), {"inline": True, "epoll": True}),
  ((T("CB", "Se1"), T("Se")), {1: 0.5, "inline": True, "epoll": True, "thorough": True}),
  # the same kinds of wake-up with the threaded hub
  ((T("CB"),), {}),
  ((T("CB", "0"), T("n1")), {"thorough": True}),
  ((T("F"), T("0")), {"foreign": [[["sched", 0]]]}),
  ((T("F", "0"), T("0", "0")), {"foreign": [[["sched", 0]]], "thorough": True}),
  # the peer of a selecting task's socket hangs up at +0.5 (select hub: readable; epoll hub: EPOLLIN|EPOLLHUP)
  ((T("Se", "0"), T("n1")), {0: ["hup", 0.5], "thorough": True}),
  ((T("Se", "0"), T("n1")), {0: ["hup", 0.5], "epoll": True, "thorough": True}),
  ((T("Rx", "0"), T("n1")), {0: ["hup", 0.5], "epoll": True, "thorough": True}),
]


def thr_programs (cfg):
  """Indices of the programs of this tier (the quick tier leaves out the larger variants marked "thorough")."""
  return [pi for pi, (prog, o) in enumerate(THR_PROGRAMS) if not (cfg.quick and o.get("thorough"))]


def _polling_select (thr):
  """mc.thr.CSelect with a faithful zero-timeout poll: select(..., 0) is a scheduling point and returns what is
  ready at once (CSelect would wait for the virtual deadline, i.e. until no other thread can run).  The unchanged
  hub never passes a zero timeout; a hub that does must not be protected by the model."""
  c = _CACHE.get(("psel", id(thr)))
  if c is None:
    class PollingCSelect (thr.CSelect):
      fdmap = None
      def _ready (self, r, w, x):
        # (an object without readable() is the library's pinger: readable when its virtual pipe holds bytes)
        fdmap = self.fdmap
        ro = [o for o in r if (o.readable() if hasattr(o, "readable") else fdmap[o.fileno()].readable())]
        wo = [o for o in w if getattr(o, "writable", lambda: False)()]
        xo = [o for o in x if getattr(o, "errored", lambda: False)()]
        return ro, wo, xo
      def select (self, r, w, x, timeout=None):
        if timeout is not None and timeout <= 0:
          r, w, x = list(r), list(w), list(x)
          self.S.point("select-poll")
          return self._ready(r, w, x)
        return thr.CSelect.select(self, r, w, x, timeout)
    c = _CACHE[("psel", id(thr))] = PollingCSelect
  return c


def run_threaded (ctx, prog, fd_at, funcs=HANDOFF, max_points=8000, keep_log=False):
  from mc.env import boot
  boot()
  from mc import thr
  import pox.lib.recoco.recoco as R, pox.lib.util as U
  # fd_at: {entity index: fd readiness offset} plus options under string keys: "epoll" (the use_epoll hub over the
  # scripted epoll object), "step_time" ({"T1.0": seconds that step takes})
  opts = dict((k, v) for k, v in fd_at.items() if isinstance(k, str) and not k.isdigit())
  fd_at = dict((int(k), v) for k, v in fd_at.items() if not (isinstance(k, str) and not k.isdigit()))
  epoll = bool(opts.get("epoll"))
  inline = bool(opts.get("inline"))
  foreign = opts.get("foreign") or []
  if funcs is not None and (inline or foreign or any(OPS[o][0] == "callblocking" for e in prog if e[0] == "t" for o in e[1])):
    funcs = tuple(funcs) + HANDOFF_FOREIGN
  w = World(ctx, prog, R, None, "threaded", env_choices=False)
  w.late = tuple(opts.get("late") or ())
  w.step_time = dict(opts.get("step_time") or {})
  if opts.get("max_steps"): w.max_steps = opts["max_steps"]
  w.epoll = epoll
  S = thr.Sched(ctx, trace_files=("recoco/recoco.py",), trace_funcs=funcs, pending=w.pending, max_points=max_points)
  S.keep_log = keep_log
  w.now = lambda: S.now
  w.advance = lambda d: R.time.sleep(d)        # "this code took d seconds": the thread sleeps on the virtual clock
  w.fd_at = fd_at
  TM = thr.CThreadingModule(S)
  R.threading = TM; R.Thread = TM.Thread; R.Queue = lambda: thr.CQueue(S)
  R.select = _polling_select(thr)(S); R.time = thr.CTime(S); R.CYCLE_MAXIMUM = 1e9
  R.select.fdmap = w.fdmap
  R.traceback = _QUIET
  # the hub's pinger is the library's own (pox.lib.util.make_pinger -> PipePinger) on a virtual pipe: every write / read
  # is a scheduling point; a read of the empty pipe (a write to the full one) waits until another thread writes (reads)
  def wait (pipe, what):
    if what == "read": S.block(lambda: pipe.n > 0, what="read of empty pinger pinger")
    else: S.block(lambda: pipe.n < PIPE_CAPACITY, what="write to full pinger pinger")
  w.vos = U.os = VOs(w, wait, S.point)
  U.makePinger = _real_pinger_factory(U)
  if epoll:
    import pox.lib.epoll_select as ES
    ES.select = VEpollModule(w, R.select.select)
  R.Scheduler.runThreaded = R.Scheduler._orig_runThreaded
  sch = R.Scheduler(isDefaultScheduler=True, startInThread=True, threaded_selecthub=not inline, use_epoll=epoll)
  R.defaultScheduler = sch
  w.on_sched_thread = lambda: S.cur is not None and S.cur.obj is sch._thread
  sch._random = w.rand            # 0.0: the priority-0.5 task is never deferred in this part
  w.build(sch)
  instants = sorted(set(T0 + (v[1] if isinstance(v, (list, tuple)) else v) for v in fd_at.values()))
  if instants:
    ct = R.time
    def env ():
      for t in instants:
        if t > S.now: ct.sleep(t - S.now)
    S.spawn(env, name="env")
  for k, script in enumerate(foreign):
    S.spawn(_foreign(w, S, R, sch, script), name="foreign%d" % k)
  leaked = S.run(first=0)
  v = S.verdict
  if leaked and v is None: v = ("leaked-threads", ",".join(leaked))
  w.S = S
  w.harness_error = None
  if v is not None and v[0] in ("harness-timeout", "leaked-threads"):
    w.harness_error = "threaded execution: %s: %s" % v          # the explorer's trouble, never a violation
    return w
  if v is not None and v[0] in ("lost-wakeup", "deadlock"):
    # work is pending and a thread sits in its wake-up pipe for good: one defect, one key (the same as with the inline hub)
    # (the explorer's verdict names what every waiting thread waits for)
    for what in ("read of empty pinger", "write to full pinger"):
      if (" on " + what) in v[1]:
        rd = what.startswith("read")
        w.fail("scheduler-hangs:" + ("read-of-the-empty-wake-up-pipe" if rd else "write-to-the-full-wake-up-pipe"),
               "work is pending, but a thread blocks for good in a %s the hub's wake-up pipe; reads so far (pending, asked for): %r; %s"
               % ("read of" if rd else "write to", w.vos.pipes[0].reads[-4:], v[1]))
        w.hung = True
        break
  if v is None or v[0] in ("lost-wakeup", "deadlock"):
    w.at_horizon()
  if v is not None and not w.bad:
    w.fail("threaded-hub:" + v[0], v[1])
  return w


def _foreign (w, S, R, sch, script):
  """A thread that is neither the scheduler's nor the hub's.  Actions: ["at", d] sleep until T0+d; ["sched", i] once task i
  has blocked (yield False / Sleep(None)), wake it with Scheduler.schedule(); ["start", i, fast] start task i (built but not
  started) with Task.start(fast=...)."""
  def body ():
    for act in script:
      if act[0] == "at":
        if T0 + act[1] > S.now: R.time.sleep(T0 + act[1] - S.now)
      elif act[0] == "sched":
        r = w.recs[act[1]]
        S.block(lambda: r.state == "blocked", what="%s to block" % r.name)
        r.woken = True; r.state = "ready"
        sch.schedule(r.obj)
      elif act[0] == "start":
        r = w.recs[act[1]]
        r.state = "ready"
        r.obj.start(sch, priority=r.prio, fast=bool(act[2]))
      else:
        raise RuntimeError("unknown action %r" % (act,))
  return body


def _thr_first (item):
  """Default schedule twice (determinism check); returns the one-deviation prefixes."""
  pi, funcs = item
  prog, fd_at = THR_PROGRAMS[pi]
  old = sys.stdout, sys.stderr
  sys.stdout = sys.stderr = _Null()
  gc.disable()
  try:
    c1 = Ctx([]); w1 = run_threaded(c1, prog, fd_at, funcs, keep_log=True)
    c2 = Ctx([]); w2 = run_threaded(c2, prog, fd_at, funcs, keep_log=True)
  finally:
    gc.collect(); gc.enable()
    sys.stdout, sys.stderr = old
  if w1.S.log != w2.S.log or [(t[1], t[2]) for t in c1.trace] != [(t[1], t[2]) for t in c2.trace]:
    raise RuntimeError("nondeterministic default schedule for threaded program %d" % pi)
  kids = []
  for i, (c, n, label, costly) in enumerate(c1.trace):
    for alt in range(1, n):
      kids.append([0] * i + [alt])
  return pi, kids, len(c1.trace), w1.S.points


def _thr_worker (item):
  pi, funcs, bound, prefixes = item
  t_cpu = time.process_time()
  prog, fd_at = THR_PROGRAMS[pi]
  rep = Report(PID, "model_checking")
  old = sys.stdout, sys.stderr
  sys.stdout = sys.stderr = _Null()
  gc.disable()
  try:
    def on_exec (ctx, w):
      rep.evaluations += 1
      rep.transitions += len(ctx.trace)
      kk = "execs_threaded_program_%d" % pi
      rep.extra[kk] = rep.extra.get(kk, 0) + 1
      if w.harness_error:
        rep.error("%s [program %d, choices %r]" % (w.harness_error, pi, ctx.choices()))
      rep.outcome(("thr", pi, tuple(w.trace), w.observation(), tuple(k for k, _ in w.bad)))
      if w.bad:
        _violation(rep, w, dict(part="threaded", program=pi, prog=_prog_to_json(prog), fd_at={str(k): v for k, v in fd_at.items()},
                                funcs=None if funcs is None else list(funcs), choices=ctx.choices()))
      elif not rep.samples and any(t[0] for t in ctx.trace):
        rep.sample(dict(part="threaded hub", program=prog_text(prog), schedule_deviations=[(i, t[2], t[0]) for i, t in enumerate(ctx.trace) if t[0]],
                        observed=w.text().split("\n")[1:]))
      if rep.evaluations % 200 == 0: gc.collect()
    for pfx in prefixes:
      explore(lambda ctx: run_threaded(ctx, prog, fd_at, funcs), dev_bound=bound, prefix0=pfx, on_exec=on_exec)
  finally:
    gc.collect(); gc.enable()
    sys.stdout, sys.stderr = old
  rep.extra["cpu_ms_threaded"] = int((time.process_time() - t_cpu) * 1000)
  return rep


def threaded_configs (cfg):
  """(funcs, deviation bound)"""
  if cfg.quick: return [(HANDOFF, 2), (None, 1)]
  return [(HANDOFF, 2), (None, 2)]


def run_threaded_part (cfg, rep, which=None):
  pts = {}
  for ci, (funcs, bound) in enumerate(threaded_configs(cfg)):
    if which is not None and ci != which: continue
    items = []
    firsts = list(pmap(_thr_first, [(pi, funcs) for pi in thr_programs(cfg)], cfg.workers))
    for pi, kids, nchoice, npoints in sorted(firsts):
      pts["program %d/%s" % (pi, "handoff-funcs" if funcs else "all-lines")] = dict(scheduling_points=npoints, choice_points=nchoice, bound=bound)
      items.append((pi, funcs, 0, [[]]))
      if bound >= 1:
        n = max(1, len(kids) // (cfg.workers * 2) + 1)
        for i in range(0, len(kids), n):
          items.append((pi, funcs, bound, kids[i:i+n]))
    for r in pmap(_thr_worker, items, cfg.workers, seed=cfg.seed):
      rep.merge(r)
  return pts


# ---------------------------------------------------------------------------------------------------
# PART 4: the hub's wake-up pipe between two idles (inline hub, the library's own pinger)
# ---------------------------------------------------------------------------------------------------
# With the inline hub every fast_schedule() (a task start()ed, a blocked task schedule()d, a task returned by the hub) and
# every registerSelect() (Sleep / number / Select / Recv / Send / a Timer's wait) writes one byte to the hub's pinger; the
# bytes are read back (pongAll: one read of 1024) only when the scheduler goes idle.  Large programs of the same grammar
# pile up N such wake-ups in one busy period, N over a boundary lattice around the multiples of the pinger's read size
# and around the capacity of a pipe.
PING_READ = 1024
PING_FORMS = {
  "start":    "N tasks that return at once, start()ed with fast=True (fast_schedule) before the scheduler runs",
  "schedule": "N tasks that return at once, start()ed with fast=False (Scheduler.schedule) before the scheduler runs",
  "wake":     "a task that blocks N times (yield False) and a task that wakes it N times (schedule(); yield 0)",
  "sleep":    "N tasks that `yield 1` (inline hub: N start()s + N registrations pending at the first idle, N returns from the hub at +1)",
  "select":   "N tasks that `yield Select([own fd], None, None, 1)`, no fd ever readable",
  "timers":   "N one-shot Timer(1, cb)",
}
PING_WAITERS = {
  "none": "nothing else",
  "S2":   "a task [yield Sleep(2); yield 0]",
  "Se":   "a task [yield Select([fd], None, None, None); yield 0], fd readable at +1.5",
  "rec2": "a Timer(1, cb, recurring=True), cb returns False on its 2nd call",
}
PING_HUBS = {
  "select":         "inline hub",
  "epoll":          "inline hub, use_epoll=True",
  "threaded":       "threaded hub (scheduler thread + hub thread under the controlled-thread explorer, default schedule: a thread runs until it blocks)",
  "threaded-epoll": "threaded hub, use_epoll=True (default schedule)",
}
THR_PING_FORMS = ("sleep", "select", "timers")        # with the threaded hub only registrations write to the hub's pipe

def ping_sizes (cfg, capacity=False, threaded=False):
  """N: 0..3, and within -5..+1 of every multiple of half the read size up to 1 (quick) / 4 (thorough) read sizes (a task of
  the forms `sleep` / `select` / `timers` writes two bytes before the first idle of the inline hub; the waiter and the fixed tasks of
  a form add up to four), so that every count of pending bytes within +-1 of a multiple of the read size occurs in every form;
  threaded hub: 1, 2 and within -3..+1 of the multiples of the read size up to 1 (quick) / 2 (thorough) read sizes; with
  capacity=True within -5..+1 of the capacity of a pipe instead."""
  if capacity: return [PIPE_CAPACITY + d for d in range(-5, 2)]
  if threaded:
    return [1, 2] + [m + d for m in range(PING_READ, cfg.pick(1, 2) * PING_READ + 1, PING_READ) for d in range(-3, 2)]
  top = cfg.pick(1, 4) * PING_READ
  return [0, 1, 2, 3] + [m + d for m in range(PING_READ // 2, top + 1, PING_READ // 2) for d in range(-5, 2)]


def ping_cases (cfg):
  """(form, N, waiter, hub)"""
  out = []
  for form in PING_FORMS:
    for waiter in PING_WAITERS:
      if cfg.quick and form in ("timers", "schedule", "select") and waiter not in ("none", "S2"): continue
      for n in ping_sizes(cfg):
        out.append((form, n, waiter, "select"))
        if waiter == "Se" and (n > 3 or not cfg.quick): out.append((form, n, waiter, "epoll"))
  for waiter in ("none", "S2"):
    for n in ping_sizes(cfg, capacity=True):
      out.append(("wake", n, waiter, "select"))
  for form in THR_PING_FORMS:
    for waiter in ("none", "S2"):
      for n in ping_sizes(cfg, threaded=True):
        out.append((form, n, waiter, "threaded"))
        if form == "select" and waiter == "S2": out.append((form, n, waiter, "threaded-epoll"))
  return out


def ping_prog (form, n, waiter):
  """The program (every task with priority 1) and its fixed environment."""
  prog = []; fd_at = {}
  if waiter == "S2": prog.append(("t", ("S2", "0"), 1))
  elif waiter == "Se":
    prog.append(("t", ("Se", "0"), 1)); fd_at[0] = 1.5
  elif waiter == "rec2": prog.append(("T", "rec2"))
  if form == "start": prog += [("t", (), 1)] * n
  elif form == "schedule": prog += [("t", (), 1, "slow")] * n
  elif form == "wake": prog += [("t", ("F",) * n, 1), ("t", ("W",) * n, 1)]
  elif form == "sleep": prog += [("t", ("n1",), 1)] * n
  elif form == "select": prog += [("t", ("Se1",), 1)] * n
  elif form == "timers": prog += [("T", "once")] * n
  else: raise ValueError(form)
  return tuple(prog), fd_at


def ping_text (form, n, waiter, hub):
  return "%s, N=%d, next to %s; %s" % (PING_FORMS[form], n, PING_WAITERS[waiter], PING_HUBS[hub])


def run_ping_case (form, n, waiter, hub):
  prog, fd_at = ping_prog(form, n, waiter)
  ctx = Ctx([])
  if hub.startswith("threaded"):
    opts = dict(fd_at); opts["max_steps"] = 8 * n + 200
    if hub.endswith("epoll"): opts["epoll"] = True
    gc.disable()
    try:
      return run_threaded(ctx, prog, opts, HANDOFF, max_points=400 * n + 8000)
    finally:
      gc.collect(); gc.enable()
  return run_inline(ctx, prog, epoll=hub == "epoll", big=dict(fd_at=fd_at, max_steps=8 * n + 200, max_selects=2 * n + 300))


def _ping_worker (item):
  t_cpu = time.process_time()
  rep = Report(PID, "model_checking")
  old = sys.stdout, sys.stderr
  sys.stdout = sys.stderr = _Null()
  pend = set()
  try:
    for form, n, waiter, hub in item:
      w = run_ping_case(form, n, waiter, hub)
      rep.evaluations += 1
      rep.transitions += w.nsteps + (w.nselect if w.mode == "inline" else w.S.points)
      if getattr(w, "harness_error", None):
        rep.error("%s [%s]" % (w.harness_error, ping_text(form, n, waiter, hub)))
      reads = tuple(w.vos.pipes[0].reads)
      pend.update((hub.startswith("threaded"), b) for b, k in reads)
      rep.outcome(("ping", form, n, waiter, hub, reads, w.observation(), tuple(k for k, _ in w.bad)))
      if w.bad:
        _violation(rep, w, dict(part="pinger", form=form, n=n, waiter=waiter, hub=hub))
      elif not rep.samples and n >= PING_READ - 5 and waiter != "none":
        rep.sample(dict(part="wake-up pipe of the hub", program=ping_text(form, n, waiter, hub),
                        reads_of_the_pipe_pending_asked=[list(x) for x in reads[:8]],
                        observed=["%d steps" % w.nsteps] + [l[:300] for l in w.text().split("\n")[-2:]]))
  finally:
    sys.stdout, sys.stderr = old
  rep.extra["programs_pinger"] = rep.evaluations
  rep.extra["cpu_ms_pinger"] = int((time.process_time() - t_cpu) * 1000)
  rep.extra["_pending"] = sorted(pend)
  return rep


def run_ping_part (cfg, rep):
  cases = ping_cases(cfg)
  # the large cases first, one per work item; the small ones in chunks
  cases.sort(key=lambda c: (-c[1], c))
  items = [[c] for c in cases if c[1] > 4 * PING_READ]
  small = [c for c in cases if c[1] <= 4 * PING_READ]
  nchunks = max(1, cfg.workers * 4)
  items += [small[i::nchunks] for i in range(nchunks) if small[i::nchunks]]
  pend = set()
  for r in pmap(_ping_worker, items, cfg.workers, seed=cfg.seed):
    pend.update(r.extra.pop("_pending", ()))
    rep.merge(r)
  def near (thr):
    return sorted(b for t, b in pend if t == thr and (b <= 3 or min(b % PING_READ, PING_READ - b % PING_READ) <= 1))
  return dict(programs=len(cases), forms=PING_FORMS, next_to=PING_WAITERS, hubs=PING_HUBS, forms_with_the_threaded_hub=list(THR_PING_FORMS),
              sizes=ping_sizes(cfg), sizes_at_capacity=ping_sizes(cfg, capacity=True), sizes_threaded=ping_sizes(cfg, threaded=True),
              read_size=PING_READ, pipe_capacity=PIPE_CAPACITY,
              bytes_pending_at_a_read_within_1_of_a_multiple_of_the_read_size=dict(inline=near(False), threaded=near(True)),
              distinct_pending_counts=len(pend))


# ---------------------------------------------------------------------------------------------------
# PART 3: the hub's alternative select function (pox.lib.epoll_select.EpollSelect) against select.select
# ---------------------------------------------------------------------------------------------------
def run_epoll_part (cfg, rep):
  """Every sequence of <= depth calls select(rl, wl, [], 0) on ONE EpollSelect instance (it caches its
  registrations between calls), rl and wl ranging over the subsets of two local stream sockets (one passed as
  an object with fileno(), one as a raw fd), each socket readable or not at each call.  Reference: the standard
  library's select.select on the same arguments at the same moment."""
  import select as _select, socket as _socket
  from pox.lib.epoll_select import EpollSelect
  depth = cfg.pick(2, 3)
  pairs = [_socket.socketpair() for _ in range(2)]
  for a, b in pairs:
    a.setblocking(False); b.setblocking(False)
  objs = [pairs[0][0], pairs[1][0].fileno()]            # what the caller passes
  names = {id(objs[0]): "sockA", objs[1]: "fdB"}
  def name (o): return names.get(id(o), names.get(o, repr(o)))
  def set_readable (i, want):
    local, peer = pairs[i]
    try:
      while True: local.recv(64)
    except (BlockingIOError, InterruptedError):
      pass
    if want: peer.send(b"x")
  subsets = [(), (0,), (1,), (0, 1)]
  calls = [(r, w, rd) for r in subsets for w in subsets for rd in subsets]
  n = 0
  try:
    for d in range(1, depth + 1):
      for seq in itertools.product(calls, repeat=d):
        es = EpollSelect()
        try:
          obs = []
          for k, (r, w, rd) in enumerate(seq):
            for i in (0, 1): set_readable(i, i in rd)
            rl = [objs[i] for i in r]; wl = [objs[i] for i in w]
            want = _select.select(rl, wl, [], 0)
            try:
              got = es.select(rl, wl, [], 0)
            except Exception as e:
              rep.violation("%s:epoll-select:raises:%s" % (PID, type(e).__name__),
                            "EpollSelect.select raised %s: %s in call %d of %r" % (type(e).__name__, e, k + 1, seq),
                            dict(part="epoll", seq=[list(map(list, c)) for c in seq]))
              break
            rep.transitions += 1
            g = tuple(sorted(name(o) for o in got[i]) for i in range(3))
            x = tuple(sorted(name(o) for o in want[i]) for i in range(3))
            obs.append(g)
            if g != x:
              rep.violation("%s:epoll-select:differs-from-select:%s" % (PID, "read" if g[0] != x[0] else "write" if g[1] != x[1] else "except"),
                            "call %d of %r (rl, wl, readable sockets): EpollSelect reports %r, select.select %r" % (k + 1, seq, g, x),
                            dict(part="epoll", seq=[list(map(list, c)) for c in seq]))
              break
          rep.evaluations += 1; n += 1
          rep.outcome(("epoll", tuple(obs)))
          if d == 2 and n % 1000 == 999:
            rep.sample(dict(part="EpollSelect vs select.select", calls_rl_wl_readable=[list(map(list, c)) for c in seq], both_report=[list(map(list, o)) for o in obs]))
        finally:
          es.close()
  finally:
    for a, b in pairs: a.close(); b.close()
  rep.extra["epoll_sequences"] = n
  return depth


# ---------------------------------------------------------------------------------------------------
def run (cfg):
  global _SPACE, _STRIDE, _EPOLL, _HUP
  rep = Report(PID, "model_checking")
  suites = inline_suites(cfg)
  counts = {}
  only = cfg.only
  if only and only.startswith("inline:"):      # debugging aid: a 1/N subsample of the inline programs
    _STRIDE = int(only.split(":")[1]); only = "inline"
    rep.caps.append("debug subsample 1/%d of the inline programs" % _STRIDE)
  one_suite = None
  if only and only.startswith("suite:"):       # debugging aid: one inline suite only (index into inline_suites)
    one_suite = int(only.split(":")[1]); only = "inline"
  if only in (None, "inline"):
    for si, su in enumerate(suites):
      if one_suite is not None and si != one_suite: continue
      name, ops, nent, total, dev = su[:5]
      opts = su[-1] if isinstance(su[-1], dict) else {}
      _EPOLL = bool(opts.get("epoll")); _HUP = bool(opts.get("hup"))
      _SPACE = ProgSpace(ops, nent, total, *[a for a in su[5:] if not isinstance(a, dict)], need_timer=bool(opts.get("need_timer")))
      counts[name] = len(_SPACE)
      nchunks = max(1, cfg.workers * 8)
      items = [(i, nchunks, dev, name) for i in range(nchunks)]
      for r in pmap(_inline_worker, items, cfg.workers, seed=cfg.seed):
        rep.merge(r)
  pts = {}
  del rep.samples[3:]                          # leave room for samples of the other parts
  which = None
  if only and only.startswith("threaded:"):    # debugging aid: one threaded configuration only
    which = int(only.split(":")[1]); only = "threaded"
  if only in (None, "threaded"):
    pts = run_threaded_part(cfg, rep, which)
  del rep.samples[5:]
  ping_bound = None
  if only in (None, "pinger"):
    ping_bound = run_ping_part(cfg, rep)
  epoll_depth = None
  if only in (None, "epoll"):
    epoll_depth = run_epoll_part(cfg, rep)
  rep.state_count = rep.evaluations
  for k in ("cpu_ms_inline", "cpu_ms_threaded", "cpu_ms_pinger"):
    if k in rep.extra: rep.extra[k.replace("cpu_ms", "cpu_s")] = round(rep.extra.pop(k) / 1000.0, 1)
  rep.bound = dict(inline_suites=[dict(name=n, vocabulary=list(o), entities=e, total_yields=t, deviations=d, programs=counts.get(n))
                                  for n, o, e, t, d in [x[:5] for x in suites]],
                   threaded=[dict(funcs="hand-off functions" if f else "every line of recoco.py", deviations=b) for f, b in threaded_configs(cfg)],
                   threaded_programs=["%d: %s%s" % (pi, prog_text(THR_PROGRAMS[pi][0]), "".join("; %s=%r" % kv for kv in sorted((str(k), v) for k, v in THR_PROGRAMS[pi][1].items() if k != "thorough")))
                                      for pi in thr_programs(cfg)],
                   threaded_points=pts, epoll_select_call_sequences_depth=epoll_depth, wake_up_pipe=ping_bound)
  rep.rule = ("PART 1 (inline hub): every ordered tuple of entities within the suites listed under `bound` - an entity is a task "
              "(generator script of <=3 yields over the vocabulary: yield 0 / 0.0 / 1 / -1 / Sleep(2) / Sleep(None) / False / Select([fd],timeout None|1) / "
              "Again or task_function with a sub-task that yields a value | sleeps then yields | raises | returns before yielding | is a plain "
              "function | itself calls an inner sub-task (value, exception caught or not, before/after a sleep) / Sleep(0) and absolute-time Sleeps at now-1, now, now+1 / Send of 20000 or 5 bytes and Recv "
              "(timeout None|1) on the task's fake socket / wake the blocked siblings with schedule() / cancel the timers / Exit() / raise an Exception, SystemExit, "
              "GeneratorExit, KeyboardInterrupt or another non-Exception BaseException / yield a BlockingOperation whose execute() raises an Exception, SystemExit or "
              "other BaseException / Again(sub raising SystemExit)) or a Timer (one-shot, recurring "
              "self-stopping, cancelled before fire, cancelled by its callback, selfStoppable=False, callback taking the interval or longer, callback raising an "
              "Exception / SystemExit, one-shot or recurring; in the Timer-parameter suites: period 0 / 0.0 / 0.5 / 2 instead of 1, one-shot and recurring, the "
              "recurring ones stopped on their 3rd (2nd, 5th) call by the callback returning False / cancelling the timer / with selfStoppable=False, a callback "
              "that takes 0.5 s under a period of 0, absoluteTime=True at now-1 / now / now+1 and with started=False, a zero-period timer with started=False, "
              "callbacks that require the args / kw they were registered with) - run on a real Scheduler.run() with a "
              "virtual clock and virtual select up to the horizon; entity 0 is a Task subclass with priority 0.5, the others Task(target=) with "
              "priority 1, except in the priority suites where every assignment of {1,0.5} to the tasks is enumerated; "
              "environment: fd readiness instant {never,+0.5,+1.5} per selecting/receiving task (all explored; in the epoll-hub suites - thorough: also in a "
              "select-hub suite of the same vocabulary - a fourth fate: the peer hangs up at +0.5 without sending, i.e. select reports the socket readable, recv() "
              "returns b'', epoll reports EPOLLIN|EPOLLHUP whatever it was asked for); deviations (bounded): a run of "
              "1..k high draws of Scheduler._random (k = number of tasks with priority < 1), virtual time per step 0.625 instead of 0, a send() "
              "accepting half / one byte / nothing (EAGAIN) instead of everything, a recv() handing out one byte instead of everything; a program with a raising task is also run with that task returning "
              "instead (differential).  PART 2 (controlled threads): %d programs of the same grammar (listed under bound.threaded_programs) under the "
              "controlled-thread explorer, every schedule within the deviation bound (scheduling points: "
              "lines of the hand-off functions / all lines of recoco.py + every Event/Queue/select/pinger/Thread operation): threaded hub = scheduler thread + "
              "hub thread + an environment thread; inline hub (threaded_selecthub=False, the scheduler thread itself sits in select) and threaded hub with wake-ups "
              "from other threads = the worker thread of `yield CallBlocking(f)` (f returns at once / after 1 s / raises an Exception / raises SystemExit) and foreign threads that call "
              "Scheduler.schedule(blocked task) or Task.start(fast=True|False) of a new task, at once or at +1 s while the hub waits for a timer; an execution in "
              "which work is pending and only a polling timeout (CYCLE_MAXIMUM) or nothing at all could wake the scheduler is a lost wake-up.  PART 3: every sequence "
              "of <=2 (thorough 3) select(rl, wl, [], 0) calls on one EpollSelect (the hub's use_epoll select function), rl/wl over the subsets "
              "of two real local sockets x each readable or not, against select.select.  PART 4 (the hub's wake-up pipe between two idles): large "
              "programs of the same grammar that pile up N wake-up bytes in one busy period - N tasks start()ed at once with fast=True / with fast=False / a task "
              "woken N times by a sibling / N tasks that sleep 1 s / N tasks in a Select with timeout 1 / N one-shot Timers - next to nothing / a sleeper / a task "
              "selecting on an fd / a recurring Timer (quick: the last two only for the start, wake and sleep forms), inline select and epoll hub, N over "
              "0..3 and every value within -5..+1 of each multiple of 512 up to the bound (so that every count of pending bytes within 1 of a multiple of the "
              "pinger's read size 1024 occurs, see bound.wake_up_pipe) and, for the wake form, within -5..+1 of a pipe's capacity (65536); the sleep / Select / Timer "
              "forms also with the threaded hub (select and epoll) under the controlled-thread explorer's default schedule, N in {1, 2} and within -3..+1 of "
              "each multiple of 1024 up to the bound.  In PARTS 1, 2 and 4 the "
              "hub's pinger is the library's own (pox.lib.util.make_pinger -> PipePinger.ping / pongAll / fileno) on a virtual os.pipe (byte count, capacity "
              "65536, blocking ends): a read of the empty pipe / a write to the full one waits for another thread (PART 2: a scheduling point; inline hub on the "
              "calling thread: nobody else can make it proceed, the scheduler hangs).  distinct = distinct (per-entity step "
              "times, received values, final states, verdict)" % len(thr_programs(cfg)))
  rep.assumptions = ["each selecting task has its own fd; an fd stays readable once readable; a socket whose peer hangs up had nothing to read, and no task sends on it",
                     "run() executes on the scheduler's own thread (Scheduler._thread), as in POX",
                     "`yield None` (kills the scheduler by design) and schedule() of a task that waits in the hub are outside the vocabulary",
                     "what a task raises is reported on a working stdout / logger (a failing report channel is not an input)",
                     "cross-thread wake-ups: one waker per blocked task (fast_schedule() of the same task from two threads is documented as racy); "
                     "callLater and several threads waking the same task are C07's subject",
                     "threaded part: modelled Event/Queue/select semantics of mc/thr.py, CPython-atomic deque/dict operations, "
                     "no partial-order reduction (counts are schedules)",
                     "the wake-up pipe is a model of a Linux pipe: capacity 65536 bytes, one-byte writes are never partial, both ends blocking unless "
                     "os.set_blocking() says otherwise (then EAGAIN); os.name is 'posix' (the socket-pair pinger of other platforms is not exercised)",
                     "a recurring Timer of period 0 is observed until its callback stops it (3 or 5 calls); virtual time passes only where a step or a callback "
                     "is scripted to take time"]
  return rep


def replay_epoll (data):
  import select as _select, socket as _socket
  from pox.lib.epoll_select import EpollSelect
  pairs = [_socket.socketpair() for _ in range(2)]
  for a, b in pairs: a.setblocking(False); b.setblocking(False)
  objs = [pairs[0][0], pairs[1][0].fileno()]
  nm = lambda o: "sockA" if o is objs[0] else "fdB"
  es = EpollSelect(); lines = []; bad = False
  try:
    for r, w, rd in data["seq"]:
      for i in (0, 1):
        try:
          while True: pairs[i][0].recv(64)
        except (BlockingIOError, InterruptedError): pass
        if i in rd: pairs[i][1].send(b"x")
      rl = [objs[i] for i in r]; wl = [objs[i] for i in w]
      want = tuple(sorted(map(nm, x)) for x in _select.select(rl, wl, [], 0))
      try: got = tuple(sorted(map(nm, x)) for x in es.select(rl, wl, [], 0))
      except Exception as e: got = "raised %s: %s" % (type(e).__name__, e)
      lines.append("select(rl=%r, wl=%r) with readable=%r: EpollSelect %r, select.select %r" % ([nm(o) for o in rl], [nm(o) for o in wl], rd, got, want))
      if got != want: bad = True; break
  finally:
    es.close()
    for a, b in pairs: a.close(); b.close()
  return bad, "\n".join(lines)


def replay (cfg, data):
  if data.get("part") == "epoll": return replay_epoll(data)
  if data.get("part") == "pinger":
    old = sys.stdout, sys.stderr
    sys.stdout = sys.stderr = _Null()
    try:
      w = run_ping_case(data["form"], data["n"], data["waiter"], data["hub"])
    finally:
      sys.stdout, sys.stderr = old
    lines = w.text().split("\n")
    return bool(w.bad), "\n".join([ping_text(data["form"], data["n"], data["waiter"], data["hub"]),
                                   "  reads of the wake-up pipe (bytes pending, bytes asked for): %r" % (w.vos.pipes[0].reads[:16],),
                                   "  %d steps" % w.nsteps] + [l[:400] for l in lines[-3:]]) + "\n=> %r" % (w.bad,)
  prog = _prog_from_json(data["prog"])
  old = sys.stdout, sys.stderr
  sys.stdout = sys.stderr = _Null()
  gc.disable()
  try:
    ctx = Ctx(list(data["choices"]))
    if data.get("part") == "threaded":
      funcs = data.get("funcs")
      w = run_threaded(ctx, prog, data["fd_at"], None if funcs is None else tuple(funcs))
      dev = [(i, t[2], t[0]) for i, t in enumerate(ctx.trace) if t[0]]
      extra = ("inline hub on a scheduler thread, wake-ups from other threads" if data["fd_at"].get("inline") else "threaded hub") + "; schedule deviations (choice index, at, thread picked): %r" % (dev,)
    else:
      w = run_inline_checked(ctx, prog, bool(data.get("epoll")), bool(data.get("hup")))
      extra = "inline hub%s; environment deviations: %r" % (" (epoll)" if data.get("epoll") else "", [(l, c) for l, c in ctx.labelled() if c])
  finally:
    gc.enable()
    sys.stdout, sys.stderr = old
  return bool(w.bad), w.text() + "\n" + extra + "\n=> %r" % (w.bad,)
