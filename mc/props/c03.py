"""C03 - flow match and lookup semantics agree with OpenFlow 1.0.

E-enum over (match, frame) pairs and E-seq over small tables, on a real SoftwareSwitch behind the byte-level
connection (mc.env.SwitchStack).  Every match travels as a real OFPT_FLOW_MOD built with mc/refs/ofwire.py -
raw 40-byte ofp_match structures, so wildcarded fields may (and do) carry non-zero garbage - every frame is
injected with SwitchStack.rx(), and the only observable is what the switch does with the frame: it leaves on the
entry's own output port, or it goes to the controller as a packet-in.

Oracle: mc/refs/refmatch.py extracts the twelve fields from the frame bytes as the specification prescribes,
mc/props/c04.ref_match turns the wire match into the set of participating fields (not wildcarded, protocol
prerequisites specified), mc/refs/reftable.matches compares (addresses under the prefix).  Lookup: the frame must
leave through an entry of maximal effective priority among the matching ones (an entry whose wildcards word is 0
on the wire outranks every wildcarded one), and may go to the controller only when no entry matches.

  part A  all 2^10 wildcard-bit words x nw_src/nw_dst counters x field vectors around each corpus frame
  part P  prefix lattice: every pair of nw_src/nw_dst wildcard counters in {0,1,8,24,31,32,63} x address bit flips
  part B  all tables of <= N entries over an alphabet of overlapping matches x priorities, all insertion orders
  part H  lookup histories: all ordered pairs (thorough: triples) of frames, incl. near-collision variants of the corpus
          frames, looked up back to back in one table with no table change in between; differential against a fresh switch;
          packet-out [set_vlan_vid / set_vlan_pcp / strip_vlan ..., output:TABLE]: the lookup of the frame the datapath
          re-tagged itself must pick what the reference picks for the re-tagged BYTES (mc/refs/refmatch.retag)
  part X  for every frame of the corpus, the near-collision variants and the boundary frames (mc/refs/refmatch.boundary_frames:
          type/length 0x05dc / 0x0600 / 0x0601, vid 0xfff, ToS 0xff, IHL 6 / 15, DF, fragment offsets 1 / 0x1fff, ports 0 / 65535,
          ARP opcode 255 / 256 ...): a match on each single field and the exact match, plus matches on the constants themselves,
          each probed with ALL frames; every corpus frame also CUT at each header boundary -1/+0/+1 (802.3 frames at every
          length from no payload to past the SNAP header): probed with the matches of the parent frame, of its own still
          readable fields, the constants and the catch-all - only matches whose participating fields lie in headers the cut
          frame still has completely are asserted (a runt 802.3 frame is dl_type 0x05ff)
  reads   parts A and P (the matches probed with every frame), X (every match, a second time) and H (every table, between two
          rounds of lookups): read-only requests - flow stats, filtered flow stats, aggregate, table, desc stats, barrier - are
          sent between the flow-mod and the lookups; reading state must not change matching
  part O  packet OBJECTS assembled with the pox.lib.packet constructors (never parsed), own / no / new VLAN tag, handed to
          rx_packet: looked up like their packed bytes and like the reference says for those bytes
  part V  value domains (mc/refs/c03_domains.py): a header field runs through its WHOLE domain in the frame and in the match - IP
          protocol 0..255, ARP opcode 0..255 (+ wide opcodes), ToS byte 0..255, ICMP type / code 0..255, VLAN id bits x priority x
          CFI, TCP/UDP port bits and the ports that have payload parsers, registered Ethernet types; for each frame: the match on
          the field alone (prerequisites specified), on a neighbouring value, with the deeper-layer wildcard bits CLEAR (zeros /
          frame's values or garbage in them: what a foreign controller sends for ignored fields), the exact match (zeros / garbage
          in fields the frame lacks); probed with the frame, its neighbour in the domain and a TCP frame; the exact matches also
          at priority 1 under a catch-all entry of priority 0xffff
  part E  exactness lattice: for six frames (TCP, VLAN/UDP, ICMP, GRE, ARP, non-IP) the exact match of the frame weakened by every
          single wildcard "atom" - each wildcard bit, each nw_src / nw_dst counter 1..63 - and by combinations of them, paired with
          a catch-all entry (and with the exact match) at a higher / lower priority, in both insertion orders: an entry that has
          any wildcard the specification would honour ranks by its priority field, only the wildcards word 0 outranks; entries whose
          only wildcard bits sit on protocol-ignored fields may rank either way (statement silent).  The same walk gives every
          prefix length 0..63 on each address a single-entry matching check (bit just inside / just below the prefix flipped)
  part N  header fields the extraction does NOT depend on (mc/refs/c03_invariant.py): every frame kind with ONE header field that is
          neither a match field nor consulted by the parsing of section 3.4 run through its boundary values - IP total length (as
          a delimiter of the datagram: headers beyond it are left open), identification, reserved / DF flag, TTL, header checksum,
          the content of the IP option area for every header length; TCP sequence / ack numbers, reserved bits, every control flag,
          window, checksum, urgent pointer, every data offset 0..15 (below 5 / past the datagram: transport fields left open), every
          kind of well-formed and malformed TCP option area for each header length; UDP length field (0, below 8, off by one,
          maxima) and checksum; ICMP checksum and everything behind the first four bytes (absent, partial, quoted datagrams of every
          quality); ARP hardware addresses (and foreign hardware / protocol types and lengths: network fields left open); the 802.3
          length value; padding / trailers behind every kind of frame; UDP payloads no format describes on the ports packet
          libraries have parsers for; a tag in front of an 802.3 length or of a second tag (only addresses and VLAN fields
          asserted).  Each derived frame is probed with the single-field matches (frame's value / differing value), the exact match
          and the catch-all of its parent and must be treated as the parent is.  Plus the value domain `ethpayload` in part V:
          every registered Ethernet type other than IPv4 / ARP / 802.1Q in front of an ARP body (RARP), a cut IPv4 header, one
          byte, nothing
"""
import itertools, os, traceback
from mc.engine import pmap
from mc.report import Report
from mc.refs import ofwire as W
from mc.refs import refmatch as R
from mc.refs import c03_domains as D
from mc.refs import c03_invariant as I
from mc.refs.reftable import matches as ref_matches, _mask
from mc.props.c04 import ref_match        # wire match (parsed) -> reference dict with the prerequisite rule

PID = "C03"
FIELDS = R.FIELDS
BIT = dict(in_port=W.OFPFW_IN_PORT, dl_vlan=W.OFPFW_DL_VLAN, dl_src=W.OFPFW_DL_SRC, dl_dst=W.OFPFW_DL_DST,
           dl_type=W.OFPFW_DL_TYPE, nw_proto=W.OFPFW_NW_PROTO, tp_src=W.OFPFW_TP_SRC, tp_dst=W.OFPFW_TP_DST,
           dl_vlan_pcp=W.OFPFW_DL_VLAN_PCP, nw_tos=W.OFPFW_NW_TOS)
BIT_ORDER = ("in_port", "dl_vlan", "dl_src", "dl_dst", "dl_type", "nw_proto", "tp_src", "tp_dst", "dl_vlan_pcp", "nw_tos")
SHIFT = dict(nw_src=W.OFPFW_NW_SRC_SHIFT, nw_dst=W.OFPFW_NW_DST_SHIFT)
COUNTERS = (0, 1, 8, 24, 31, 32, 63)
FLIPS_ALL = (0, 1, 7, 8, 23, 24, 30, 31)
OUT = 5                    # first output port used by entries; frames arrive on ports 1..3
NPORTS = 8
# what wildcarded / inapplicable fields carry in "garbage" mode when the frame has no such field
GARBAGE = dict(nw_tos=0x54, nw_proto=6, nw_src=0x0b0c0d0e, nw_dst=0x15161718, tp_src=0x2122, tp_dst=0x3132)
ZERO = dict((f, 0) for f in FIELDS); ZERO["dl_src"] = ZERO["dl_dst"] = b"\0" * 6


def word (mask, cs, cd):
  w = 0
  for i, f in enumerate(BIT_ORDER):
    if (mask >> i) & 1: w |= BIT[f]
  return w | (cs << W.OFPFW_NW_SRC_SHIFT) | (cd << W.OFPFW_NW_DST_SHIFT)


def wire_specified (pm, f):
  w = pm["wildcards"]
  if f in SHIFT: return ((w >> SHIFT[f]) & 0x3f) < 32
  return not (w & BIT[f])


def build (w, vec, clean=False, masked=False):
  """The 40 wire bytes.  clean: wildcarded fields are zeroed the way a tidy controller would;
  masked: address bits below the prefix are zeroed (otherwise they carry whatever the vector has)."""
  if clean or masked: vec = dict(vec)
  if clean:
    for f in FIELDS:
      if not wire_specified(dict(wildcards=w), f): vec[f] = ZERO[f]
  if masked:
    for f, sh in SHIFT.items(): vec[f] &= _mask(32 - ((w >> sh) & 0x3f))
  return W.match(wildcards=w, **vec)


# ---------------------------------------------------------------------------------------------
# value vectors around a frame
# ---------------------------------------------------------------------------------------------
def base_vector (fr):
  fields, app = R.extract(fr.data, fr.in_port)
  v = dict(fields)
  for f in FIELDS:
    if f not in app: v[f] = GARBAGE[f]
  return v


def alternatives (f, v, fr, flips):
  if f == "in_port": return [v % 3 + 1]
  if f == "dl_src": return [bytes.fromhex("02cc00000003")]
  if f == "dl_dst": return [bytes.fromhex("02dd00000004")]
  if f == "dl_vlan": return [0x0123, 0] if v == 0xffff else [0xffff, v ^ 1]
  if f == "dl_vlan_pcp": return [(v + 1) & 7]
  if f == "dl_type": return {0x0800: [0x0806, 0x88b6], 0x0806: [0x0800, 0x88b6]}.get(v, [0x0800, 0x0806])
  if f == "nw_tos": return [v ^ 0x40]
  if f == "nw_proto":
    if fr.want["dl_type"] == 0x0806: return [(v % 2) + 1, 6]
    return {6: [17, 47], 17: [6, 47], 1: [6, 47]}.get(v, [6, 1])
  if f in ("nw_src", "nw_dst"): return [v ^ (1 << b) for b in flips]
  if f == "tp_src": return [v ^ 0x0100]
  if f == "tp_dst": return [v ^ 0x0001]
  raise KeyError(f)


def singles (fr, v0, flips):
  return [(f, a) for f in FIELDS for a in alternatives(f, v0[f], fr, flips)]


# frames that differ from another corpus frame in one header detail only; the quick tier installs only their undeviated vectors
VARIANTS = ("tcp-ecn", "ip-opts", "vlan-cfi-udp", "frag-later", "arp-wide-opcode")

def part_a_matches (fr, thorough, chunk, nchunks):
  """Yields (wire bytes, cross-probe?) for the slice `chunk` of the 2^10 wildcard-bit masks."""
  v0 = base_vector(fr)
  S = singles(fr, v0, (0, 31))
  if not thorough and fr.name in VARIANTS: S = []
  pairs = [(a, b) for a, b in itertools.combinations(S, 2) if a[0] != b[0]] if thorough else []
  cps = [(0, 0), (32, 32), (0, 32), (32, 0)] if thorough else [(0, 0), (32, 32)]
  for mask in range(chunk, 1024, nchunks):
    for ci, (cs, cd) in enumerate(cps):
      w = word(mask, cs, cd)
      yield build(w, v0), True
      yield build(w, v0, clean=True), thorough
      for f, a in S:
        v = dict(v0); v[f] = a
        yield build(w, v), (thorough and ci < 1)
      if ci < 2:
        for (f, a), (g, b) in pairs:
          v = dict(v0); v[f] = a; v[g] = b
          yield build(w, v), False


def part_p_matches (fr, thorough):
  v0 = base_vector(fr)
  fs = [("nw_src", a) for a in alternatives("nw_src", v0["nw_src"], fr, FLIPS_ALL)]
  fd = [("nw_dst", a) for a in alternatives("nw_dst", v0["nw_dst"], fr, FLIPS_ALL)]
  others = sum(1 << i for i, f in enumerate(BIT_ORDER) if f not in ("dl_type", "nw_proto"))
  t_i, p_i = BIT_ORDER.index("dl_type"), BIT_ORDER.index("nw_proto")
  masks = [a | (b << t_i) | (c << p_i) for a in ((0, others) if thorough else (0,)) for b in (0, 1) for c in (0, 1)]
  for mask in masks:
    for cs in COUNTERS:
      for cd in COUNTERS:
        w = word(mask, cs, cd)
        yield build(w, v0), thorough
        yield build(w, v0, clean=True), False
        yield build(w, v0, masked=True), True
        for f, a in fs + fd:
          v = dict(v0); v[f] = a
          yield build(w, v), False
          yield build(w, v, masked=True), False
        if thorough:
          for (f, a) in fs:
            for (g, b) in fd:
              v = dict(v0); v[f] = a; v[g] = b
              yield build(w, v), False
              yield build(w, v, masked=True), False


# ---------------------------------------------------------------------------------------------
# the real switch
# ---------------------------------------------------------------------------------------------
def _site (exc):
  """file basename : function : exception type of the innermost frame inside the pox package."""
  tb = traceback.extract_tb(exc.__traceback__)
  best = None
  for fr in tb:
    if "/pox/" in fr.filename: best = fr
  if best is None: best = tb[-1]
  return "%s:%s:%s" % (os.path.basename(best.filename), best.name, type(exc).__name__)


_STACK = []
def _stack_class ():
  """SwitchStack whose DpPacketOut listener records the port only: the frame bytes that leave are C12's business,
  and re-serialising the packet inside the listener would drag the packet library's pack() into this check."""
  if not _STACK:
    from mc.env import SwitchStack
    class PortOnlyStack (SwitchStack):
      def _on_out (self, e): self.out.append((e.port.port_no, None))
    _STACK.append(PortOnlyStack)
  return _STACK[0]


class Sw (object):
  def __init__ (self):
    self.calls = 0
    self.resets = -1
    self.reset()

  def reset (self):
    self.st = _stack_class()(dpid=1, ports=NPORTS, max_buffers=0)
    self.xid = 0x100
    self.resets += 1

  def install (self, mbytes, prio=0x8000, port=OUT):
    """ADD over the wire.  Returns None when the switch accepted silently."""
    self.xid += 1; self.calls += 1
    try:
      self.st.feed(W.flow_mod(self.xid, mbytes, W.OFPFC_ADD, W.a_output(port), priority=prio))
    except Exception as e:
      return ("raise", _site(e))
    d = self.st.drain()
    if d:
      msgs, rest = W.split(d)
      ds = [W.decode(m) for m in msgs]
      return ("refused", tuple((x["t"], x.get("etype"), x.get("code")) for x in ds))
    return None

  def clear (self):
    self.xid += 1; self.calls += 1
    try:
      self.st.feed(W.flow_mod(self.xid, W.match(), W.OFPFC_DELETE))
      self.st.drain(); self.st.take_out()
      if len(self.st.sw.table) == 0: return
    except Exception:
      pass
    self.reset()

  def probe (self, data, in_port):
    return self._observe(lambda: self.st.rx(data, in_port), in_port)

  def probe_object (self, packet, in_port):
    """Hand the datapath a packet OBJECT that was not produced by parsing bytes (what in-process links, components
    and the datapath's own actions do)."""
    return self._observe(lambda: self.st.sw.rx_packet(packet, in_port), in_port)

  def packet_out (self, actions, data, in_port):
    self.xid += 1
    return self._observe(lambda: self.st.feed(W.packet_out(self.xid, actions, data, in_port=in_port)), in_port)

  READS = ("flow-stats", "flow-stats-filtered", "aggregate-stats", "table-stats", "desc-stats", "barrier")
  def read (self, kinds=None):
    """Read-only controller requests (nothing in them asks the switch to change anything).  Returns None, or
    ("raise", site) if one of them escaped the switch; the replies are C13's business and are dropped."""
    for k in (kinds or self.READS):
      self.xid += 1; self.calls += 1
      if k == "flow-stats": b = W.stats_request(self.xid, W.OFPST_FLOW, W.flow_stats_body())
      elif k == "flow-stats-filtered": b = W.stats_request(self.xid, W.OFPST_FLOW, W.flow_stats_body(W.match_fields(dl_type=0x0800)))
      elif k == "aggregate-stats": b = W.stats_request(self.xid, W.OFPST_AGGREGATE, W.flow_stats_body())
      elif k == "table-stats": b = W.stats_request(self.xid, W.OFPST_TABLE)
      elif k == "desc-stats": b = W.stats_request(self.xid, W.OFPST_DESC)
      else: b = W.barrier_request(self.xid)
      try:
        self.st.feed(b)
      except Exception as e:
        self.st.drain(); return ("raise", _site(e))
      self.st.drain()
    return None

  def _observe (self, do, in_port):
    self.calls += 1
    try:
      do()
    except Exception as e:
      return ("raise", _site(e))
    outs = tuple(p for p, f in self.st.take_out())
    msgs, rest = W.split(self.st.drain())
    ds = [W.decode(m) for m in msgs]
    if outs and not ds and not rest: return ("out", outs)
    if not outs and len(ds) == 1 and not rest and ds[0]["type"] == W.PACKET_IN \
       and ds[0]["in_port"] == in_port and ds[0]["reason"] == W.OFPR_NO_MATCH:
      return ("miss",)
    return ("odd", outs, tuple(d["t"] for d in ds))


# ---------------------------------------------------------------------------------------------
# single-entry matching (parts A and P)
# ---------------------------------------------------------------------------------------------
def differs (pm, f, fields, app):
  """Does the wire value of field f differ from what the frame carries (under the wire prefix)?"""
  if f not in app: return True
  if f in SHIFT:
    k = _mask(32 - ((pm["wildcards"] >> SHIFT[f]) & 0x3f))
    return (pm[f] & k) != (fields[f] & k)
  return pm[f] != fields[f]


def prereq_reason (pm, f):
  w = pm["wildcards"]
  if w & BIT["dl_type"]: return "dl_type-wildcarded"
  if f in ("nw_tos", "nw_proto", "nw_src", "nw_dst"):
    return "dl_type-is-arp" if pm["dl_type"] == 0x0806 else "dl_type-not-ip-arp"
  if pm["dl_type"] != 0x0800: return "dl_type-not-ip"
  if w & BIT["nw_proto"]: return "nw_proto-wildcarded"
  return "nw_proto-not-tcp-udp-icmp"


def host_bits (pm, m):
  """Participating address fields whose wire value has non-zero bits below the prefix."""
  out = []
  for f, sh in SHIFT.items():
    if f in m and pm[f] & ~_mask(32 - ((pm["wildcards"] >> sh) & 0x3f)) & 0xffffffff: out.append(f)
  return out


def zero_host_bits (mbytes):
  pm = W.parse_match(mbytes)
  w = pm.pop("wildcards")
  for f, sh in SHIFT.items(): pm[f] &= _mask(32 - ((w >> sh) & 0x3f))
  return W.match(wildcards=w, **pm)


def widen (mbytes, fields_to_wildcard):
  pm = W.parse_match(mbytes)
  w = pm.pop("wildcards")
  for f in fields_to_wildcard:
    if f in SHIFT: w = (w & ~(0x3f << SHIFT[f])) | (32 << SHIFT[f])
    else: w |= BIT[f]
  return W.match(wildcards=w, **pm)


def key_frame (fr):
  """Frame name as used in violation keys: all cuts of one frame share a name (the length is in the replay)."""
  i = fr.name.find("[:")
  if i >= 0: return fr.name[:i] + "[cut]"
  j = fr.name.find(".")                     # a frame derived from a parent by varying one header field: the family (part N)
  if 0 <= j < fr.name.find("["): return fr.name[j+1:fr.name.find("[")] + "[*]"
  i = fr.name.find("[")                     # a frame of a value domain: the value is in the replay
  return fr.name if i < 0 else fr.name[:i] + "[*]"


class Checker (object):
  def __init__ (self, rep, frames=None):
    self.rep = rep
    self.sw = Sw()
    self.frames = frames or R.corpus()
    self.ext = dict((fr.name, R.extract(fr.data, fr.in_port)) for fr in self.frames)
    self.blame_memo = {}
    self.diag_memo = {}
    self.n = 0

  def hits (self, mbytes, fr):
    """One throw-away experiment on the real switch: does the frame hit an entry with this match?"""
    self.sw.clear()
    if self.sw.install(mbytes) is not None: self.sw.reset(); return None
    r = self.sw.probe(fr.data, fr.in_port)
    self.rep.transitions += 2
    self.sw.clear()
    # (an exception out of rx counts as "no longer a plain miss": these experiments only name a violation)
    return r == ("out", (OUT,)) or r[0] == "raise"

  def blame (self, mbytes, pm, m, fr):
    """Which wire-specified field makes the real switch miss?  Greedy 1-minimal set of fields whose wildcarding
    turns the miss into a hit; the first of them (canonical order) names the violation."""
    spec = [f for f in FIELDS if wire_specified(pm, f)]
    mk = (fr.name, tuple(spec))
    if mk in self.blame_memo: return self.blame_memo[mk]
    cur = list(spec)
    if not self.hits(widen(mbytes, cur), fr):
      res = "none"
    else:
      for f in spec:
        trial = [g for g in cur if g != f]
        if self.hits(widen(mbytes, trial), fr): cur = trial
      res = cur[0] if cur else "none"
    self.blame_memo[mk] = res
    return res

  def check_match (self, mbytes, probes, read=False):
    """read=True: the read-only requests of Sw.READS are sent between the installation and the lookups
    (reading state must not change matching)."""
    rep, sw = self.rep, self.sw
    pm = W.parse_match(mbytes)
    m = ref_match(pm)
    part = tuple(sorted(m))
    r = sw.install(mbytes)
    rep.transitions += 1
    rep.state_count += 1
    if r is not None:
      rep.evaluations += 1
      rep.outcome(("install", part, r))
      key = "%s:install:%s" % (PID, r[1] if r[0] == "raise" else "refused")
      rep.violation(key, "flow-mod ADD with match %s: %r" % (mbytes.hex(), r), dict(kind="match", match=mbytes.hex(),
                    frame=probes[0].name))
      sw.reset(); return
    if read:
      rep.transitions += len(sw.READS)
      r = sw.read()
      if r is not None:
        rep.violation("%s:read:raises:%s" % (PID, r[1]), "read-only requests with match %s installed raised %s" % (mbytes.hex(), r[1]),
                      dict(kind="match", match=mbytes.hex(), frame=probes[0].name, read=True))
        sw.reset(); return
    redo = []
    for fr in probes:
      if fr.defined is not None and not set(m) <= fr.defined: continue      # the match looks at a header this frame was cut in
      fields, app = self.ext[fr.name]
      want = ref_matches(m, fields)
      got = sw.probe(fr.data, fr.in_port)
      rep.evaluations += 1; rep.transitions += 1
      rep.outcome((fr.name, part, got))
      self.n += 1
      if self.n % 50000 == 1:
        rep.sample(dict(match=mbytes.hex(), participating=list(part), frame=fr.name, in_port=fr.in_port,
                        reference="match" if want else "no match", switch=list(got)))
      if (want and got == ("out", (OUT,))) or (not want and got == ("miss",)): continue
      if got[0] == "raise":
        # rx_packet keeps no state besides counters: the entry is still installed, go on with the next frame
        self.report(mbytes, fr, "raises:" + got[1], "rx of frame %s with match %s installed raised %s" % (fr.name, mbytes.hex(), got[1]))
        continue
      redo.append((fr, want, got))
    sw.clear()
    for fr, want, got in redo:         # classification may need experiments of its own: table is free now
      if read and self.blame_read(mbytes, m, fr, want, got): continue
      self.classify(mbytes, pm, m, fr, want, got)

  def blame_read (self, mbytes, m, fr, want, got):
    """Is the wrong lookup the work of a read-only request?  (Right without the reads; then: which request alone does it.)"""
    ok = ("out", (OUT,)) if want else ("miss",)
    def lookup (kinds):
      self.sw.clear()
      if self.sw.install(mbytes) is not None: self.sw.reset(); return None
      if kinds: self.sw.read(kinds)
      r = self.sw.probe(fr.data, fr.in_port)
      self.rep.transitions += 2 + len(kinds)
      self.sw.clear()
      return r
    if lookup(()) != ok: return False
    culprit = next((k for k in self.sw.READS if lookup((k,)) != ok), "combination")
    self.rep.violation("%s:read:lookup-changed-by:%s" % (PID, culprit),
                       "match %s (participating fields %s), frame %s on port %d: %r right after the flow-mod, but %r once the controller "
                       "has sent a %s request (no flow-mod in between); the specification says %s"
                       % (mbytes.hex(), ",".join(sorted(m)) or "none", fr.name, fr.in_port, ok, got, culprit, "match" if want else "no match"),
                       dict(kind="match", match=mbytes.hex(), frame=fr.name, read=True))
    return True

  def report (self, mbytes, fr, clause, what):
    self.rep.violation("%s:%s" % (PID, clause), what, dict(kind="match", match=mbytes.hex(), frame=fr.name))

  def classify (self, mbytes, pm, m, fr, want, got):
    fields, app = self.ext[fr.name]
    desc = "match %s (participating fields %s) against frame %s on port %d" % (mbytes.hex(), ",".join(sorted(m)) or "none",
                                                                                fr.name, fr.in_port)
    if got[0] == "odd" or (got[0] == "out" and got[1] != (OUT,)):
      self.report(mbytes, fr, "match:odd-observation:out=%s:msgs=%s" % ("+".join(map(str, got[1])) or "none",
                  "+".join(got[2]) if got[0] == "odd" else "none"),
                  "%s: neither exactly one output on port %d nor exactly one packet-in: %r" % (desc, OUT, got))
    elif want:
      # reference: all participating fields agree.  Is a field the specification ignores being compared?
      ign = [f for f in FIELDS if f not in m and wire_specified(pm, f)]
      hb = host_bits(pm, m)
      sig = (fr.name, tuple(sorted(m)), tuple(ign), tuple(hb))
      if sig in self.diag_memo: c_ign, c_hb = self.diag_memo[sig]
      else:
        c_ign = c_hb = False
        if ign and self.hits(widen(mbytes, ign), fr): c_ign = True
        elif hb and self.hits(zero_host_bits(mbytes), fr): c_hb = True
        elif ign and hb and self.hits(zero_host_bits(widen(mbytes, ign)), fr): c_ign = c_hb = True
        self.diag_memo[sig] = (c_ign, c_hb)
      if c_ign:
        self.report(mbytes, fr, "match:false-miss:ignored-field-compared:%s" % prereq_reason(pm, ign[0]),
                    "%s: specification says match (%s carried in the structure but ignored: %s), switch sent a packet-in; "
                    "wildcarding those fields on the wire makes the switch match" % (desc, ",".join(ign), prereq_reason(pm, ign[0])))
      if c_hb:
        self.report(mbytes, fr, "match:false-miss:address-bits-below-prefix-compared",
                    "%s: %s equal(s) the frame's under the prefix mask but carries non-zero bits below the prefix, switch sent a "
                    "packet-in; zeroing those bits on the wire makes the switch match" % (desc, ",".join(hb)))
      if not (c_ign or c_hb):
        f = self.blame(mbytes, pm, m, fr)
        self.report(mbytes, fr, "match:false-miss:frame=%s:field=%s" % (key_frame(fr), f),
                    "%s: every participating field equals the frame's, switch sent a packet-in; wildcarding %s makes it match "
                    "(frame carries %s=%r)" % (desc, f, f, fields.get(f)))
    else:
      d = [f for f in FIELDS if f in m and differs(pm, f, fields, app)] or ["unknown"]
      self.report(mbytes, fr, "match:false-hit:frame=%s:field=%s" % (key_frame(fr), d[0]),
                  "%s: %s differ(s) from the frame (frame %s=%r, match %r) yet the switch forwarded it"
                  % (desc, ",".join(d), d[0], fields.get(d[0]), pm.get(d[0])))


def _finish (ck):
  ck.rep.extra["switch_rebuilds"] = ck.sw.resets
  return ck.rep


def _work_a (item):
  from mc.env import boot
  boot()
  _, bi, chunk, nchunks, thorough = item
  ck = Checker(Report(PID, "model_checking"))
  base = ck.frames[bi]
  others = [base] + [f for f in ck.frames if f is not base]
  seen = set()
  for mbytes, cross in part_a_matches(base, thorough, chunk, nchunks):
    if mbytes in seen: continue
    seen.add(mbytes)
    ck.check_match(mbytes, others if cross else [base], read=cross)
  return _finish(ck)


def _work_p (item):
  from mc.env import boot
  boot()
  _, bi, thorough = item
  ck = Checker(Report(PID, "model_checking"))
  base = ck.frames[bi]
  others = [base] + [f for f in ck.frames if f is not base]
  seen = set()
  for mbytes, cross in part_p_matches(base, thorough):
    if mbytes in seen: continue
    seen.add(mbytes)
    ck.check_match(mbytes, others if cross else [base], read=cross)
  return _finish(ck)


# ---------------------------------------------------------------------------------------------
# lookup over tables (part B)
# ---------------------------------------------------------------------------------------------
def lookup_alphabet ():
  fr = dict((f.name, f) for f in R.corpus())
  def exact (name):
    f = fr[name]
    return W.match(wildcards=0, **R.extract(f.data, f.in_port)[0])
  return [
    ("exact-tcp", exact("tcp")),
    ("all", W.match()),
    ("dl_dst", W.match_fields(dl_dst=R.MB)),
    ("nw_dst/24", W.match_fields(dl_type=0x0800, nw_dst=(R.IPB & 0xffffff00, 24))),
    ("nw_dst/16", W.match_fields(dl_type=0x0800, nw_dst=(R.IPB & 0xffff0000, 16))),
    ("in_port", W.match_fields(in_port=1)),
    ("exact-arp", exact("arp-req")),
    ("exact-other", exact("other")),
    ("exact-gre", exact("ip-gre")),
  ]
PRIORITIES = (1, 2, 0xffff)


class LookupChecker (object):
  def __init__ (self, rep, alphabet=None, frames=None):
    self.rep = rep
    self.sw = Sw()
    self.frames = frames or R.corpus()
    self.ext = dict((fr.name, R.extract(fr.data, fr.in_port)[0]) for fr in self.frames)
    self.alpha = dict(alphabet or lookup_alphabet())
    self.ref = {}
    for mid, mb in self.alpha.items():
      pm = W.parse_match(mb)
      self.ref[mid] = (ref_match(pm), R.wire_exact(pm))
    # which alphabet matches each frame matches does not depend on the table
    self.hit = dict(((mid, fr.name), ref_matches(self.ref[mid][0], self.ext[fr.name]))
                    for mid in self.alpha for fr in self.frames)
    self.n = 0
    self.single = None
    self.single_memo = {}

  def entry_misjudged (self, mid, fr):
    """Does the real switch, with this entry ALONE in the table, already disagree with the reference about this frame?
    Then the defect is one of matching, reported under the match clauses, and says nothing about lookup order."""
    k = (mid, fr.name)
    if k not in self.single_memo:
      if self.single is None: self.single = Checker(self.rep, self.frames)
      before = sum(v["count"] for v in self.rep.violations.values())
      self.single.check_match(self.alpha[mid], [fr])
      self.single_memo[k] = sum(v["count"] for v in self.rep.violations.values()) != before
    return self.single_memo[k]

  def check_table (self, seq, frames=None, keep=False):
    """seq: tuple of (match id, priority); entry i outputs to port OUT+i.  Returns {frame name: observation}
    (None when the table could not be installed); keep=True leaves the table installed."""
    rep, sw = self.rep, self.sw
    seen = {}
    table = []                 # reference table: (mid, prio, port)
    rep.state_count += 1
    for i, (mid, prio) in enumerate(seq):
      r = sw.install(self.alpha[mid], prio, OUT + i)
      rep.transitions += 1
      if r is not None:
        rep.violation("%s:install:%s" % (PID, r[1] if r[0] == "raise" else "refused"), "ADD %s priority %d: %r" % (mid, prio, r),
                      dict(kind="lookup", entries=[list(e) for e in seq], frame=self.frames[0].name))
        sw.reset(); return None
      table = [e for e in table if (e[0], e[1]) != (mid, prio)] + [(mid, prio, OUT + i)]
    byport = dict((e[2], e) for e in table)
    for fr in (frames or self.frames):
      ms = [e for e in table if self.hit[(e[0], fr.name)]]
      eff = lambda e: (1 << 16) + 1 if self.ref[e[0]][1] else e[1]
      top = max(eff(e) for e in ms) if ms else None
      cands = [e for e in ms if eff(e) == top]
      got = sw.probe(fr.data, fr.in_port)
      rep.evaluations += 1; rep.transitions += 1
      gote = byport.get(got[1][0]) if got[0] == "out" and len(got[1]) == 1 else None
      seen[fr.name] = got
      rep.outcome((fr.name, tuple(sorted((e[0], e[1]) for e in cands)), (gote[0], gote[1]) if gote else got))
      self.n += 1
      if self.n % 40000 == 1:
        rep.sample(dict(table=[list(e) for e in seq], frame=fr.name, allowed=[[e[0], e[1]] for e in cands] or "packet-in",
                        switch=[gote[0], gote[1]] if gote else list(got)))
      if got == ("miss",) and not cands: continue
      if gote is not None and gote in cands: continue
      desc = "table (insertion order) %s, frame %s on port %d" % (["%s@%d" % e for e in seq], fr.name, fr.in_port)
      if got[0] != "raise" and any([self.entry_misjudged(mid, fr) for mid in sorted(set(e[0] for e in table))]):
        continue
      if got[0] == "raise":
        clause = "raises:" + got[1]; what = "%s: rx raised %s" % (desc, got[1])
      elif got == ("miss",):
        clause = "lookup:false-miss:entry=%s" % cands[0][0]
        what = "%s: packet-in although %s match" % (desc, ["%s@%d" % (e[0], e[1]) for e in ms])
      elif gote is None:
        clause = "lookup:odd-observation"; what = "%s: observed %r" % (desc, got)
      elif not ms or gote not in ms:
        clause = "lookup:false-hit:entry=%s" % gote[0]
        what = "%s: forwarded by %s@%d, which does not match the frame" % (desc, gote[0], gote[1])
      elif self.ref[cands[0][0]][1]:
        clause = "lookup:wire-exact-outranked:%s" % cands[0][0]
        what = ("%s: forwarded by wildcarded entry %s@%d although the exact-match entry %s@%d (wildcards word 0 on the wire) matches"
                % (desc, gote[0], gote[1], cands[0][0], cands[0][1]))
      else:
        clause = "lookup:not-highest-priority"
        what = "%s: forwarded by %s@%d, highest-priority matching entries are %s" % (desc, gote[0], gote[1],
                                                                                    ["%s@%d" % (e[0], e[1]) for e in cands])
      rep.violation("%s:%s" % (PID, clause), what, dict(kind="lookup", entries=[list(e) for e in seq], frame=fr.name))
    if not keep: sw.clear()
    return seen


def entry_kinds ():
  return [(mid, p) for mid, _ in lookup_alphabet() for p in PRIORITIES]


def _work_b (item):
  from mc.env import boot
  boot()
  _, prefix, depth = item
  ck = LookupChecker(Report(PID, "model_checking"))
  kinds = entry_kinds()
  for extra in range(0, depth - len(prefix) + 1):
    for ext in itertools.product(kinds, repeat=extra):
      ck.check_table(tuple(prefix) + ext)
  ck.rep.extra["switch_rebuilds"] = ck.sw.resets
  return ck.rep


# ---------------------------------------------------------------------------------------------
# tables given as raw match bytes (parts V and E): three-valued exactness
# ---------------------------------------------------------------------------------------------
def wildcarded_fields (pm):
  """The wildcards of a wire match that the specification would honour: fields that would be compared if they were not
  wildcarded (the prerequisite rule of ref_match), in canonical order; addresses as <field>-prefix (counter 1..31) or
  <field>-all (32..63)."""
  w = pm["wildcards"]
  capable = list(R.DL_FIELDS)
  if not w & BIT["dl_type"]:
    if pm["dl_type"] in (0x0800, 0x0806): capable += ["nw_proto", "nw_src", "nw_dst"]
    if pm["dl_type"] == 0x0800:
      capable.append("nw_tos")
      if not w & BIT["nw_proto"] and pm["nw_proto"] in (1, 6, 17): capable += ["tp_src", "tp_dst"]
  out = []
  for f in FIELDS:
    if f not in capable: continue
    if f in SHIFT:
      n = (w >> SHIFT[f]) & 0x3f
      if n >= 32: out.append(f + "-all")
      elif n: out.append(f + "-prefix")
    elif w & BIT[f]: out.append(f)
  return tuple(out)


def exactness (pm):
  """'exact': wildcards word 0 on the wire.  'wildcarded': a field the specification would compare is wildcarded (an address
  prefix shorter than 32 bits included).  'ignored-only': wildcard bits are set, but only on fields the prerequisite rule
  ignores anyway - the statement does not say which of the two such an entry is, so the oracle allows both."""
  if not pm["wildcards"] & R.OFPFW_ALL: return "exact", ()
  wild = wildcarded_fields(pm)
  return ("wildcarded", wild) if wild else ("ignored-only", ())


INF = (1 << 16) + 1

class RawTableChecker (object):
  """Tables whose entries are given as (wire match bytes, priority, label); entry i outputs to port OUT+i."""
  def __init__ (self, rep, frames):
    self.rep = rep
    self.sw = Sw()
    self.frames = frames
    self.ext = dict((fr.name, R.extract(fr.data, fr.in_port)[0]) for fr in frames)
    self.memo = {}
    self.single = None
    self.single_memo = {}
    self.control_memo = {}
    self.n = 0

  def judge (self, mb):
    if mb not in self.memo:
      pm = W.parse_match(mb)
      self.memo[mb] = (ref_match(pm),) + exactness(pm)
    return self.memo[mb]

  def entry_misjudged (self, mb, fr):
    """Does the switch, with this entry ALONE in the table, already disagree with the reference about the frame?  Then it
    is reported under the match clauses (by Checker) and says nothing about the order of lookup."""
    k = (mb, fr.name)
    if k not in self.single_memo:
      if self.single is None: self.single = Checker(self.rep, self.frames)
      before = sum(v["count"] for v in self.rep.violations.values())
      self.single.check_match(mb, [fr])
      self.single_memo[k] = sum(v["count"] for v in self.rep.violations.values()) != before
    return self.single_memo[k]

  def plainly_wildcarded_wins_too (self, entries, g, fr, tag):
    """Control experiment for a wildcarded entry that beat a higher priority: the same table with in_port, dl_src and dl_dst
    wildcarded in that entry in addition (memoised per table shape)."""
    k = (fr.name, g, tuple((p, l) for _, p, l in entries))
    if k not in self.control_memo:
      t = tuple((widen(mb, ("in_port", "dl_src", "dl_dst")), p, l) if i == g else (mb, p, l) for i, (mb, p, l) in enumerate(entries))
      v = self.check(t, fr, tag, record=False, control=False)
      self.control_memo[k] = v is not None and v[0].startswith("lookup:wildcarded-entry-outranks-higher-priority")
    return self.control_memo[k]

  def check (self, entries, fr, tag, record=True, control=True):
    """Returns None, or (clause, description, replay data) of the violated clause (record=False: without reporting it)."""
    rep, sw = self.rep, self.sw
    fields = self.ext[fr.name]
    rep.state_count += 1
    rdata = dict(kind="rawtable", entries=[[mb.hex(), prio, lab] for mb, prio, lab in entries], frame=fr.name)
    info = []
    for i, (mb, prio, lab) in enumerate(entries):
      r = sw.install(mb, prio, OUT + i)
      rep.transitions += 1
      if r is not None:
        sw.reset()
        v = ("install:%s" % (r[1] if r[0] == "raise" else "refused"), "ADD %s priority %d: %r" % (mb.hex(), prio, r), rdata)
        if record: rep.violation("%s:%s" % (PID, v[0]), v[1], v[2])
        return v
      m, kind, wild = self.judge(mb)
      info.append((i, prio, lab, kind, wild, ref_matches(m, fields)))
    got = sw.probe(fr.data, fr.in_port)
    rep.evaluations += 1; rep.transitions += 1
    sw.clear()
    ms = [e for e in info if e[5]]
    amb = [e for e in ms if e[3] == "ignored-only"]
    allowed = set()
    for choice in itertools.product((False, True), repeat=len(amb)):
      ex = set(e[0] for e, c in zip(amb, choice) if c) | set(e[0] for e in ms if e[3] == "exact")
      eff = lambda e: INF if e[0] in ex else e[1]
      top = max(eff(e) for e in ms) if ms else None
      allowed |= set(e[0] for e in ms if eff(e) == top)
    g = got[1][0] - OUT if got[0] == "out" and len(got[1]) == 1 and 0 <= got[1][0] - OUT < len(info) else None
    rep.outcome((tag, key_frame(fr), tuple((e[3], e[4], e[1], e[5]) for e in info), g if g is not None else got))
    self.n += 1
    if self.n % 20000 == 1:
      rep.sample(dict(part=tag, table=[dict(match=mb.hex(), priority=prio, exactness=self.judge(mb)[1],
                                            honoured_wildcards=list(self.judge(mb)[2])) for mb, prio, lab in entries],
                      frame=fr.name, allowed=[info[i][2] for i in sorted(allowed)] or "packet-in",
                      switch=info[g][2] if g is not None else list(got)))
    if (got == ("miss",) and not allowed) or (g is not None and g in allowed): return None
    desc = "table (insertion order) %s, frame %s on port %d" % (
      ["%s@%d[%s%s]" % (e[2], e[1], e[3], ":" + "+".join(e[4]) if e[4] else "") for e in info], fr.name, fr.in_port)
    if got[0] == "raise":
      clause = "raises:" + got[1]; what = "%s: rx raised %s" % (desc, got[1])
    else:
      if any([self.entry_misjudged(mb, fr) for mb in sorted(set(e[0] for e in entries))]): return None
      best = [info[i] for i in sorted(allowed)]
      if got == ("miss",):
        clause = "lookup:false-miss:entry=%s" % best[0][2]
        what = "%s: packet-in although %s match" % (desc, [e[2] for e in ms])
      elif g is None:
        clause = "lookup:odd-observation"; what = "%s: observed %r" % (desc, got)
      elif not info[g][5]:
        clause = "lookup:false-hit:entry=%s" % info[g][2]
        what = "%s: forwarded by %s@%d, which does not match the frame" % (desc, info[g][2], info[g][1])
      elif any(e[3] == "exact" for e in best):
        x = [e for e in best if e[3] == "exact"][0]
        clause = "lookup:wire-exact-outranked:%s" % x[2]
        what = ("%s: forwarded by entry %s@%d (%s) although the exact-match entry %s@%d (wildcards word 0 on the wire) matches"
                % (desc, info[g][2], info[g][1], info[g][3], x[2], x[1]))
      elif info[g][3] == "wildcarded" and info[g][1] < best[0][1] and control and self.plainly_wildcarded_wins_too(entries, g, fr, tag):
        # not a matter of WHICH wildcard the entry has: the order of the table is wrong for ordinary wildcarded entries as well
        clause = "lookup:not-highest-priority"
        what = "%s: forwarded by %s@%d, highest-priority matching entries are %s (the same happens with in_port, dl_src and dl_dst " \
               "wildcarded in addition)" % (desc, info[g][2], info[g][1], ["%s@%d" % (e[2], e[1]) for e in best])
      elif info[g][3] == "wildcarded" and info[g][1] < best[0][1]:
        wild = info[g][4]
        clause = "lookup:wildcarded-entry-outranks-higher-priority:wild=%s" % ("+".join(wild) if len(wild) == 1 or all(x.startswith(("nw_src-", "nw_dst-")) for x in wild) else "several")
        what = ("%s: forwarded by %s@%d, a wildcarded entry (wildcards the specification honours: %s) of lower priority than the "
                "matching entry %s@%d" % (desc, info[g][2], info[g][1], ", ".join(wild), best[0][2], best[0][1]))
      else:
        clause = "lookup:not-highest-priority"
        what = "%s: forwarded by %s@%d, highest-priority matching entries are %s" % (desc, info[g][2], info[g][1],
                                                                                    ["%s@%d" % (e[2], e[1]) for e in best])
    if record: rep.violation("%s:%s" % (PID, clause), what, rdata)
    return (clause, what, rdata)


ALL_MATCH = W.match()
EXACT_LABEL = {"tcp": "exact-tcp", "arp-req": "exact-arp", "other": "exact-other", "ip-gre": "exact-gre"}
def exact_label (fr): return EXACT_LABEL.get(fr.name) or "exact-" + key_frame(fr)


# ---------------------------------------------------------------------------------------------
# value domains (part V)
# ---------------------------------------------------------------------------------------------
DEEPER = dict(dl_type=R.NW_FIELDS + R.TP_FIELDS, nw_proto=R.TP_FIELDS, nw_tos=R.TP_FIELDS, nw_src=R.TP_FIELDS, nw_dst=R.TP_FIELDS)

def domain_matches (fields, app, nfields, axis):
  """[(label, wire bytes)] for one frame of a value domain.  fields/app: what the reference extracts from the frame;
  nfields: the same for its neighbour in the domain."""
  axes = [f for f in FIELDS if f in app and fields[f] != nfields[f]] or [axis]
  vg = dict(fields)
  for f in FIELDS:
    if f not in app: vg[f] = GARBAGE[f]
  out = []
  for f in axes:
    kw = {f: fields[f]}
    if f.startswith(("nw_", "tp_")): kw["dl_type"] = fields["dl_type"]
    if f.startswith("tp_"): kw["nw_proto"] = fields["nw_proto"]
    out.append((f, W.match_fields(**kw)))
    if nfields[f] != fields[f]:
      kn = dict(kw); kn[f] = nfields[f]
      out.append((f + "~", W.match_fields(**kn)))
    deeper = DEEPER.get(f, ())
    if deeper:
      # the deeper-layer wildcard bits CLEAR: zeros in them / the frame's own values (garbage where the frame has no such field)
      w = W.parse_match(W.match_fields(**kw))["wildcards"]
      for g in deeper:
        if g in SHIFT: w &= ~(0x3f << SHIFT[g])
        else: w &= ~BIT[g]
      for tag, src in (("0", ZERO), ("v", vg)):
        v = dict(ZERO); v.update(kw)
        for g in deeper: v[g] = src[g]
        out.append((f + "+deeper" + tag, W.match(wildcards=w, **v)))
        for g in ("tp_src", "tp_dst"):
          # one transport bit clear, the other set
          if g in deeper and f != "dl_type": out.append((f + "+" + g + tag, W.match(wildcards=w | BIT["tp_dst" if g == "tp_src" else "tp_src"], **v)))
  out.append(("exact", W.match(wildcards=0, **fields)))
  out.append(("exact-garbage", W.match(wildcards=0, **vg)))
  return out


DOMAINS = tuple(D.DOMAINS) + tuple(I.DOMAINS)
_DOMS = {}
_BYNAME = {}
def get_domain (dn, thorough):
  """Built once per process (the parent builds them all before the workers are forked)."""
  if (dn, thorough) not in _DOMS: _DOMS[(dn, thorough)] = dict(DOMAINS)[dn](thorough)
  return _DOMS[(dn, thorough)]


def domain_items (thorough):
  step = 256 if thorough else 32
  items = []
  for dn, mk in DOMAINS:
    n = len(get_domain(dn, thorough).frames)
    items += [("V", dn, lo, min(n, lo + step), thorough) for lo in range(0, n, step)]
  return items


def _work_v (item):
  from mc.env import boot
  boot()
  _, dn, lo, hi, thorough = item
  dom = get_domain(dn, thorough)
  if (dn, thorough) not in _BYNAME: _BYNAME[(dn, thorough)] = dict((f.name, f) for f in dom.frames)
  byname = _BYNAME[(dn, thorough)]
  tcp = R.corpus()[0]
  mine = dom.frames[lo:hi]
  pool = {}
  for fr in mine:
    pool[fr.name] = fr; nb = byname[dom.neighbour[fr.name]]; pool[nb.name] = nb
  frames = list(pool.values()) + [tcp]
  rep = Report(PID, "model_checking")
  ck = Checker(rep, frames)
  tc = RawTableChecker(rep, frames)
  def by_label (fr):
    nb = byname[dom.neighbour[fr.name]]
    fields, app = R.extract(fr.data, fr.in_port)
    out = {}
    for lab, mb in domain_matches(fields, app, R.extract(nb.data, nb.in_port)[0], dom.axis):
      if mb not in out.values(): out[lab] = mb
    return out
  def tables (fr, lab, mb):
    if lab.startswith("exact"):
      return [((mb, 1, exact_label(fr)), (ALL_MATCH, 0xffff, "all")), ((ALL_MATCH, 0xffff, "all"), (mb, 1, exact_label(fr)))]
    if lab.endswith(("+deeper0", "+deeperv")): return [((mb, 1, "field+deeper"), (ALL_MATCH, 0xffff, "all"))]
    return []
  for fr in mine:
    nb = byname[dom.neighbour[fr.name]]
    nbl = None
    for lab, mb in by_label(fr).items():
      ck.check_match(mb, [fr, nb, tcp])
      for i, t in enumerate(tables(fr, lab, mb)):
        v = tc.check(t, fr, "V", record=False)
        if v is None: continue
        # is it this VALUE of the field, or the whole domain?  (the same table around the neighbouring value)
        if nbl is None: nbl = by_label(nb)
        nv = tc.check(tables(nb, lab, nbl[lab])[i], nb, "V", record=False) if lab in nbl else None
        clause, what, rdata = v
        if not (nv is not None and nv[0] == v[0]):
          clause = clause.replace(key_frame(fr), fr.name); what = what.replace(key_frame(fr), fr.name)
          rdata = dict(rdata, entries=[[h, p, l.replace(key_frame(fr), fr.name)] for h, p, l in rdata["entries"]])
        rep.violation("%s:%s" % (PID, clause), what, rdata)
  rep.extra["switch_rebuilds"] = ck.sw.resets + tc.sw.resets
  return rep


# ---------------------------------------------------------------------------------------------
# exactness lattice (part E)
# ---------------------------------------------------------------------------------------------
E_FRAMES = ("tcp", "vlan-udp", "icmp", "ip-gre", "arp-req", "other")
AXIS = [(c, 0) for c in range(64)] + [(0, c) for c in range(1, 64)]

def part_e_words (thorough):
  """[(wildcard-bit mask, nw_src counter, nw_dst counter, full?)]; full: every table form and both value variants."""
  single = [1 << i for i in range(10)]
  two = [0] + single + [a | b for a, b in itertools.combinations(single, 2)]
  cp = [(a, b) for a in COUNTERS for b in COUNTERS]
  out = {}
  def add (m, cs, cd, full):
    k = (m, cs, cd)
    out[k] = out.get(k, False) or full
  for cs, cd in AXIS: add(0, cs, cd, True)
  for m in single:
    for cs, cd in cp: add(m, cs, cd, True)
  if thorough:
    for m in two:
      for cs, cd in AXIS + cp: add(m, cs, cd, True)
    for m in range(1024):
      for cs in (0, 1, 8, 31, 32):
        for cd in (0, 1, 8, 31, 32): add(m, cs, cd, False)
  else:
    for m in two:
      for cs, cd in ((0, 0), (8, 0), (0, 31)): add(m, cs, cd, False)
  return [k + (v,) for k, v in out.items()]


def part_e_tables (fr, v0, fields, mask, cs, cd, full, thorough):
  """The tables for one wildcards word around one frame: E = the frame's exact match weakened by the word."""
  w = word(mask, cs, cd)
  x0 = W.match(wildcards=0, **fields)
  xl = exact_label(fr)
  es = [build(w, v0)]
  if full:
    c = build(w, v0, clean=True, masked=True)
    if c != es[0]: es.append(c)
  for e in es:
    lab = xl if not w else "near-exact"
    yield ((e, 1, lab), (ALL_MATCH, 0xffff, "all"))
    yield ((ALL_MATCH, 0xffff, "all"), (e, 1, lab))
    if e != x0: yield ((e, 0xffff, lab), (x0, 1, xl))
    if full:
      yield ((ALL_MATCH, 1, "all"), (e, 0xffff, lab))
      if thorough and e != x0: yield ((x0, 1, xl), (e, 0xffff, lab))


def prefix_probe_matches (v0, cs, cd):
  """Single-entry matching for one pair of counters, every wildcard bit clear: the frame's addresses as they are and with the
  bits below the prefix zeroed (must match); the lowest compared bit flipped (must not); the highest ignored bit flipped (must)."""
  w = word(0, cs, cd)
  yield build(w, v0)
  yield build(w, v0, masked=True)
  for f, n in (("nw_src", cs), ("nw_dst", cd)):
    for b in (n, n - 1):
      if 0 <= b < 32:
        v = dict(v0); v[f] = v0[f] ^ (1 << b)
        yield build(w, v)


def _work_e (item):
  from mc.env import boot
  boot()
  _, name, chunk, nchunks, thorough = item
  fr = dict((f.name, f) for f in R.corpus())[name]
  rep = Report(PID, "model_checking")
  tc = RawTableChecker(rep, [fr])
  ck = Checker(rep, [fr])
  v0 = base_vector(fr)
  fields = tc.ext[fr.name]
  words = part_e_words(thorough)
  seen = set()
  for mask, cs, cd, full in words[chunk::nchunks]:
    for t in part_e_tables(fr, v0, fields, mask, cs, cd, full, thorough):
      tc.check(t, fr, "E")
    if mask == 0 and fr.want["dl_type"] in (0x0800, 0x0806):
      for mb in prefix_probe_matches(v0, cs, cd):
        if mb in seen: continue
        seen.add(mb)
        ck.check_match(mb, [fr])
  rep.extra["switch_rebuilds"] = ck.sw.resets + tc.sw.resets
  return rep


# ---------------------------------------------------------------------------------------------
# lookup histories (part H): frames looked up back to back in one table, no table change in between
# ---------------------------------------------------------------------------------------------
def history_alphabet ():
  return lookup_alphabet() + [
    ("tp_dst=80", W.match_fields(dl_type=0x0800, nw_proto=6, tp_dst=80)),
    ("dl_vlan=5", W.match_fields(dl_vlan=5)),
    ("dl_vlan_pcp=2", W.match_fields(dl_vlan_pcp=2)),
  ]

# VLAN action lists put in front of output:OFPP_TABLE in a packet-out (the datapath builds / edits / drops the tag itself)
VLAN_ACTIONS = ((("vid", 5),), (("vid", 0x123),), (("vid", 0),), (("pcp", 2),), (("pcp", 7),), (("vid", 5), ("pcp", 2)),
                (("pcp", 2), ("vid", 5)), (("strip",),), (("strip",), ("vid", 5)))

def wire_actions (ops):
  b = b""
  for op in ops:
    b += W.a_set_vlan_vid(op[1]) if op[0] == "vid" else W.a_set_vlan_pcp(op[1]) if op[0] == "pcp" else W.a_strip_vlan()
  return b + W.a_output(W.OFPP_TABLE)


def history_frames ():
  return R.corpus() + R.near_collisions()


def history_tables (thorough):
  """Tables of distinct matches with strictly descending priorities (so the reference allows exactly one entry
  per frame unless an exact-match entry is involved): all of 1 and 2 entries, thorough also of 3."""
  ids = [m for m, _ in history_alphabet()]
  ts = [((a, 3),) for a in ids]
  ts += [((a, 3), (b, 2)) for a in ids for b in ids if a != b]
  if thorough: ts += [((a, 3), (b, 2), (c, 1)) for a in ids for b in ids for c in ids if len(set((a, b, c))) == 3]
  return ts


def pair_walk (n):
  """Index sequence in which every ordered pair (i, j), i == j included, occurs adjacent, and every i, j, i."""
  seq = []
  for i in range(n):
    seq += [i, i]
    for j in range(i + 1, n): seq += [j, i]
  return seq


def de_bruijn (k, n):
  """Cyclic sequence over range(k) containing every word of length n once (Lyndon word concatenation),
  unrolled: the first n-1 symbols are repeated at the end."""
  a = [0] * (k * n); out = []
  def db (t, p):
    if t > n:
      if n % p == 0: out.extend(a[1:p+1])
    else:
      a[t] = a[t - p]; db(t + 1, p)
      for j in range(a[t - p] + 1, k):
        a[t] = j; db(t + 1, t)
  db(1, 1)
  return out + out[:n-1]


class HistoryChecker (object):
  KEY = "%s:history:lookup-differs-from-fresh-switch" % PID
  def __init__ (self, rep):
    self.rep = rep
    self.frames = history_frames()
    self.live = LookupChecker(rep, history_alphabet(), self.frames)       # the switch that accumulates history
    self.fresh = LookupChecker(rep, history_alphabet(), self.frames)      # rebuilt before every single lookup
    self.n = 0

  def baseline (self, seq, fr):
    self.fresh.sw.reset()
    r = self.fresh.check_table(seq, [fr])            # also compares with the reference (clauses of part B)
    return None if r is None else r[fr.name]

  def run_history (self, seq, idx, want=None):
    """Install the table once, look the frames up in order.  Returns the position of the first lookup whose
    observation differs from the same lookup on a fresh switch (None if all agree) and the observations."""
    fs = self.frames
    if want is None: want = {}
    for i in set(idx):
      if fs[i].name not in want: want[fs[i].name] = self.baseline(seq, fs[i])
    sw = self.live.sw
    sw.clear()
    for k, (mid, prio) in enumerate(seq):
      if sw.install(self.live.alpha[mid], prio, OUT + k) is not None: sw.reset(); return None, []
    self.rep.transitions += len(seq)
    obs = []
    for pos, i in enumerate(idx):
      got = sw.probe(fs[i].data, fs[i].in_port)
      obs.append(got)
      self.rep.evaluations += 1; self.rep.transitions += 1
      self.rep.outcome(("H", fs[idx[pos-1]].name if pos else None, fs[i].name, got, got == want[fs[i].name]))
      if got != want[fs[i].name]:
        sw.clear()
        return pos, obs
    sw.clear()
    return None, obs

  def check (self, seq, idx):
    rep, fs = self.rep, self.frames
    rep.state_count += 1
    want = {}
    pos, obs = self.run_history(seq, idx, want)
    self.n += 1
    if self.n % 60 == 1:
      rep.sample(dict(table=[list(e) for e in seq], history_length=len(idx), first_lookups=[fs[i].name for i in idx[:6]],
                      observed=[list(o) for o in obs[:6]], verdict="every lookup as on a fresh switch" if pos is None else "differs at %d" % pos))
    if pos is None: return
    # shortest suffix of the history that still shows it (2 frames if the previous lookup alone is to blame)
    hist = idx[:pos+1]
    if self.KEY not in rep.violations:
      for ln in (2, 3, 4, 8, 16, 64):
        if ln >= len(hist): break
        p2, _ = self.run_history(seq, hist[-ln:], want)
        if p2 == ln - 1: hist = hist[-ln:]; break
    cur = fs[idx[pos]]
    rep.violation(self.KEY,
                  "table %s: frame %s on port %d looked up after %s is treated as %r; the same frame on a fresh switch with the same "
                  "table: %r (no flow-mod in between)" % (["%s@%d" % e for e in seq], cur.name, cur.in_port,
                                                          [fs[i].name for i in hist[:-1]][-4:], obs[pos], want[cur.name]),
                  dict(kind="history", entries=[list(e) for e in seq], frames=[fs[i].name for i in hist]))


  def check_reads (self, seq):
    """Table installed once; every frame looked up, the read-only requests sent, every frame looked up again: both rounds
    must give what a fresh switch gives (no flow-mod anywhere in between)."""
    fs = self.frames
    idx = list(range(len(fs)))
    want = {}
    for i in idx: want[fs[i].name] = self.baseline(seq, fs[i])
    sw = self.live.sw
    sw.clear()
    for k, (mid, prio) in enumerate(seq):
      if sw.install(self.live.alpha[mid], prio, OUT + k) is not None: sw.reset(); return
    self.rep.transitions += len(seq) + len(sw.READS); self.rep.state_count += 1
    for rnd in (0, 1):
      if rnd: sw.read()
      for i in idx:
        got = sw.probe(fs[i].data, fs[i].in_port)
        self.rep.evaluations += 1; self.rep.transitions += 1
        self.rep.outcome(("HR", rnd, fs[i].name, got))
        if got != want[fs[i].name]:
          self.rep.violation("%s:read:table-lookup-changed-by-read-only-requests" % PID if rnd else self.KEY,
                             "table %s: frame %s on port %d is treated as %r %s; on a fresh switch with the same table: %r"
                             % (["%s@%d" % e for e in seq], fs[i].name, fs[i].in_port, got,
                                "after the controller sent %s" % "/".join(sw.READS) if rnd else "in a sequence of lookups", want[fs[i].name]),
                             dict(kind="history-read", entries=[list(e) for e in seq], frame=fs[i].name))
    sw.clear()

  def check_packet_out (self, seq, only=None):
    """packet-out [VLAN actions..., output:TABLE] for every Ethernet II frame x action list, back to back in one table:
    the lookup must pick what the reference picks for the re-tagged frame's BYTES."""
    rep, lc, sw = self.rep, self.live, self.live.sw
    sw.clear()
    table = []
    for k, (mid, prio) in enumerate(seq):
      if sw.install(lc.alpha[mid], prio, OUT + k) is not None: sw.reset(); return
      table.append((mid, prio, OUT + k))
    rep.transitions += len(seq); rep.state_count += 1
    byport = dict((e[2], e) for e in table)
    eff = lambda e: (1 << 16) + 1 if lc.ref[e[0]][1] else e[1]
    for fr in self.frames:
      if R.layout(fr.data) is None: continue          # tagged 802.3/LLC frames: specification silent
      for ops in VLAN_ACTIONS:
        if only is not None and (fr.name, ops) != only: continue
        after = R.retag(fr.data, ops)
        fields = R.extract(after, fr.in_port)[0]
        ms = [e for e in table if ref_matches(lc.ref[e[0]][0], fields)]
        top = max(eff(e) for e in ms) if ms else None
        cands = [e for e in ms if eff(e) == top]
        got = sw.packet_out(wire_actions(ops), fr.data, fr.in_port)
        rep.evaluations += 1; rep.transitions += 1
        gote = byport.get(got[1][0]) if got[0] == "out" and len(got[1]) == 1 else None
        opn = "+".join("%s:%s" % (o[0], o[1]) if len(o) > 1 else o[0] for o in ops)
        rep.outcome(("PO", fr.name, opn, tuple(sorted(e[0] for e in cands)), gote[0] if gote else got))
        if (got == ("miss",) and not cands) or (gote is not None and gote in cands): continue
        if got[0] == "raise": clause = "raises:" + got[1]
        elif got == ("miss",): clause = "packet-out-table:false-miss"
        elif gote is None: clause = "packet-out-table:odd-observation"
        elif gote not in ms: clause = "packet-out-table:false-hit"
        else: clause = "packet-out-table:not-highest-priority"
        rep.violation("%s:%s" % (PID, clause),
                      "table %s: packet-out of frame %s (in_port %d) with actions [%s, output:TABLE] -> %r; the re-tagged frame %s "
                      "(dl_vlan=%#x pcp=%d dl_type=%#x) is matched by %s" % (["%s@%d" % e for e in seq], fr.name, fr.in_port, opn,
                      ("%s@%d" % (gote[0], gote[1])) if gote else got, after.hex()[:44] + "..", fields["dl_vlan"], fields["dl_vlan_pcp"],
                      fields["dl_type"], ["%s@%d" % (e[0], e[1]) for e in cands] or "no entry (packet-in expected)"),
                      dict(kind="packet-out", entries=[list(e) for e in seq], frame=fr.name, ops=[list(o) for o in ops]))
    sw.clear()


def _work_h (item):
  from mc.env import boot
  boot()
  _, tables, triples = item
  hc = HistoryChecker(Report(PID, "model_checking"))
  n = len(hc.frames)
  walk = pair_walk(n)
  for seq in tables:
    hc.check(seq, walk)
    hc.check_reads(seq)
    hc.check_packet_out(seq)
    if triples and len(seq) <= 2: hc.check(seq, de_bruijn(n, 3))
  hc.rep.extra["switch_rebuilds"] = hc.live.sw.resets
  return hc.rep


# ---------------------------------------------------------------------------------------------
# packet objects that were not produced by parsing bytes (part O)
# ---------------------------------------------------------------------------------------------
TAGS = ("asis", "none", (5, 2), (0x123, 0), (0, 7), (0xfff, 5))

def build_object (fr, tag="asis"):
  """The frame as a chain of pox.lib.packet objects assembled field by field with the constructors (the way components
  and the datapath's actions make packets), never parse().  tag: keep the frame's own tag / no tag / (vid, pcp).
  None for frames this builder does not cover (802.3/LLC)."""
  import struct
  import pox.lib.packet as pkt
  from pox.lib.addresses import EthAddr, IPAddr
  L = R.layout(fr.data)
  if L is None: return None
  if L["etype"] == 0x0800 and L.get("ihl") != 20: return None       # IP options: no constructor argument for them
  d = fr.data
  e = pkt.ethernet(dst=EthAddr(d[0:6]), src=EthAddr(d[6:12]))
  et = L["etype"]; l3 = L["l3"]
  if et == 0x0800:
    ip = pkt.ipv4(srcip=IPAddr(d[l3+12:l3+16]), dstip=IPAddr(d[l3+16:l3+20]), protocol=L["proto"], tos=L["tos"], id=L["ident"],
                  flags=L["fragword"] >> 13, frag=L["fragword"] & 0x1fff, ttl=L["ttl"])
    l4 = L["l4"]; frag = (L["fragword"] & 0x3fff) != 0
    if not frag and L["proto"] == 6:
      sp, dp, seq, ack, off, fl, win = struct.unpack_from("!HHLLBBH", d, l4)
      ip.payload = pkt.tcp(srcport=sp, dstport=dp, seq=seq, ack=ack, off=off >> 4, flags=fl, win=win, payload=d[l4 + (off >> 4) * 4:])
    elif not frag and L["proto"] == 17:
      sp, dp = struct.unpack_from("!HH", d, l4)
      ip.payload = pkt.udp(srcport=sp, dstport=dp, payload=d[l4+8:])
    elif not frag and L["proto"] == 1:
      ip.payload = pkt.icmp(type=d[l4], code=d[l4+1], payload=d[l4+4:])
    else:
      ip.payload = d[l4:]
    inner = ip
  elif et == 0x0806:
    inner = pkt.arp(opcode=struct.unpack_from("!H", d, l3 + 6)[0], hwsrc=EthAddr(d[l3+8:l3+14]), protosrc=IPAddr(d[l3+14:l3+18]),
                    hwdst=EthAddr(d[l3+18:l3+24]), protodst=IPAddr(d[l3+24:l3+28]))
  else:
    inner = d[l3:]
  if tag == "asis": tag = (L["tci"] & 0xfff, L["tci"] >> 13) if L["tagged"] else "none"
  if tag == "none":
    e.type = et; e.payload = inner
  else:
    e.type = 0x8100; e.payload = pkt.vlan(id=tag[0], pcp=tag[1], eth_type=et, payload=inner)
  return e


class _Stub (object):
  def __init__ (self, dl_type): self.want = dict(dl_type=dl_type)


def object_matches (fields, app):
  """(field, wire bytes): for every field the frame has, a match on that field alone (with its prerequisites specified)
  carrying the frame's value, and one carrying a differing value; plus the exact match of the frame."""
  out = []
  for f in FIELDS:
    if f not in app: continue
    for v in [fields[f]] + alternatives(f, fields[f], _Stub(fields["dl_type"]), (0, 31))[:1]:
      kw = {f: v}
      if f.startswith(("nw_", "tp_")): kw.setdefault("dl_type", fields["dl_type"])
      if f.startswith("tp_"): kw.setdefault("nw_proto", fields["nw_proto"])
      out.append((f, W.match_fields(**kw)))
  return out + [("exact", W.match(wildcards=0, **fields))]


def check_object (rep, sw, fr, tag):
  obj = build_object(fr, tag)
  if obj is None: return False
  data = obj.pack()
  fields, app = R.extract(data, fr.in_port)
  rep.state_count += 1
  wrong_obj, wrong_bytes = [], []
  for f, mb in object_matches(fields, app):
    want = ref_matches(ref_match(W.parse_match(mb)), fields)
    if sw.install(mb) is not None: sw.reset(); continue
    got_o = sw.probe_object(build_object(fr, tag), fr.in_port)        # a fresh object per lookup
    got_b = sw.probe(data, fr.in_port)
    sw.clear()
    rep.evaluations += 2; rep.transitions += 4
    rep.outcome(("O", fr.name, str(tag), f, got_o, got_b))
    ok = ("out", (OUT,)) if want else ("miss",)
    if got_o != ok: wrong_obj.append((f, got_o, want))
    if got_b != ok: wrong_bytes.append((f, got_b, want))
  name = "%s built with constructors (tag %s)" % (fr.name, tag if isinstance(tag, str) else "vid %#x pcp %d" % tag)
  if tag == (5, 2):
    rep.sample(dict(built=name, packed=data.hex(), single_field_matches=len(object_matches(fields, app)),
                    verdict="object and packed bytes both looked up as the reference says" if not (wrong_obj or wrong_bytes) else "differs"))
  rdata = dict(kind="object", frame=fr.name, tag=tag if isinstance(tag, str) else list(tag))
  for wrong, clause, how in ((wrong_bytes, "built-packet:packed-bytes-misjudged", "its packed bytes %s injected" % data.hex()[:44]),
                             (wrong_obj, "built-packet:object-treated-differently-from-its-bytes", "the object handed to rx_packet")):
    if wrong and not (clause.endswith("its-bytes") and wrong == wrong_obj and wrong_obj == wrong_bytes):
      f, got, want = wrong[0]
      rep.violation("%s:%s:field=%s" % (PID, clause, f),
                    "%s, %s: a match on %s that %s the frame gives %r (fields of the packed bytes: dl_vlan=%#x pcp=%d dl_type=%#x); "
                    "all disagreeing single-field matches: %s" % (name, how, f, "matches" if want else "does not match", got,
                    fields["dl_vlan"], fields["dl_vlan_pcp"], fields["dl_type"], ",".join(sorted(set(w[0] for w in wrong)))), rdata)
  return bool(wrong_obj or wrong_bytes)


def _work_o (item):
  from mc.env import boot
  boot()
  _, names = item
  rep = Report(PID, "model_checking")
  sw = Sw()
  for fr in history_frames():
    if fr.name not in names: continue
    for tag in TAGS: check_object(rep, sw, fr, tag)
  rep.extra["switch_rebuilds"] = sw.resets
  return rep


# ---------------------------------------------------------------------------------------------
# single-field matches x all frames, boundary frames included (part X)
# ---------------------------------------------------------------------------------------------
def all_frames ():
  return history_frames() + R.boundary_frames()


def constant_matches ():
  """Matches on the constants of the extraction rules, whatever frame they came from."""
  out = [("dl_type", W.match_fields(dl_type=t)) for t in (0x05dc, R.OFP_DL_TYPE_NOT_ETH_TYPE, 0x0600, 0x0601, 0x8100)]
  out += [("dl_vlan", W.match_fields(dl_vlan=v)) for v in (0, 1, 0xfff, R.OFP_VLAN_NONE)]
  out += [("dl_vlan_pcp", W.match_fields(dl_vlan_pcp=v)) for v in (0, 7)]
  for t in (0x0800, 0x0806):
    out += [("nw_proto", W.match_fields(dl_type=t, nw_proto=v)) for v in (0, 1, 255)]
    out += [(f, W.match_fields(**{"dl_type": t, f: (a, 32)})) for f in ("nw_src", "nw_dst") for a in (0, 0xffffffff)]
  out += [("nw_tos", W.match_fields(dl_type=0x0800, nw_tos=v)) for v in (0, 0xfc)]
  for pr in (1, 6, 17):
    out += [(f, W.match_fields(dl_type=0x0800, nw_proto=pr, **{f: v})) for f in ("tp_src", "tp_dst") for v in (0, 255, 65535)]
  return out


def _work_x (item):
  from mc.env import boot
  boot()
  _, names = item
  frames = all_frames()
  cuts = R.truncations()
  ck = Checker(Report(PID, "model_checking"), frames + cuts)
  seen = set()
  for base in frames:
    if base.name not in names: continue
    mine = [t for t in cuts if t.name.startswith(base.name + "[:")]
    fields, app = ck.ext[base.name]
    for f, mb in object_matches(fields, app):
      if mb in seen: continue
      seen.add(mb)
      ck.check_match(mb, [base] + [x for x in frames if x is not base] + mine)
      ck.check_match(mb, [base] + mine, read=True)
    for t in mine:
      # the cut frame's own fields: only those the specification still defines for it
      fields, app = ck.ext[t.name]
      for f, mb in object_matches(fields, app & t.defined)[:-1] + [("all", W.match())]:
        ck.check_match(mb, [t, base], read=(f == "all"))
  if "" in names:
    for f, mb in constant_matches():
      ck.check_match(mb, frames + cuts)
      ck.check_match(mb, frames, read=True)
  return _finish(ck)


# ---------------------------------------------------------------------------------------------
# header fields the extraction does not depend on (part N)
# ---------------------------------------------------------------------------------------------
def _work_n (item):
  from mc.env import boot
  boot()
  _, gids, thorough = item
  groups = [I.groups(thorough)[g] for g in gids]
  frames = []
  for g in groups: frames += [g.parent] + g.derived
  ck = Checker(Report(PID, "model_checking"), frames)
  for g in groups:
    p = g.parent
    fields, app = ck.ext[p.name]
    if p.defined is not None: app = app & p.defined
    ms = object_matches(fields, app)
    if p.defined is not None: ms = ms[:-1]              # (no exact match for a frame some of whose fields are left open)
    for f, mb in ms + [("all", W.match())]:
      ck.check_match(mb, [p] + g.derived)
  return _finish(ck)


def _work (item):
  return {"N": _work_n, "A": _work_a, "P": _work_p, "B": _work_b, "H": _work_h, "O": _work_o, "X": _work_x, "V": _work_v, "E": _work_e}[item[0]](item)


# ---------------------------------------------------------------------------------------------
def run (cfg):
  rep = Report(PID, "model_checking")
  bad = R.self_check() + I.self_check()
  for b in bad: rep.error("reference self-check: " + b)
  if bad: return rep
  frames = R.corpus()
  thorough = not cfg.quick
  nchunks = cfg.pick(8, 32)
  depth = cfg.pick(3, 4)
  pre = cfg.pick(1, 2)
  kinds = entry_kinds()
  items = []
  if cfg.only in (None, "A"):
    items += [("A", bi, c, nchunks, thorough) for bi in range(len(frames)) for c in range(nchunks)]
  if cfg.only in (None, "P"):
    items += [("P", bi, thorough) for bi, fr in enumerate(frames) if fr.want["dl_type"] in (0x0800, 0x0806)]
  if cfg.only in (None, "B"):
    for k in range(1, pre):
      items += [("B", p, k) for p in itertools.product(kinds, repeat=k)]      # the tables shorter than the split prefix
    items += [("B", p, depth) for p in itertools.product(kinds, repeat=pre)]
  if cfg.only in (None, "H"):
    ht = history_tables(thorough)
    step = cfg.pick(4, 3)
    items += [("H", ht[i:i+step], thorough) for i in range(0, len(ht), step)]
  if cfg.only in (None, "O"):
    items += [("O", (f.name,)) for f in history_frames() if R.layout(f.data) is not None and R.layout(f.data).get("ihl", 20) == 20]
  if cfg.only in (None, "X"):
    items += [("X", (f.name,)) for f in all_frames()] + [("X", ("",))]
  if cfg.only in (None, "V"):
    items += domain_items(thorough)
  if cfg.only in (None, "N"):
    ng = len(I.groups(thorough))
    nstep = cfg.pick(4, 1)
    items += [("N", tuple(range(i, min(ng, i + nstep))), thorough) for i in range(0, ng, nstep)]
  ech = cfg.pick(4, 32)
  if cfg.only in (None, "E"):
    items += [("E", n, c, ech, thorough) for n in E_FRAMES for c in range(ech)]
  ncp = cfg.pick(2, 4)
  doms = [get_domain(dn, thorough) for dn, _ in DOMAINS]
  ewords = part_e_words(thorough)
  ngroups = I.groups(thorough)
  nfam = {}
  for g in ngroups:
    for f in g.derived:
      k = key_frame(f)[:-3]; nfam[k] = nfam.get(k, 0) + 1
  if thorough:
    a_rule = ("counters {0,32}^2 x {V0: the frame's own values, fields the frame lacks carrying non-zero garbage; V0 with wildcarded fields "
              "zeroed; S: V0 with one field replaced by a differing value (2 alternatives for dl_vlan/dl_type/nw_proto, bit 0 / bit 31 "
              "flipped for addresses); for counters (0,0),(32,32) also every two such replacements in different fields}, probed with the "
              "frame itself; the V0 vectors (and S at counters (0,0)) also with every other corpus frame")
    p_rule = "8 bit words (dl_type, nw_proto wildcard bits x all other bits clear / all set)"
    p_vec = "; every src flip x dst flip"
  else:
    a_rule = ("counters {(0,0),(32,32)} x {V0: the frame's own values, fields the frame lacks carrying non-zero garbage; V0 with wildcarded "
              "fields zeroed; S: V0 with one field replaced by a differing value (2 alternatives for dl_vlan/dl_type/nw_proto, bit 0 / bit 31 "
              "flipped for addresses; S omitted for the variant frames %s)}, probed with the frame itself; V0 also with every other corpus "
              "frame" % "/".join(VARIANTS))
    p_rule = "4 bit words (dl_type, nw_proto wildcard bits; other bits clear)"
    p_vec = ""
  rep.rule = (
    "every match is sent as OFPT_FLOW_MOD bytes (raw 40-byte ofp_match) to a real SoftwareSwitch (one entry in the table), every frame "
    "injected with rx; observable = output port or packet-in.  A: for each of %d corpus frames (%s): all 2^10 wildcard-bit words x "
    "nw_src/nw_dst %s.  P: for each IP/ARP frame: %s x all %d pairs of counters in %s x {frame's addresses, each address with bit %s "
    "flipped%s}, each as sent (bits below the prefix non-zero) and with the bits below the prefix zeroed; the undeviated zeroed vector "
    "also probed with every other frame.  B: all insertion sequences of <=%d entries over %d matches (%s) x priorities %s, entry i "
    "outputs to port %d+i, every table probed with all %d frames.  H (lookup histories): every table of <=%d distinct matches with descending "
    "priorities over the B matches plus tp_dst=80 and dl_vlan=5 (%d tables); %d frames = corpus + near-collision variants (%s); one "
    "history per table in which every ordered pair of frames (a frame with itself included) is looked up back to back and every A,B,A "
    "occurs%s, no flow-mod between lookups; every lookup must give what the same frame gives on a freshly built switch with the same table "
    "(which is itself compared with the reference as in B); then, in the same table, a packet-out [VLAN actions, output:OFPP_TABLE] for "
    "every Ethernet II frame x %d action lists (set_vlan_vid 5/0x123/0, set_vlan_pcp 2/7, vid+pcp, pcp+vid, strip_vlan, strip+vid): the "
    "lookup must pick an entry the reference allows for the re-tagged bytes.  O: every Ethernet II corpus/variant frame without IP options "
    "assembled from pox.lib.packet constructors with tag in %s, handed to rx_packet as an object and as its packed bytes, against a match "
    "on each single field (frame's value / differing value, prerequisites specified) and the exact match.  X: the same single-field and "
    "exact matches for each of %d frames (corpus, variants and %d boundary frames: %s) plus %d matches on the constants of the extraction "
    "rules, each probed with all %d frames; plus %d cut frames (every corpus frame and eth-0600/vlan-0600/len-05dc-snap/ip-hl6 cut at each "
    "header boundary -1/+0/+1, 802.3 frames at every length 14..23) probed with their parent's matches, the matches on their own readable "
    "fields, the constants and the catch-all, asserting only matches whose participating fields lie in completely present headers.  distinct = (frame, participating field set, observation) for A/P, "
    "(frame, allowed entries, entry that forwarded) for B; read-only requests (%s) are sent between flow-mod and lookups for the A/P "
    "matches that are probed with every frame, for every X match (installed a second time) and in H between two rounds of lookups of all "
    "frames per table; (previous frame, frame, observation) and (frame, actions, allowed, observed) for H, "
    "(frame, tag, field, observation of object, of bytes) for O.  V (value domains, mc/refs/c03_domains.py): %s; for each frame the "
    "match on each field in which it differs from its neighbour in the domain (prerequisites specified): the frame's value, the "
    "neighbour's value, and - for dl_type / nw_* - the same with all deeper-layer wildcard bits CLEAR (or one of TP_SRC/TP_DST clear) "
    "carrying zeros / the frame's values or non-zero garbage, plus the exact match (wildcards 0) with zeros / garbage in the fields the "
    "frame lacks; each probed with the frame, the neighbour and the TCP frame; the exact matches and the deeper-bits-clear matches also "
    "at priority 1 beside a catch-all of priority 0xffff (both insertion orders for the exact ones); a lookup violation is keyed by the "
    "value only if the same table around the neighbouring value is treated correctly.  E (exactness lattice): for each of the frames %s "
    "the frame's exact match (fields the frame lacks carrying garbage; for the 'full' words also zeroed and prefix-masked) weakened by "
    "each of %d wildcards words = {no bit} x every nw_src counter 0..63 and every nw_dst counter 0..63, {each single bit} x all %d "
    "counter pairs of %s ('full' words), %s; tables per word: [E@1, all@0xffff] in both insertion orders, [E@0xffff, exact@1]%s, full "
    "words also [all@1, E@0xffff]; the frame must leave through an entry of maximal effective priority where only the wildcards word 0 "
    "outranks, an entry with a wildcard the specification honours (bit of a field whose prerequisites the match specifies, address "
    "counter 1..63) ranks by its priority field, an entry whose only wildcard bits sit on prerequisite-ignored fields may do either; "
    "for the {no bit} words on IP/ARP frames also single-entry matching: addresses as sent / masked, lowest compared bit flipped, "
    "highest ignored bit flipped.  distinct for V/E tables = (part, frame kind, (exactness, honoured wildcards, priority, matches) per "
    "entry, forwarding entry).  N (mc/refs/c03_invariant.py): %d parent frames (corpus frames and built ones: ICMP echo reply / time exceeded / "
    "redirect / timestamp, UDP ports 0, a SYN with options, UDP to / from / between the parser ports %s, tagged 802.3 and double-tagged "
    "frames) and %d frames derived from them by setting ONE header field that the extraction does not consult to each of its boundary "
    "values (families: %s); each parent's single-field matches (frame's value / a differing value, prerequisites specified), its exact "
    "match and the catch-all are probed with the parent and all its derived frames; a match is asserted for a derived frame only if "
    "its participating fields lie in headers that are complete within min(physical length, IP total length) with IHL >= 5 / TCP data "
    "offset >= 5 (ARP network fields only for Ethernet/IPv4 ARP; behind a tag followed by an 802.3 length or a second tag only "
    "addresses and VLAN fields); distinct = (frame, participating field set, observation)"
    % (len(frames), ", ".join(f.name for f in frames), a_rule, p_rule, len(COUNTERS) ** 2, list(COUNTERS),
       "/".join(map(str, FLIPS_ALL)), p_vec, depth, len(lookup_alphabet()),
       ", ".join(m for m, _ in lookup_alphabet()), list(PRIORITIES), OUT, len(frames),
       cfg.pick(2, 3), len(history_tables(thorough)), len(history_frames()), ", ".join(f.name for f in R.near_collisions()),
       "; for tables of <=2 entries also a de Bruijn history containing every ordered triple of frames" if thorough else "",
       len(VLAN_ACTIONS), list(TAGS), len(all_frames()), len(R.boundary_frames()), ", ".join(f.name for f in R.boundary_frames()),
       len(constant_matches()), len(all_frames()), len(R.truncations()), "/".join(Sw.READS),
       "; ".join("%s (%d frames)" % (d.name, len(d.frames)) for d in doms), "/".join(E_FRAMES), len(ewords),
       len(COUNTERS) ** 2, list(COUNTERS),
       "every word of <=2 bits x every single-axis counter and counter pair; all 2^10 bit words x counters {0,1,8,31,32}^2" if thorough
       else "every word of <=2 bits x counters (0,0)/(8,0)/(0,31)",
       " in both insertion orders" if thorough else "",
       len(ngroups), "/".join(map(str, I.UDP_PARSER_PORTS)), sum(len(g.derived) for g in ngroups),
       ", ".join("%s (%d)" % kv for kv in sorted(nfam.items()))))
  rep.bound = dict(value_domain_frames=sum(len(d.frames) for d in doms), near_exact_words=len(ewords), near_exact_frames=len(E_FRAMES),
                   wildcard_bit_words=1024, counter_pairs_A=ncp, counter_pairs_P=len(COUNTERS) ** 2, deviations=cfg.pick(1, 2),
                   frames=len(frames), table_entries=depth, lookup_alphabet=len(kinds),
                   invariance_parents=len(ngroups), invariance_frames=sum(len(g.derived) for g in ngroups),
                   history_tables=len(history_tables(thorough)), history_frames=len(history_frames()), history_adjacent=cfg.pick(2, 3))
  rep.assumptions = [
    "a field participates iff its wildcard bit is clear (counter < 32) and its prerequisite is specified in the match: network fields "
    "need dl_type specified as 0x0800/0x0806 (nw_tos: 0x0800), transport fields need dl_type 0x0800 and nw_proto specified as 1/6/17",
    "fields a frame does not have are 0 (specification flow chart: 'set all others to zero'); dl_vlan_pcp of an untagged frame is 0",
    "nw_tos is the DSCP part of the ToS byte (upper six bits)",
    "an entry is an exact match iff its wildcards word is 0 on the wire",
    "parts V/E: an entry whose wildcards word is not 0 but whose wildcard bits all sit on fields the prerequisite rule ignores "
    "(e.g. TP_SRC set in an ARP match) may rank as an exact match or by its priority field - the statement does not say",
    "value domains: the IPv4 protocol, ARP opcode, ToS byte and ICMP type/code are enumerated completely; VLAN ids, ports and Ethernet "
    "types in the quick tier by every single bit, the extremes and the registered / parser-relevant values (thorough: completely)",
    "among matching entries of equal effective priority either may forward",
    "VLAN-tagged LLC / SNAP frames and double-tagged frames: only the addresses and the VLAN fields are asserted (the specification "
    "describes one tag in front of an Ethernet type; the type behind a tag + 802.3 length or a second tag is left open); SNAP with "
    "a non-zero OUI is not in the corpus",
    "part N: the fields of a header count as defined only if the header is complete within min(physical frame, IP total length) and "
    "its own header-length field (IHL, TCP data offset) is at least the minimum; the UDP length field is not a header length",
    "default switch configuration (fragments handled normally, no port flags)",
  ]
  for r in pmap(_work, items, cfg.workers, seed=cfg.seed):
    rep.merge(r)
  rep.extra["work_items"] = len(items)
  return rep


def explains (known_key, key):
  if known_key.endswith("*"): return key.startswith(known_key[:-1])
  return known_key == key


def replay (cfg, data):
  from mc.env import boot
  boot()
  rep = Report(PID, "model_checking")
  if data["kind"] == "history-read":
    hc = HistoryChecker(rep)
    seq = tuple((e[0], int(e[1])) for e in data["entries"])
    hc.check_reads(seq)
    lines = ["table: " + ", ".join("%s priority %d -> port %d" % (m, p, OUT + i) for i, (m, p) in enumerate(seq)),
             "all frames looked up, read-only requests %s sent, all frames looked up again" % "/".join(Sw.READS)]
    for k, v in sorted(rep.violations.items()): lines.append("%s: %s" % (k, v["what"]))
    return bool(rep.violations), "\n".join(lines)
  if data["kind"] == "history":
    hc = HistoryChecker(rep)
    names = [f.name for f in hc.frames]
    seq = tuple((e[0], int(e[1])) for e in data["entries"])
    idx = [names.index(n) for n in data["frames"]]
    lines = ["table: " + ", ".join("%s priority %d -> port %d" % (m, p, OUT + i) for i, (m, p) in enumerate(seq)),
             "frames looked up back to back, no flow-mod in between:"]
    want = {}
    pos, obs = hc.run_history(seq, idx, want)
    for k, i in enumerate(idx):
      fr = hc.frames[i]
      lines.append("  %d. %s on port %d -> %r   (fresh switch, same table: %r)"
                   % (k + 1, fr.name, fr.in_port, obs[k] if k < len(obs) else "not reached", want[fr.name]))
    if pos is not None: hc.check(seq, idx)
    for k, v in sorted(rep.violations.items()):
      lines.append("%s: %s" % (k, v["what"]))
    return bool(rep.violations), "\n".join(lines)
  frames = dict((f.name, f) for f in all_frames() + R.truncations())
  fr = frames.get(data["frame"]) or D.frame_by_name(data["frame"]) or I.frame_by_name(data["frame"])
  if fr is None:
    for dn, mk in I.DOMAINS:
      for th in (False, True):
        fr = fr or dict((f.name, f) for f in get_domain(dn, th).frames).get(data["frame"])
  if data["kind"] == "rawtable":
    tc = RawTableChecker(rep, [fr])
    entries = tuple((bytes.fromhex(h), int(p), l) for h, p, l in data["entries"])
    fields, app = R.extract(fr.data, fr.in_port)
    lines = ["frame %s on port %d: %s" % (fr.name, fr.in_port, fr.data.hex()),
             "  fields per specification: " + ", ".join("%s=%s" % (f, fields[f].hex() if isinstance(fields[f], bytes) else hex(fields[f]))
                                                       for f in FIELDS if f in app)]
    for i, (mb, prio, lab) in enumerate(entries):
      m, kind, wild = tc.judge(mb)
      lines.append("entry %d: %s priority %d -> port %d  (wire %s; matches this frame: %s; %s%s)"
                   % (i, lab, prio, OUT + i, mb.hex(), ref_matches(m, fields), kind,
                      ", wildcards the specification honours: " + "+".join(wild) if wild else ""))
    tc.check(entries, fr, "replay")
    for i, (mb, prio, lab) in enumerate(entries): tc.sw.install(mb, prio, OUT + i)
    lines.append("  switch: rx -> %r" % (tc.sw.probe(fr.data, fr.in_port),))
    for k, v in sorted(rep.violations.items()): lines.append("%s: %s" % (k, v["what"]))
    return bool(rep.violations), "\n".join(lines)
  if data["kind"] == "object":
    tag = data["tag"] if isinstance(data["tag"], str) else tuple(data["tag"])
    check_object(rep, Sw(), fr, tag)
    obj = build_object(fr, tag)
    lines = ["frame %s assembled with pox.lib.packet constructors, tag %r: %s" % (fr.name, tag, obj.pack().hex())]
    for k, v in sorted(rep.violations.items()): lines.append("%s: %s" % (k, v["what"]))
    return bool(rep.violations), "\n".join(lines)
  if data["kind"] == "packet-out":
    hc = HistoryChecker(rep)
    seq = tuple((e[0], int(e[1])) for e in data["entries"])
    ops = tuple(tuple(o) for o in data["ops"])
    hc.check_packet_out(seq, only=(fr.name, ops))
    lines = ["table: " + ", ".join("%s priority %d -> port %d" % (m, p, OUT + i) for i, (m, p) in enumerate(seq)),
             "packet-out of frame %s, in_port %d, actions %r + output:TABLE; re-tagged bytes per specification: %s"
             % (fr.name, fr.in_port, ops, R.retag(fr.data, ops).hex())]
    for k, v in sorted(rep.violations.items()): lines.append("%s: %s" % (k, v["what"]))
    return bool(rep.violations), "\n".join(lines)
  fields, app = R.extract(fr.data, fr.in_port)
  lines = ["frame %s on port %d: %s" % (fr.name, fr.in_port, fr.data.hex()),
           "  fields per specification: " + ", ".join("%s=%s" % (f, fields[f].hex() if isinstance(fields[f], bytes) else hex(fields[f]))
                                                     for f in FIELDS if f in app)]
  if data["kind"] == "match":
    ck = Checker(rep, all_frames() + R.truncations() + [fr])
    mb = bytes.fromhex(data["match"])
    pm = W.parse_match(mb); m = ref_match(pm)
    lines.append("match on the wire: wildcards=%#x %s" % (pm["wildcards"], ", ".join(
      "%s=%s" % (f, pm[f].hex() if isinstance(pm[f], bytes) else hex(pm[f])) for f in FIELDS)))
    lines.append("  participating per specification: " + (", ".join(
      "%s=%s" % (f, (m[f].hex() if isinstance(m[f], bytes) else m[f])) for f in FIELDS if f in m) or "none (matches everything)"))
    lines.append("  reference verdict: %s" % ("match" if ref_matches(m, fields) else "no match"))
    ck.check_match(mb, [fr], read=bool(data.get("read")))
    r = ck.sw.install(mb)
    lines.append("  switch: install -> %r, rx -> %r" % (r, ck.sw.probe(fr.data, fr.in_port) if r is None else None))
    if data.get("read"):
      ck.sw.read()
      lines.append("  switch: after read-only requests %s: rx -> %r" % ("/".join(ck.sw.READS), ck.sw.probe(fr.data, fr.in_port)))
  else:
    ck = LookupChecker(rep, history_alphabet(), history_frames())
    seq = tuple((e[0], int(e[1])) for e in data["entries"])
    for i, (mid, prio) in enumerate(seq):
      lines.append("entry %d: %s priority %d -> port %d  (wire %s; matches this frame: %s; exact on the wire: %s)"
                   % (i, mid, prio, OUT + i, ck.alpha[mid].hex(), ck.hit[(mid, fr.name)], ck.ref[mid][1]))
    ck.check_table(seq, [fr])
    for i, (mid, prio) in enumerate(seq): ck.sw.install(ck.alpha[mid], prio, OUT + i)
    lines.append("  switch: rx -> %r" % (ck.sw.probe(fr.data, fr.in_port),))
  for k, v in sorted(rep.violations.items()):
    lines.append("%s: %s" % (k, v["what"]))
  return bool(rep.violations), "\n".join(lines)
