"""C13 - every switch request is answered once, with its xid, in order.

All request sequences of length <=3 over the controller-to-switch messages of `requests()` (thorough: one request
deeper behind state-affecting prefixes), sent as spec-encoded bytes through the real RecocoIOWorker -> OFConnection ->
SoftwareSwitch stack; plus long deterministic histories containing every ordered pair of requests.  The reply stream
is decoded with the independent wire decoder (mc/refs/ofwire.py) and compared with a small reference
model of the switch's visible state (config, flow table of capacity 2, port/table counters, packet buffers).

Flow-mods are described declaratively (command x match x flags x buffer_id kind) and their expected answer
is computed from the history: whether the flow-mod is carried out or refused (BAD_COMMAND, emergency flag,
OVERLAP, ALL_TABLES_FULL) x whether the buffer_id it carries is absent, never issued, already used or valid.
Two further families enumerate histories over sub-alphabets: the flow family (all flow-mods + buffers + read-backs)
and, one request deeper, the buffer family (see `histories`).

Port-mods are described declaratively as well (port_no x hw_addr kind x config x mask, see `pm_req`): the expected answer
(nothing | BAD_PORT | BAD_HW_ADDR) and the port configuration afterwards are computed by Model.port_step; the configuration
is read back from every features reply (per port: config bits, link state as last announced in a port-status, the rest
of the description against a pristine twin switch) and through its effects on port counters (packet-out to a port /
FLOOD / ALL).  The port-mod lattice (`pm_lattice`) is run in three read-back frames, a port family in all sequences
(see `histories`).  Histories of <=2 requests and the long histories are also run with boundary xids (0, 0xffffffff...).

Round 9 families.  Long action lists (`BIG_ACTS`): flow-mods whose statistics entries just fit / just exceed one 64 KB
statistics reply; multi-part replies (OFPSF_REPLY_MORE) are coalesced into one logical reply (`coalesce`).  Messages with
another header version (`VERSIONS` x `VERSION_BASES`, see `version_histories`) and well-formed messages of the types only a
switch sends ("s2c-*").  Switch configurations (`configs`, `check_config`): the same requests against switches set up
through the switch's own API with other port counts / numbers / names / ways of making and removing ports / constructor
parameters; the reference is the configuration.
"""
import itertools, struct
from mc.engine import pmap, split
from mc.report import Report
from mc.refs import ofwire as W
from mc.refs import ofwire_s2c as S

PID = "C13"
FRAME = bytes.fromhex("0000000000020000000000010800") + b"\x45\x00\x00\x1c" + b"\0" * 24   # 42-byte frame
MAC1 = lambda dpid, port: bytes.fromhex("02%06x%04x" % (dpid % 0xffff, port))


FM_MATCH = {"in1": W.match_fields(in_port=1), "in2": W.match_fields(in_port=2), "in3": W.match_fields(in_port=3),
            "all": W.match()}
BAD_BUFFER = 77            # never handed out: the switch has 4 buffers
CAPACITY = 2               # flow table capacity of the switch under test (see _stack)
PORTS = (1, 2, 3, 4)       # ports of the switch under test (see _stack)
EDGE_XIDS = (0, 0xffffffff, 0x80000000, 0x7fffffff, 1)       # boundary transaction ids (cycled; repeats occur)
MAX_MSG = 0xffff           # largest OpenFlow message (16-bit length field)
BIG_ACTS = (4084, 4085, 8179, 8180)      # 12 + 2 * (88 + 8n) and 12 + (88 + 8n) cross 65535 between these values
VERSIONS = (0, 2, 4, 0x81, 0xff)         # header versions other than 1: none, the next ones, high bit, all ones
VERSION_BASES = ("echo-empty", "features", "barrier", "stats-desc", "flow-add", "hello", "unknown-type")

PC_BITS = (("PORT_DOWN", W.OFPPC_PORT_DOWN), ("NO_STP", W.OFPPC_NO_STP), ("NO_RECV", W.OFPPC_NO_RECV),
           ("NO_RECV_STP", W.OFPPC_NO_RECV_STP), ("NO_FLOOD", W.OFPPC_NO_FLOOD), ("NO_FWD", W.OFPPC_NO_FWD),
           ("NO_PACKET_IN", W.OFPPC_NO_PACKET_IN))
PC_DEFINED = 0x7f
# bits a port-mod must carry out; NO_STP (the switch does not do 802.1D) and undefined bits are "soft": OpenFlow 1.0 does not
# say what a switch without the feature does with them, so their value is not judged after a port-mod named them
PC_HARD = PC_DEFINED & ~W.OFPPC_NO_STP
HW_KINDS = ("own", "zero", "bcast", "other", "lowbit", "highbit")


def hw_bytes (port, kind):
  """hw_addr field of a port-mod for `port`: the port's own address or a boundary value that is not the port's address."""
  own = MAC1(1, port)
  if kind == "own": return own
  if kind == "zero": return b"\0" * 6
  if kind == "bcast": return b"\xff" * 6
  if kind == "other": return MAC1(1, port % 4 + 1) if port in PORTS else MAC1(1, 1)      # another port of the same switch
  if kind == "lowbit": return own[:5] + bytes([own[5] ^ 1])
  if kind == "highbit": return bytes([own[0] ^ 0x80]) + own[1:]
  raise KeyError(kind)


def pm_name (port, hw, config, mask): return "pm-%d-%s-%x-%x" % (port, hw, config, mask)


def pm_req (port, hw, config, mask):
  """A port-mod: port_no x hw_addr kind x config x mask (advertise 0).  The answer is worked out by Model.port_step."""
  return (lambda x: W.port_mod(x, port, hw_bytes(port, hw), config, mask)), ("portmod", port, hw, config, mask)


def pm_parse (name):
  _, port, hw, c, m = name.split("-")
  return pm_req(int(port), hw, int(c, 16), int(m, 16))


class Reqs (dict):
  """name -> (builder, expectation); names of the port-mod lattice ("pm-<port>-<hw kind>-<config>-<mask>") are self-describing."""
  def __missing__ (self, name):
    if not name.startswith("pm-"): raise KeyError(name)
    v = self[name] = pm_parse(name)
    return v


def keyname (n):
  """Request class used in violation keys: the request name, for the port-mod lattice its (port, hw_addr) class, for the
  wrong-version / switch-to-controller-type / long-action-list families the family."""
  if n.startswith("pm-"):
    _, port, hw, c, m = n.split("-")
    return "port-mod[port-%s,hw-%s]" % ("present" if int(port) in PORTS else "absent", hw)
  if n.startswith("version-"): return "wrong-version"
  if n.startswith("s2c-"): return "switch-to-controller-type"
  if n.startswith("flow-add-") and n.endswith("-actions"): return "flow-add-long-action-list"
  return KEYCLASS.get(n, n)

KEYCLASS = {"port-mod-2-zero-hw": "port-mod[port-present,hw-zero]", "port-mod-2-other-hw": "port-mod[port-present,hw-other]"}


def flow_req (cmd, key, out=None, flags=0, buf=None, nact=1):
  """A flow-mod: command x match (in1/in2/in3/all) x `nact` output actions to one port (or none) x flags x buffer_id kind
  (None = no buffer, 'bad' = an id the switch never hands out, 'zero' = id 0, 'last' = the id of the most recent packet-in).
  Returns (builder, expectation descriptor); the answer is worked out by Model.flow_step."""
  acts = W.a_output(out) * nact if out is not None else b""
  def build (x, b=1):
    bid = W.NO_BUFFER if buf is None else (BAD_BUFFER if buf == "bad" else 0 if buf == "zero" else b)
    return W.flow_mod(x, FM_MATCH[key], cmd, acts, flags=flags, buffer_id=bid)
  return build, ("flow", cmd, key, out, flags, buf, nact if out is not None else 0)


def requests ():
  """name -> (builder(xid) -> bytes, expectation).  expectation: ('reply', TYPE) | ('error', etype, code|None)
  | ('none',) | ('answer',) | ('buffer',) | ('flow', command, match key, out port, flags, buffer kind)"""
  R = []
  a = R.append
  a(("echo-empty", lambda x: W.echo_request(x), ("reply", W.ECHO_REPLY)))
  a(("echo-body", lambda x: W.echo_request(x, b"abcde"), ("reply", W.ECHO_REPLY)))
  a(("features", lambda x: W.features_request(x), ("reply", W.FEATURES_REPLY)))
  a(("get-config", lambda x: W.get_config_request(x), ("reply", W.GET_CONFIG_REPLY)))
  a(("set-config-64", lambda x: W.set_config(x, 0, 64), ("none",)))
  a(("set-config-0", lambda x: W.set_config(x, 0, 0), ("none",)))
  a(("set-config-max", lambda x: W.set_config(x, 1, 0xffff), ("none",)))
  a(("barrier", lambda x: W.barrier_request(x), ("reply", W.BARRIER_REPLY)))
  a(("stats-desc", lambda x: W.stats_request(x, W.OFPST_DESC), ("stats", W.OFPST_DESC)))
  a(("stats-flow", lambda x: W.stats_request(x, W.OFPST_FLOW, W.flow_stats_body()), ("stats", W.OFPST_FLOW)))
  a(("stats-aggregate", lambda x: W.stats_request(x, W.OFPST_AGGREGATE, W.flow_stats_body()), ("stats", W.OFPST_AGGREGATE)))
  a(("stats-table", lambda x: W.stats_request(x, W.OFPST_TABLE), ("stats", W.OFPST_TABLE)))
  a(("stats-port-all", lambda x: W.stats_request(x, W.OFPST_PORT, W.port_stats_body(W.OFPP_NONE)), ("stats", W.OFPST_PORT)))
  a(("stats-port-2", lambda x: W.stats_request(x, W.OFPST_PORT, W.port_stats_body(2)), ("stats", W.OFPST_PORT)))
  a(("stats-port-absent", lambda x: W.stats_request(x, W.OFPST_PORT, W.port_stats_body(99)), ("answer",)))
  a(("stats-queue-all", lambda x: W.stats_request(x, W.OFPST_QUEUE, W.queue_stats_body(W.OFPP_ALL, W.OFPQ_ALL)), ("stats", W.OFPST_QUEUE)))
  a(("stats-queue-one", lambda x: W.stats_request(x, W.OFPST_QUEUE, W.queue_stats_body(1, 5)), ("error", W.OFPET_QUEUE_OP_FAILED, W.OFPQOFC_BAD_QUEUE)))
  a(("stats-queue-bad-port", lambda x: W.stats_request(x, W.OFPST_QUEUE, W.queue_stats_body(77, W.OFPQ_ALL)), ("answer",)))
  a(("stats-queue-allports-one", lambda x: W.stats_request(x, W.OFPST_QUEUE, W.queue_stats_body(W.OFPP_ALL, 5)), ("error", W.OFPET_QUEUE_OP_FAILED, W.OFPQOFC_BAD_QUEUE)))
  a(("stats-flow-table1", lambda x: W.stats_request(x, W.OFPST_FLOW, W.flow_stats_body(table_id=1)), ("stats", W.OFPST_FLOW)))
  a(("stats-flow-in2", lambda x: W.stats_request(x, W.OFPST_FLOW, W.flow_stats_body(W.match_fields(in_port=2))), ("stats", W.OFPST_FLOW)))
  a(("stats-flow-out2", lambda x: W.stats_request(x, W.OFPST_FLOW, W.flow_stats_body(out_port=2)), ("stats", W.OFPST_FLOW)))
  a(("stats-aggregate-table1", lambda x: W.stats_request(x, W.OFPST_AGGREGATE, W.flow_stats_body(table_id=1)), ("stats", W.OFPST_AGGREGATE)))
  a(("queue-get-config-absent", lambda x: W.queue_get_config_request(x, 99), ("answer",)))
  a(("echo-big", lambda x: W.echo_request(x, bytes(range(256)) * 5), ("reply", W.ECHO_REPLY)))
  a(("flow-modify",) + flow_req(W.OFPFC_MODIFY, "in1", 3))
  a(("flow-delete-strict",) + flow_req(W.OFPFC_DELETE_STRICT, "in2"))
  a(("stats-vendor", lambda x: W.stats_request(x, W.OFPST_VENDOR, struct.pack("!L", 0x2320)), ("error", W.OFPET_BAD_REQUEST, None)))
  a(("stats-unknown", lambda x: W.stats_request(x, 9), ("error", W.OFPET_BAD_REQUEST, W.OFPBRC_BAD_STAT)))
  a(("queue-get-config", lambda x: W.queue_get_config_request(x, 1), ("reply", W.QUEUE_GET_CONFIG_REPLY)))
  a(("flow-add",) + flow_req(W.OFPFC_ADD, "in1", 2))
  a(("flow-add-other",) + flow_req(W.OFPFC_ADD, "in2", 1))
  a(("flow-bad-command",) + flow_req(9, "in1", 2))
  a(("flow-emerg",) + flow_req(W.OFPFC_ADD, "in1", 2, flags=W.OFPFF_EMERG))
  a(("flow-delete-all",) + flow_req(W.OFPFC_DELETE, "all"))
  # the remaining flow-mod commands, a third flow (the table holds two) and an ADD that asks for the overlap check
  a(("flow-modify-strict",) + flow_req(W.OFPFC_MODIFY_STRICT, "in1", 4))
  a(("flow-delete-in1",) + flow_req(W.OFPFC_DELETE, "in1"))
  a(("flow-add-third",) + flow_req(W.OFPFC_ADD, "in3", 4))
  a(("flow-add-check-overlap",) + flow_req(W.OFPFC_ADD, "in1", 2, flags=W.OFPFF_CHECK_OVERLAP))
  # flow-mods that carry a buffer_id: every command with an id that was never handed out; ADD/MODIFY/MODIFY_STRICT with
  # the id of the most recent packet-in (valid once, used afterwards); refused flow-mods that also name a bad buffer
  a(("flow-add-bad-buffer",) + flow_req(W.OFPFC_ADD, "in1", 2, buf="bad"))
  a(("flow-modify-bad-buffer",) + flow_req(W.OFPFC_MODIFY, "in1", 4, buf="bad"))
  a(("flow-modify-strict-bad-buffer",) + flow_req(W.OFPFC_MODIFY_STRICT, "in1", 4, buf="bad"))
  a(("flow-delete-bad-buffer",) + flow_req(W.OFPFC_DELETE, "in1", buf="bad"))
  a(("flow-delete-strict-bad-buffer",) + flow_req(W.OFPFC_DELETE_STRICT, "in1", buf="bad"))
  a(("flow-add-last-buffer",) + flow_req(W.OFPFC_ADD, "in1", 2, buf="last"))
  a(("flow-modify-last-buffer",) + flow_req(W.OFPFC_MODIFY, "in1", 4, buf="last"))
  a(("flow-modify-strict-last-buffer",) + flow_req(W.OFPFC_MODIFY_STRICT, "in1", 4, buf="last"))
  a(("flow-emerg-bad-buffer",) + flow_req(W.OFPFC_ADD, "in1", 2, flags=W.OFPFF_EMERG, buf="bad"))
  a(("flow-bad-command-bad-buffer",) + flow_req(9, "in1", 2, buf="bad"))
  a(("port-mod",) + pm_req(1, "own", W.OFPPC_NO_FLOOD, W.OFPPC_NO_FLOOD))
  a(("port-mod-absent", lambda x: W.port_mod(x, 99, MAC1(1, 1), 0, 0), ("error", W.OFPET_PORT_MOD_FAILED, W.OFPPMFC_BAD_PORT)))
  a(("port-mod-bad-hw", lambda x: W.port_mod(x, 1, b"\x02\xaa\xaa\xaa\xaa\xaa", 0, 0), ("error", W.OFPET_PORT_MOD_FAILED, W.OFPPMFC_BAD_HW_ADDR)))
  # the port-mods of the port family (see PORT_FAMILY): set / clear the bits whose effect is visible in port counters and
  # table counters, on the ports the packet-outs use; refused ones that name a boundary hw_addr
  for port, bits in ((2, ("PORT_DOWN", "NO_FWD", "NO_FLOOD")), (1, ("NO_RECV", "PORT_DOWN"))):
    for bn in bits:
      bit = dict(PC_BITS)[bn]
      a(("port-mod-%d-set-%s" % (port, bn),) + pm_req(port, "own", bit, bit))
      a(("port-mod-%d-clear-%s" % (port, bn),) + pm_req(port, "own", 0, bit))
  a(("port-mod-1-clear-all",) + pm_req(1, "own", 0, PC_DEFINED))
  a(("port-mod-2-zero-hw",) + pm_req(2, "zero", W.OFPPC_NO_FWD, W.OFPPC_NO_FWD))
  a(("port-mod-2-other-hw",) + pm_req(2, "other", W.OFPPC_PORT_DOWN, W.OFPPC_PORT_DOWN))
  a(("packet-out", lambda x: W.packet_out(x, W.a_output(2), FRAME, in_port=1), ("none",)))
  a(("packet-out-table-1", lambda x: W.packet_out(x, W.a_output(W.OFPP_TABLE), FRAME, in_port=1), ("none",)))
  a(("packet-out-table-3", lambda x: W.packet_out(x, W.a_output(W.OFPP_TABLE), FRAME, in_port=3), ("none",)))
  a(("port-mod-no-packet-in-3",) + pm_req(3, "own", W.OFPPC_NO_PACKET_IN, W.OFPPC_NO_PACKET_IN))
  # virtual output ports that fan out (in_port NONE: every port is a candidate): FLOOD leaves out NO_FLOOD ports
  a(("packet-out-flood", lambda x: W.packet_out(x, W.a_output(W.OFPP_FLOOD), FRAME, in_port=W.OFPP_NONE), ("none",)))
  a(("packet-out-all", lambda x: W.packet_out(x, W.a_output(W.OFPP_ALL), FRAME, in_port=W.OFPP_NONE), ("none",)))
  a(("packet-out-controller", lambda x: W.packet_out(x, W.a_output(W.OFPP_CONTROLLER), FRAME, in_port=1), ("none",)))
  a(("packet-out-bad-buffer", lambda x: W.packet_out(x, W.a_output(2), b"", buffer_id=77, in_port=1), ("error", W.OFPET_BAD_REQUEST, W.OFPBRC_BUFFER_UNKNOWN)))
  # names the buffer id of the most recent packet-in (1 if none was seen): fine once, "already used" afterwards, "unknown"
  # if the switch never handed that id out
  a(("packet-out-last-buffer", lambda x, b=1: W.packet_out(x, W.a_output(2), b"", buffer_id=b, in_port=3), ("buffer",)))
  # boundary buffer ids: 0, the first id past n_buffers, the largest id that is not NO_BUFFER
  for b_id in (0, 5, 0xfffffffe):
    a(("packet-out-buffer-%x" % b_id, lambda x, b=b_id: W.packet_out(x, W.a_output(2), b"", buffer_id=b, in_port=3), ("buffer", b_id)))
  a(("flow-add-buffer-0",) + flow_req(W.OFPFC_ADD, "in1", 2, buf="zero"))
  a(("packet-out-bad-action", lambda x: W.packet_out(x, W.a_raw(0x55), FRAME, in_port=1), ("error", W.OFPET_BAD_ACTION, W.OFPBAC_BAD_TYPE)))
  # header-only request types with a body attached: the length does not fit the type
  a(("barrier-with-body", lambda x: W.msg(W.BARRIER_REQUEST, x, b"\0\0\0\0"), ("error", W.OFPET_BAD_REQUEST, W.OFPBRC_BAD_LEN)))
  a(("get-config-with-body", lambda x: W.msg(W.GET_CONFIG_REQUEST, x, b"\0" * 8), ("error", W.OFPET_BAD_REQUEST, W.OFPBRC_BAD_LEN)))
  a(("vendor", lambda x: W.vendor(x, 0x1234, b"\0\0\0\0"), ("error", W.OFPET_BAD_REQUEST, W.OFPBRC_BAD_VENDOR)))
  a(("hello", lambda x: W.hello(x), ("none",)))
  a(("echo-reply", lambda x: W.echo_reply(x, b"zz"), ("none",)))
  a(("unknown-type", lambda x: W.msg(0x30, x, b"\0" * 8), ("error", W.OFPET_BAD_REQUEST, W.OFPBRC_BAD_TYPE)))
  # flow-mods with long action lists (n output actions to port 2): the boundary values at which the statistics of two
  # entries (4084 | 4085) and of one entry (8179 | 8180) stop fitting into a single 64 KB statistics reply
  for nact in BIG_ACTS:
    a(("flow-add-%d-actions" % nact,) + flow_req(W.OFPFC_ADD, "in1", 2, nact=nact))
    a(("flow-add-other-%d-actions" % nact,) + flow_req(W.OFPFC_ADD, "in2", 2, nact=nact))
  # well-formed messages of the types only a switch sends: a switch does not support them as requests (OFPBRC_BAD_TYPE:
  # "ofp_header.type not supported"); an error message is answered with nothing or with that error
  port = W.phy_port(1, MAC1(9, 1), b"p1")
  for tn, build in (("features-reply", lambda x: S.features_reply(x, 9, ports=(port,))),
                    ("features-reply-no-ports", lambda x: S.features_reply(x, 9)),
                    ("get-config-reply", lambda x: S.get_config_reply(x)),
                    ("packet-in", lambda x: S.packet_in(x, FRAME)),
                    ("flow-removed", lambda x: S.flow_removed(x, W.match())),
                    ("port-status", lambda x: S.port_status(x, W.OFPPR_MODIFY, port)),
                    ("stats-reply-desc", lambda x: S.stats_reply(x, W.OFPST_DESC, S.desc_stats_body())),
                    ("stats-reply-flow-empty", lambda x: S.stats_reply(x, W.OFPST_FLOW)),
                    ("barrier-reply", lambda x: S.barrier_reply(x)),
                    ("queue-get-config-reply", lambda x: W.msg(W.QUEUE_GET_CONFIG_REPLY, x, struct.pack("!H6x", 1)))):
    a(("s2c-" + tn, build, ("error", W.OFPET_BAD_REQUEST, W.OFPBRC_BAD_TYPE)))
  a(("error-from-controller", lambda x: S.error(x, W.OFPET_BAD_REQUEST, W.OFPBRC_BAD_TYPE, W.echo_request(7)), ("maybe", W.OFPET_BAD_REQUEST)))
  # requests of the alphabet with another version in the header: one error (OFPBRC_BAD_VERSION; at the start of a
  # connection also OFPET_HELLO_FAILED) or the connection is given up
  base = dict((r[0], r[1]) for r in R)
  for v in VERSIONS:
    for bn in VERSION_BASES:
      a(("version-%x-%s" % (v, bn), (lambda x, v=v, f=base[bn]: bytes([v]) + f(x)[1:]), ("version",)))
  return R


class Model (object):
  """What a controller can infer about the switch from the requests it sent and the answers it saw.
  A value of None (tx, lookups, matched) or vague=True (flow table) means "the specification does not say what the
  switch did"; clauses that depend on such a value are not evaluated until the value is known again."""
  def __init__ (self, base=None):
    self.miss_send_len = 128; self.flags = 0
    # ports: the description a pristine twin of the switch gives of itself (see _baseline); config bits as changed by the
    # port-mods of the history (pknown = mask of bits whose value is determined); state as last announced in a port-status
    self.base = base or {}
    self.pcfg = dict((p, d["config"]) for p, d in self.base.get("ports", {}).items())
    self.pstate = dict((p, d["state"]) for p, d in self.base.get("ports", {}).items())
    self.pknown = dict((p, 0xffffffff) for p in self.pcfg)
    self.flows = {}             # "in1"/"in2"/"in3" -> port its output actions name
    self.nact = {}              # "in1"/"in2"/"in3" -> number of (8-byte output) actions of the entry
    self.vague = False          # table contents not determined (a flow-mod was answered with a buffer error)
    self.tx = {1: 0, 2: 0, 3: 0, 4: 0}
    self.lookups = 0; self.matched = 0          # table counters (packets submitted to the table)
    self.issued = set(); self.used = set(); self.last_buf = None      # buffer ids seen in packet-ins / consumed
    self.limbo = set()          # issued ids of which it is not specified whether they were consumed

  def count (self, pred=lambda k, o: True):
    return sum(1 for k, o in self.flows.items() if pred(k, o))

  def apply (self, name):
    if name == "set-config-64": self.miss_send_len, self.flags = 64, 0
    elif name == "set-config-0": self.miss_send_len, self.flags = 0, 0
    elif name == "set-config-max": self.miss_send_len, self.flags = 0xffff, 1
    elif name == "packet-out": self.sent(2)
    elif name == "packet-out-flood": self.fan_out(flood=True)
    elif name == "packet-out-all": self.fan_out(flood=False)
    elif name == "packet-out-table-1": self.lookup("in1")
    elif name == "packet-out-table-3": self.lookup("in3")

  def pbits (self, port, bits):
    """Value of the config bits `bits` of a port, None if one of them is not determined."""
    if port not in self.pcfg or (self.pknown[port] & bits) != bits: return None
    return self.pcfg[port] & bits

  def sent (self, port, times=1):
    """A packet is output to a physical port (`times` output actions): transmitted (and counted) unless the port is down
    or does not forward."""
    if self.tx is None: return
    blocked = self.pbits(port, W.OFPPC_PORT_DOWN | W.OFPPC_NO_FWD)
    if blocked is None: self.tx = None
    elif blocked: pass
    elif self.pstate.get(port, 0) & W.OFPPS_LINK_DOWN: self.tx = None       # link announced down on a port configured up
    else: self.tx[port] += times

  def flow_stats_size (self, pred=lambda k, o: True):
    """Bytes of a single flow-stats reply listing the entries selected by `pred` (None: table contents not determined),
    and the size of the largest entry: ofp_stats_reply header 12, ofp_flow_stats 88 + 8 per output action."""
    if self.vague: return None, None
    sizes = [88 + 8 * self.nact.get(k, 0) for k, o in self.flows.items() if pred(k, o)]
    return 12 + sum(sizes), max(sizes or [0])

  def fan_out (self, flood):
    """packet-out to OFPP_FLOOD / OFPP_ALL with in_port NONE: every port, FLOOD without the NO_FLOOD ones."""
    for port in PORTS:
      if flood:
        nf = self.pbits(port, W.OFPPC_NO_FLOOD)
        if nf is None: self.tx = None
        if nf is None or nf: continue
      self.sent(port)

  def port_step (self, desc):
    """Expected answer to a port-mod and its effect: returns (expectation, effect(replies))."""
    _, port, hw, config, mask = desc
    PMF = W.OFPET_PORT_MOD_FAILED
    nothing = lambda replies: None
    # a refused port-mod ("request failed") leaves the port as it was
    if port not in PORTS: return ("error", PMF, W.OFPPMFC_BAD_PORT), nothing
    if hw != "own":
      def unanswered (replies):
        # not refused (already reported): what became of the port is then not judged on top of that
        if not replies and port in self.pknown: self.pknown[port] &= ~mask & 0xffffffff
      return ("error", PMF, W.OFPPMFC_BAD_HW_ADDR), unanswered
    hard = mask & PC_HARD; soft = mask & ~PC_HARD & 0xffffffff
    def eff (replies):
      if port not in self.pcfg: return
      if replies:         # refused (acceptable only for soft bits): nothing in the mask is determined any more
        self.pknown[port] &= ~mask & 0xffffffff
      else:
        self.pcfg[port] = (self.pcfg[port] & ~hard) | (config & hard)
        self.pknown[port] = (self.pknown[port] | hard) & ~soft & 0xffffffff
    return (("maybe", PMF) if soft else ("none",)), eff

  def lookup (self, key):
    # a packet-out to OFPP_TABLE names an in_port; whether a port that does not receive (NO_RECV) or is down still
    # submits such a packet to the table is not specified
    if key.startswith("in") and self.pbits(int(key[2:]), W.OFPPC_NO_RECV | W.OFPPC_PORT_DOWN) != 0:
      self.lookups = None; self.matched = None; self.tx = None
      return
    if self.lookups is not None: self.lookups += 1
    if self.vague:
      self.matched = None; self.tx = None
    elif key in self.flows:
      if self.matched is not None: self.matched += 1
      self.sent(self.flows[key], self.nact.get(key, 1))

  def buffer_state (self, b_id):
    if b_id not in self.issued: return "unknown"
    if b_id in self.limbo: return "limbo"
    if b_id in self.used: return "empty"
    return "ok"

  def buffer_maybe_used (self, b_id, out):
    """The packet in buffer b_id may or may not have been sent / released."""
    self.limbo.add(b_id)
    if out is not None: self.tx = None

  def buffer_used (self, b_id, out, nact=1):
    self.used.add(b_id)
    if out is not None: self.sent(out, nact)
    # whether a buffered packet handed to a flow-mod counts as a table lookup is not specified
    self.lookups = None; self.matched = None

  def flow_step (self, desc, b_id):
    """Expected answer to a flow-mod and its effect: returns (expectation, effect(replies))."""
    _, cmd, key, out, flags, buf, nact = desc
    FMF, BR = W.OFPET_FLOW_MOD_FAILED, W.OFPET_BAD_REQUEST
    bs = None if buf is None else self.buffer_state(b_id)
    buf_err = {"unknown": (BR, W.OFPBRC_BUFFER_UNKNOWN), "empty": (BR, W.OFPBRC_BUFFER_EMPTY), "limbo": (BR, None)}.get(bs)
    nothing = lambda replies: None
    # -- is the flow-mod itself carried out?
    rej = None; change = None
    if cmd not in (W.OFPFC_ADD, W.OFPFC_MODIFY, W.OFPFC_MODIFY_STRICT, W.OFPFC_DELETE, W.OFPFC_DELETE_STRICT):
      rej = (FMF, W.OFPFMFC_BAD_COMMAND)
    elif flags & W.OFPFF_EMERG:
      rej = (FMF, None)                     # emergency entries are not supported; the specification names no single code
    elif cmd in (W.OFPFC_DELETE, W.OFPFC_DELETE_STRICT):
      def change ():
        if key == "all": self.flows.clear(); self.nact.clear(); self.vague = False
        else: self.flows.pop(key, None); self.nact.pop(key, None)
      if bs is None:
        return ("none",), lambda replies: change()
      # buffer_id is "not meaningful for OFPFC_DELETE*": silence and a BAD_REQUEST error are both fine
      def eff (replies):
        if replies: self.vague = True
        else: change()
        if bs == "ok": self.buffer_maybe_used(b_id, out)
      return ("maybe", BR), eff
    elif self.vague:
      # the table contents are not determined, so neither is OVERLAP / ALL_TABLES_FULL
      def eff (replies):
        if bs == "ok": self.buffer_maybe_used(b_id, out)
      if bs in ("unknown", "empty"):      # refused for one reason or the other (or both), never silence
        return ("errors", ((FMF, None), buf_err)), eff
      return ("any",), eff
    else:
      as_add = cmd == W.OFPFC_ADD or key not in self.flows
      if cmd == W.OFPFC_ADD and (flags & W.OFPFF_CHECK_OVERLAP) and key in self.flows:
        rej = (FMF, W.OFPFMFC_OVERLAP)
      elif as_add and key not in self.flows and len(self.flows) >= CAPACITY:
        rej = (FMF, W.OFPFMFC_ALL_TABLES_FULL)
      else:
        def change (): self.flows[key] = out; self.nact[key] = nact
    if rej is not None:
      if bs is None: return ("error",) + rej, nothing
      if bs == "ok":
        # refused flow-mod naming a valid buffer: whether the buffer is still released is not specified
        return ("error",) + rej, lambda replies: self.buffer_maybe_used(b_id, out)
      # refused for two reasons: either error (or one of each) answers the request
      return ("errors", (rej, buf_err)), nothing
    # carried out
    if bs is None:
      if nact > 1:
        # a switch may refuse an action list it cannot handle (OFPBAC_TOO_MANY); then nothing is installed
        return ("maybe", W.OFPET_BAD_ACTION, W.OFPBAC_TOO_MANY), lambda replies: None if replies else change()
      return ("none",), lambda replies: change()
    if bs in ("unknown", "empty"):
      # the error is specified; whether the table was changed before the buffer was looked at is not
      def eff (replies): self.vague = True
      return ("error",) + buf_err, eff
    if bs == "limbo":
      def eff (replies):
        if replies: self.vague = True
        else: change()
        self.tx = None if out is not None else self.tx
        self.lookups = None; self.matched = None
      return ("maybe", BR), eff
    def eff (replies):
      change(); self.buffer_used(b_id, out, nact)
    return ("none",), eff


def xids_for (n, scheme=None):
  if scheme == "edge": return [EDGE_XIDS[i % len(EDGE_XIDS)] for i in range(n)]
  return [0x51000000 + i for i in range(n)]


def norm_stream (stream):
  """The reply stream with the xids of asynchronous messages (port-status: taken from a process-wide counter by pox, not
  specified by OpenFlow) and of HELLO_FAILED errors (version negotiation: not an answer to a request) blanked, so that
  streams of different runs can be compared."""
  if not stream: return stream
  msgs, rest = W.split(stream)
  free = lambda m: m[1] == W.PORT_STATUS or (m[1] == W.ERROR and m[8:10] == b"\0\0")
  return b"".join(m[:4] + b"\0\0\0\0" + m[8:] if free(m) else m for m in msgs) + rest


def coalesce (replies):
  """The parts of a multi-part statistics reply (same xid and statistics type, OFPSF_REPLY_MORE set on every part but the
  last) count as ONE reply whose body is the concatenation of the parts."""
  out = []
  for r in replies:
    prev = out[-1] if out else None
    if (prev is not None and prev["type"] == W.STATS_REPLY and r["type"] == W.STATS_REPLY and (prev["flags"] & W.OFPSF_REPLY_MORE)
        and r["xid"] == prev["xid"] and r["stype"] == prev["stype"]):
      m = dict(prev); m["flags"] = r["flags"]; m["body"] = prev["body"] + r["body"]; m["parts"] = prev.get("parts", 1) + 1
      for k in ("flows", "tables", "ports", "queues"):
        if k in prev or k in r: m[k] = list(prev.get(k, [])) + list(r.get(k, []))
      if "wellformed" in prev or "wellformed" in r: m["wellformed"] = prev.get("wellformed", True) and r.get("wellformed", True)
      out[-1] = m
    else:
      out.append(r)
  return out


FLOW_STATS_SCOPE = {"stats-flow": lambda k, o: True, "stats-flow-in2": lambda k, o: k == "in2", "stats-flow-out2": lambda k, o: o == 2,
                    "stats-flow-table1": lambda k, o: False}


def check_history (names, reqs, rep, stack_factory, batch=False, raws=None, xids=None):
  """Run one history; returns list of (key, what)."""
  st = stack_factory()
  model = Model(_baseline())
  bad = []
  outputs = []
  xids = xids_for(len(names), xids)
  if raws is None: raws = [reqs[n][0](x) for n, x in zip(names, xids)]
  else: raws = list(raws)
  if batch == "split":
    # every message arrives in two segments (cut after the 4th byte of its header / in the middle of longer ones)
    try:
      for raw in raws:
        k = 4 if len(raw) <= 12 else len(raw) // 2
        for seg in (raw[:k], raw[k:]):
          if st.worker.closed or st.worker._shutdown_send: break          # nothing is delivered to a closed connection
          st.feed(seg)
    except Exception as e:
      return [("%s:%s:escaped-exception" % (PID, keyname(names[-1])), "exception escaped the switch's read loop: %s: %s" % (type(e).__name__, e))], None
    return [], norm_stream(st.drain())
  if batch:
    try:
      st.feed(b"".join(raws))
    except Exception as e:
      return [("%s:%s:escaped-exception" % (PID, keyname(names[-1])), "exception escaped the switch's read loop: %s: %s" % (type(e).__name__, e))], None
    stream = st.drain()
    return [], norm_stream(stream)
  total = b""
  BR = W.OFPET_BAD_REQUEST
  check_history.refused = False
  settled = False             # has the switch taken a version-1 message as a request yet?
  for i, (n, x, raw) in enumerate(zip(names, xids, raws)):
    exp = reqs[n][1]
    post = lambda replies, n=n: model.apply(n)
    if exp[0] == "buffer":
      if len(exp) > 1: b_id = exp[1]              # a fixed (boundary) id
      else:
        b_id = model.last_buf or 1
        raw = raws[i] = reqs[n][0](x, b_id)
      bs = model.buffer_state(b_id)
      post = lambda replies: None
      if bs == "unknown": exp = ("error", BR, W.OFPBRC_BUFFER_UNKNOWN)
      elif bs == "empty": exp = ("error", BR, W.OFPBRC_BUFFER_EMPTY)
      elif bs == "limbo":
        exp = ("maybe", BR); model.tx = None
      else:
        exp = ("none",); model.used.add(b_id); model.sent(2)
    elif exp[0] == "flow":
      b_id = model.last_buf or 1
      if exp[5] == "last": raw = raws[i] = reqs[n][0](x, b_id)
      elif exp[5] == "bad": b_id = BAD_BUFFER
      elif exp[5] == "zero": b_id = 0
      exp, post = model.flow_step(exp, b_id)
    elif exp[0] == "portmod":
      exp, post = model.port_step(exp)
    elif exp[0] == "version":
      # the start of a connection is where versions are negotiated: HELLO_FAILED (the switch may then close) or BAD_VERSION;
      # once the switch has taken a version-1 message as a request (not refused it as a bad request) the version of the
      # connection is settled and a message with another one is a bad request
      post = lambda replies: None
      exp = ("version", settled)
    over = ""
    if n in FLOW_STATS_SCOPE:
      # a statistics reply that does not fit one message comes in parts; an entry that fits no message at all: any answer
      need, largest = model.flow_stats_size(FLOW_STATS_SCOPE[n])
      if need is not None and need > MAX_MSG:
        over = "reply"
        if 12 + largest > MAX_MSG: exp = ("answer",); over = "entry"
    n = keyname(n)          # from here on the name is only used in keys and texts
    try:
      st.feed(raw)
    except Exception as e:
      bad.append(("%s:%s:escaped-exception" % (PID, n), "exception escaped the switch's read loop: %s: %s" % (type(e).__name__, e)))
      break
    rep.transitions += 1
    out = st.drain(); total += out
    msgs, rest = W.split(out)
    if rest:
      bad.append(("%s:%s:garbled-output" % (PID, n), "switch wrote bytes that do not frame as OpenFlow messages")); break
    ds = [W.decode(m) for m in msgs]
    replies = coalesce([d for d in ds if d["type"] not in W.ASYNC_TYPES])
    if any(d["type"] == W.ERROR for d in replies): check_history.refused = True
    if raw[0] == W.VERSION and not any(d["type"] == W.ERROR and d["etype"] == BR for d in replies): settled = True
    for d in ds:
      if d["type"] == W.PACKET_IN and d.get("buffer_id", W.NO_BUFFER) != W.NO_BUFFER:
        model.issued.add(d["buffer_id"]); model.used.discard(d["buffer_id"]); model.limbo.discard(d["buffer_id"])
        model.last_buf = d["buffer_id"]
      elif d["type"] == W.PORT_STATUS and d["desc"]["port_no"] in model.pstate:
        model.pstate[d["desc"]["port_no"]] = d["desc"]["state"]          # the switch announces a port's new state
    kind = exp[0]
    dropped = st.worker.closed or st.worker._shutdown_send
    if kind == "version":
      # a message with another version is not one of the messages the statement quantifies over (the switch cannot even
      # rely on its framing): it is either answered with exactly one error - BAD_REQUEST/BAD_VERSION with the message's xid
      # and header; while the version is not settled also HELLO_FAILED/INCOMPATIBLE (xid and data are the switch's choice) -
      # or the switch gives the connection up (whether the close is carried out is C10's business).  Not silence on a
      # connection that stays open.
      allowed = ((BR, W.OFPBRC_BAD_VERSION),) + (() if exp[1] else ((W.OFPET_HELLO_FAILED, 0),))
      ok = [r for r in replies if r["type"] == W.ERROR and (r["etype"], r["code"]) in allowed]
      if not replies:
        if not dropped:
          bad.append(("%s:%s:no-reply" % (PID, n), "a message with another version (xid %#x) produced no error and the connection was not given up" % x))
      elif len(replies) != 1 or not ok:
        bad.append(("%s:%s:wrong-reply" % (PID, n), "a message with another version answered with %s, version %s"
                    % ([(r["t"], r.get("etype"), r.get("code")) for r in replies], "settled" if exp[1] else "not settled")))
      elif ok[0]["etype"] == BR and (ok[0]["xid"] != x or ok[0]["data"][:8] != raw[:8]):
        bad.append(("%s:%s:wrong-xid" % (PID, n), "BAD_VERSION error does not carry the xid / header of the refused message"))
      if dropped: break
      continue
    if dropped:
      bad.append(("%s:%s:connection-dropped" % (PID, n), "switch closed the connection after %s" % n)); break
    if kind == "none":
      if replies:
        bad.append(("%s:%s:unexpected-reply" % (PID, n), "%s needs no reply but the switch sent %s" % (n, [r["t"] for r in replies])))
      post(replies)
      continue
    most = len(exp[1]) if kind == "errors" else 1
    if len(replies) == 0 and kind not in ("maybe", "any"):
      if over: bad.append(("%s:stats-%s-over-64K:no-reply" % (PID, over), "%s (xid %#x) produced neither a (multi-part) reply nor an error: "
                           "the entries to report need %d bytes, the largest %d" % (n, x, need - 12, largest)))
      else: bad.append(("%s:%s:no-reply" % (PID, n), "%s (xid %#x) produced neither a reply nor an error" % (n, x)))
      post(replies); continue
    if len(replies) > most:
      bad.append(("%s:%s:multiple-replies" % (PID, n), "%s produced %d messages: %s" % (n, len(replies), [r["t"] for r in replies])))
      if kind in ("maybe", "any", "errors"): post(replies)
      continue
    for r in replies:
      if r["xid"] != x:
        bad.append(("%s:%s:wrong-xid" % (PID, n), "%s sent with xid %#x answered with xid %#x" % (n, x, r["xid"])))
    r = replies[0] if replies else None
    if r is not None and r["type"] == W.STATS_REPLY and (r["flags"] & W.OFPSF_REPLY_MORE):
      bad.append(("%s:%s:stats-more-without-last-part" % (PID, n), "the last statistics reply for %s has OFPSF_REPLY_MORE set" % n))
    if kind in ("answer", "any") or r is None:
      pass        # any single reply or error will do (specification names no code)
    elif kind == "reply":
      if r["type"] != exp[1]:
        bad.append(("%s:%s:wrong-reply-type" % (PID, n), "%s answered with %s" % (n, r["t"])))
      else:
        bad.extend(check_body(n, r, raw, model, st))
    elif kind == "stats":
      if r["type"] != W.STATS_REPLY or r.get("stype") != exp[1]:
        bad.append(("%s:%s:wrong-reply-type" % (PID, n), "%s answered with %s/%s" % (n, r["t"], r.get("stype"))))
      else:
        bad.extend(check_body(n, r, raw, model, st))
    else:
      # error | maybe (an error of the given type, if anything) | errors (one error per reason, at least one)
      allowed = [tuple(exp[1:])] if kind == "error" else [(exp[1], exp[2] if len(exp) > 2 else None)] if kind == "maybe" else list(exp[1])
      for r in replies:
        if r["type"] != W.ERROR:
          bad.append(("%s:%s:wrong-reply-type" % (PID, n), "%s must be refused with an error, got %s" % (n, r["t"])))
          continue
        hit = [a for a in allowed if r["etype"] == a[0] and (a[1] is None or r["code"] == a[1])]
        if not hit:
          bad.append(("%s:%s:wrong-error-code" % (PID, n), "%s refused with error type %d code %d, specification says %s"
                      % (n, r["etype"], r["code"], " or ".join("type %d code %s" % a for a in allowed) if allowed else "nothing more")))
        else:
          if kind == "errors": allowed.remove(hit[0])        # one error per reason
        want = raw[:64]
        # POX re-encodes the decoded request (normalised wildcards / max_len), so only the header of the
        # echoed request and the amount of data are compared (see DESIGN.md, C13 scoping)
        if not (r["data"][:8] == raw[:8] and len(r["data"]) >= len(want)):
          bad.append(("%s:%s:error-data" % (PID, n), "error data is not (at least the first 64 bytes of) the failed request"))
    post(replies)
  check_history.last_raws = raws
  return bad, norm_stream(total)


def check_body (n, r, raw, model, st):
  bad = []
  def b (clause, what): bad.append(("%s:%s:%s" % (PID, n, clause), what))
  if n.startswith("echo-"):
    if r["body"] != raw[8:]: b("echo-body", "echo reply body differs from the request body")
  elif n == "features":
    if r["dpid"] != 1 or sorted(p["port_no"] for p in r["ports"]) != [1, 2, 3, 4] or r["n_tables"] != 1:
      b("features-data", "features reply does not describe the switch (dpid %s ports %s)" % (r["dpid"], [p["port_no"] for p in r["ports"]]))
    elif model.base:
      # the switch as a whole and every port: what does not depend on the history is what a pristine twin reports
      if r["n_buffers"] != 4 or any(r[f] != model.base[f] for f in ("capabilities", "actions", "n_buffers")):
        b("features-data:switch-desc", "features reply n_buffers/capabilities/actions %r differ from the switch's own first description %r"
          % ([r[f] for f in ("n_buffers", "capabilities", "actions")], [model.base[f] for f in ("n_buffers", "capabilities", "actions")]))
      for p in r["ports"]:
        no = p["port_no"]; first = model.base["ports"][no]
        fixed = ("hw_addr", "name", "curr", "advertised", "supported", "peer")
        if any(p[f] != first[f] for f in fixed):
          b("features-data:port-desc", "port %d is described as %r, the switch first described it as %r"
            % (no, [p[f] for f in fixed], [first[f] for f in fixed]))
        # config: the bits every accepted port-mod set or cleared, the rest as it was (refused port-mods change nothing)
        wrong = (p["config"] ^ model.pcfg[no]) & model.pknown[no]
        for bn, bit in PC_BITS + (("undefined-bits", 0xffffffff & ~PC_DEFINED),):
          if wrong & bit:
            b("features-data:port-config:%s" % bn, "port %d config %#x, the port-mods of the history leave it at %#x (bits judged: %#x)"
              % (no, p["config"], model.pcfg[no], model.pknown[no]))
        if not wrong:
          model.pcfg[no] = p["config"]; model.pknown[no] = 0xffffffff          # bits not judged so far are now observed
        # state: what the switch last announced in a port-status for this port (its first description if it never did)
        if p["state"] != model.pstate[no]:
          b("features-data:port-state", "port %d state %#x, the switch last announced %#x" % (no, p["state"], model.pstate[no]))
  elif n == "get-config":
    if (r["miss_send_len"], r["flags"]) != (model.miss_send_len, model.flags):
      b("config-data", "get-config reply %r does not reflect the last set-config %r" % ((r["miss_send_len"], r["flags"]), (model.miss_send_len, model.flags)))
  elif n == "stats-desc":
    if "desc" not in r: b("stats-body", "desc stats body has %d bytes, specification says 1056" % len(r["body"]))
  elif n == "stats-flow":
    if not r["wellformed"] or (not model.vague and len(r["flows"]) != len(model.flows)):
      b("stats-body", "flow stats lists %d flows, %d installed" % (len(r.get("flows", [])), len(model.flows)))
  elif n in ("stats-flow-table1", "stats-flow-in2", "stats-flow-out2"):
    want = {"stats-flow-table1": 0, "stats-flow-in2": int("in2" in model.flows),
            "stats-flow-out2": model.count(lambda k, o: o == 2)}[n]
    if not r["wellformed"] or ((n == "stats-flow-table1" or not model.vague) and len(r["flows"]) != want):
      b("stats-body", "%s lists %d flows, expected %d" % (n, len(r.get("flows", [])), want))
  elif n == "stats-aggregate-table1":
    if r.get("flow_count") != 0:
      b("stats-body", "aggregate stats for table 1 flow_count %r, expected 0" % (r.get("flow_count"),))
  elif n == "stats-aggregate":
    if r.get("flow_count") is None or (not model.vague and r.get("flow_count") != len(model.flows)):
      b("stats-body", "aggregate stats flow_count %r, %d installed" % (r.get("flow_count"), len(model.flows)))
  elif n == "stats-table":
    if not r["wellformed"] or len(r["tables"]) != 1 or (not model.vague and r["tables"][0]["active_count"] != len(model.flows)):
      b("stats-body", "table stats %r, expected one table with active_count %d" % (r.get("tables"), len(model.flows)))
    elif (model.lookups is not None and r["tables"][0]["lookup_count"] != model.lookups) or \
         (model.matched is not None and r["tables"][0]["matched_count"] != model.matched):
      b("stats-body:lookup-counters", "table stats lookup/matched counts %r, %s packets were submitted to the table and %s matched"
        % ((r["tables"][0]["lookup_count"], r["tables"][0]["matched_count"]), model.lookups, model.matched))
  elif n == "stats-port-all":
    got = dict((p["port_no"], p["tx_packets"]) for p in r["ports"])
    if not r["wellformed"] or sorted(got) != [1, 2, 3, 4] or (model.tx is not None and got != model.tx):
      b("stats-body", "port stats tx_packets %r, expected %r" % (got, model.tx))
  elif n == "stats-port-2":
    got = [(p["port_no"], p["tx_packets"]) for p in r["ports"]]
    if [g[0] for g in got] != [2] or (model.tx is not None and got != [(2, model.tx[2])]):
      b("stats-body", "port stats for port 2: %r, expected tx_packets %s" % (got, model.tx and model.tx[2]))
  elif n == "stats-queue-all":
    if r["queues"]: b("stats-body", "queue stats lists queues on a switch without queues")
  elif n == "queue-get-config":
    if r["port"] != 1: b("reply-data", "queue-get-config reply is for port %d" % r["port"])
  return bad


_BASE = []

def _baseline ():
  """What a pristine twin of the switch under test says about itself in its first features reply: the part of the
  description that OpenFlow leaves to the switch (initial port config/state, names, addresses, capabilities)."""
  if not _BASE:
    base = {}
    try:
      st = _stack(); st.feed(W.features_request(1))
      ds = [W.decode(m) for m in W.split(st.drain())[0]]
      ds = [d for d in ds if d["type"] == W.FEATURES_REPLY]
      if ds and sorted(p["port_no"] for p in ds[0]["ports"]) == list(PORTS):
        base = dict(ds[0]); base["ports"] = dict((p["port_no"], p) for p in ds[0]["ports"])
    except Exception:
      base = {}           # the history that asks for the features meets the same failure and reports it
    _BASE.append(base)
  return _BASE[0]


def _stack ():
  from mc.env import SwitchStack, VClock
  # table capacity 2, three distinct flows in the alphabet: re-adding an installed flow happens at capacity, a third
  # flow is refused with ALL_TABLES_FULL; 4 packet buffers
  return SwitchStack(dpid=1, ports=4, max_buffers=4, clock=VClock(), max_entries=CAPACITY)


# ---- switch configurations ---------------------------------------------------------------------------------------------
# The same requests against switches that were set up differently through the switch's public API: how many ports, which
# port numbers, how the ports were made (ports=N | generate_port | an ofp_phy_port built by the caller | add_port(port) and
# add_port(number) on the connected switch | delete_port), which names they carry, and the constructor parameters that
# replies report.  The reference is the configuration itself.
CFG_BASE = (("dpid", 1), ("max_buffers", 4), ("max_entries", CAPACITY), ("miss_send_len", 128))
CFG_PORT_NOS = (1, 2, 255, 256, 999, 1000, 9999, 10000, 0xff00, 0xfffe)        # digits 1..5, OFPP_MAX, OFPP_LOCAL
CFG_NAMES = {"generated": None, "ascii-1": "a", "ascii-15": "port-name-15-ch", "ascii-16": "port-name-16-chr",
             # names with characters outside ASCII (U+00FC): 15 / 16 / 8 / 16 characters = 16 / 17 / 16 / 32 bytes of UTF-8
             "nonascii-1-of-15": "Z\u00fcrich-uplink-1", "nonascii-1-of-16": "Z\u00fcrich-uplink-01",
             "nonascii-8": "\u00fc" * 8, "nonascii-16": "\u00fc" * 16}
CFG_COUNTS = (0, 1, 4, 48, 630, 631, 999, 1000)          # 12 + 104 n (port statistics) crosses 65535 between 630 and 631
CFG_PARAMS = (("dpid", (0xffff, 0x10000, 0xffffff, 2**48 - 1, 2**48, 2**64 - 1)), ("max_buffers", (0, 1, 0xffffffff)),
              ("max_entries", (1, 0x7fffffff, 0xffffffff)), ("miss_send_len", (0, 1, 0xffff)))
CFG_HW = lambda no: bytes((2, 0xc0, 0xff, 0xee, no >> 8, no & 0xff))


def configs (cfg):
  """(route, port_no or count, name kind, parameter deviations)"""
  out = [("count", n, "generated", ()) for n in CFG_COUNTS]
  for no in CFG_PORT_NOS:
    for nk in CFG_NAMES:
      out.append(("generate_port", no, nk, ()))
      if nk != "generated": out.append(("ofp_phy_port", no, nk, ()))
      out.append(("add_port(port)", no, nk, ()))
    out.append(("add_port(int)", no, "generated", ()))
  for no in (1, 2, 4):
    out += [("delete_port(int)", no, "generated", ()), ("delete_port(port)", no, "generated", ()), ("delete+add", no, "generated", ())]
  for k, vs in CFG_PARAMS:
    out += [("count", 4, "generated", ((k, v),)) for v in vs]
  return out


def config_class (desc):
  route, no, nk, params = desc
  if params: return "param-" + params[0][0]
  if route in ("count", "generate_port", "ofp_phy_port", "add_port(port)"): return "%s-name" % nk
  if route.startswith("delete_port"): return "delete_port"
  return route


def _config_stack (desc):
  """Build the switch of a configuration; returns (stack, expectation, exception raised by the switch's API or None).
  expectation: dict(dpid, max_buffers, max_entries, miss_send_len, ports {port_no: (name or None, hw_addr or None)},
  subject = the port the configuration is about, unsure = ports whose existence is not judged)."""
  from mc.env import SwitchStack, VClock
  import pox.datapaths.switch as sw
  import pox.openflow.libopenflow_01 as of
  from pox.lib.addresses import EthAddr
  route, no, nk, params = desc
  kw = dict(CFG_BASE); kw.update(params)
  dpid = kw.pop("dpid")
  exp = dict(kw, dpid=dpid, ports={}, subject=None, unsure=set())
  name = CFG_NAMES[nk]
  other = 3 if no != 3 else 5
  probe = sw.SoftwareSwitch(dpid, ports=0)
  def made (how):
    if how == "ofp_phy_port":
      return of.ofp_phy_port(port_no=no, hw_addr=EthAddr(CFG_HW(no)), name=name), (name, CFG_HW(no))
    return (probe.generate_port(no) if name is None else probe.generate_port(no, name=name)), (name, None)
  api = None
  if route == "count":
    st = SwitchStack(dpid=dpid, ports=no, clock=VClock(), **kw)
    exp["ports"] = dict((i, (None, None)) for i in range(1, no + 1))
    exp["subject"] = no if no else None
  elif route in ("generate_port", "ofp_phy_port"):
    port, what = made(route)
    st = SwitchStack(dpid=dpid, ports=[probe.generate_port(other), port], clock=VClock(), **kw)
    exp["ports"] = {other: (None, None), no: what}; exp["subject"] = no
  elif route in ("add_port(port)", "add_port(int)"):
    st = SwitchStack(dpid=dpid, ports=[probe.generate_port(other)], clock=VClock(), **kw)
    st.feed(W.hello(0)); st.drain()
    if route == "add_port(int)": arg, what = no, (None, None)
    else: arg, what = made("generate_port")
    exp["ports"] = {other: (None, None), no: what}; exp["subject"] = no
    try: st.sw.add_port(arg)
    except Exception as e:
      api = "%s: %s" % (type(e).__name__, e); exp["unsure"].add(no)          # refused by the API: the port may or may not exist
  else:
    st = SwitchStack(dpid=dpid, ports=4, clock=VClock(), **kw)
    st.feed(W.hello(0)); st.drain()
    exp["ports"] = dict((i, (None, None)) for i in PORTS); exp["subject"] = other if other in PORTS else 3
    try:
      st.sw.delete_port(st.sw.ports[no] if route == "delete_port(port)" else no)
      del exp["ports"][no]
      if route == "delete+add":
        st.sw.add_port(st.sw.generate_port(no)); exp["ports"][no] = (None, None); exp["subject"] = no
    except Exception as e:
      api = "%s: %s" % (type(e).__name__, e); exp["unsure"].add(no)
  return st, exp, api


def name_field_ok (field, name):
  """ofp_phy_port.name is a null-terminated string in 16 bytes; the encoding of characters outside ASCII is not specified:
  the name in Latin-1 or UTF-8, whole or clipped to the field."""
  for enc in ("latin-1", "utf-8"):
    b = name.encode(enc)
    if field in (b[:16], b[:15]): return True
  return False


def check_config (desc, rep):
  """One configuration: the requests one by one, then the same bytes in one read.  Returns (bad, outcome)."""
  cls = config_class(desc)
  bad = []
  def v (req, clause, what): bad.append(("%s:config:%s:%s:%s" % (PID, req, clause, cls), "%r: %s" % (desc, what)))
  try:
    st, exp, api = _config_stack(desc)
  except Exception as e:
    v("setup", "switch-not-built:%s" % type(e).__name__, "the switch could not be built: %s" % e)
    return bad, ("not-built",)
  want_ports = set(exp["ports"])
  def ports_ok (got):
    return len(got) == len(set(got)) and set(got) - exp["unsure"] == want_ports - exp["unsure"]
  subj = exp["subject"]
  setup = st.drain()          # port-status messages of the set-up
  if W.split(setup)[1]: v("setup", "garbled-output", "the switch wrote bytes that do not frame as OpenFlow messages while being set up")
  total = b""
  state = dict(hw=None, features=0)
  plan = [("features", lambda x: W.features_request(x), W.FEATURES_REPLY, None),
          ("get-config", lambda x: W.get_config_request(x), W.GET_CONFIG_REPLY, None),
          ("stats-desc", lambda x: W.stats_request(x, W.OFPST_DESC), W.STATS_REPLY, W.OFPST_DESC),
          ("stats-table", lambda x: W.stats_request(x, W.OFPST_TABLE), W.STATS_REPLY, W.OFPST_TABLE),
          ("stats-port-all", lambda x: W.stats_request(x, W.OFPST_PORT, W.port_stats_body(W.OFPP_NONE)), W.STATS_REPLY, W.OFPST_PORT)]
  if subj is not None and subj not in exp["unsure"]:
    plan += [("stats-port-one", lambda x: W.stats_request(x, W.OFPST_PORT, W.port_stats_body(subj)), W.STATS_REPLY, W.OFPST_PORT),
             ("port-mod", lambda x: W.port_mod(x, subj, state["hw"], W.OFPPC_NO_FLOOD, W.OFPPC_NO_FLOOD), None, None),
             ("features", lambda x: W.features_request(x), W.FEATURES_REPLY, None)]
  plan += [("barrier", lambda x: W.barrier_request(x), W.BARRIER_REPLY, None),
           ("echo", lambda x: W.echo_request(x, b"config"), W.ECHO_REPLY, None)]
  raws = []
  for i, (req, build, rtype, stype) in enumerate(plan):
    x = 0x52000000 + i
    if req == "port-mod" and state["hw"] is None: continue          # the features reply did not tell the port's address
    raw = build(x); raws.append(raw)
    try:
      st.feed(raw)
    except Exception as e:
      v(req, "escaped-exception", "exception escaped the switch's read loop: %s: %s" % (type(e).__name__, e)); break
    rep.transitions += 1
    out = st.drain(); total += out
    msgs, rest = W.split(out)
    if rest or any(W.parse_hdr(m)[0] != W.VERSION or W.parse_hdr(m)[1] >= len(W.TYPE_NAMES) for m in msgs):
      v(req, "garbled-output", "the switch wrote bytes that do not frame as OpenFlow messages"); break
    if st.worker.closed or st.worker._shutdown_send:
      v(req, "connection-dropped", "the switch closed the connection"); break
    replies = coalesce([d for d in (W.decode(m) for m in msgs) if d["type"] not in W.ASYNC_TYPES])
    if rtype is None:
      if replies: v(req, "unexpected-reply", "a port-mod naming the port's own address was answered with %s" % [r["t"] for r in replies])
      continue
    # port statistics of more ports than one message holds come in parts
    over = req == "stats-port-all" and 12 + 104 * len(want_ports) > MAX_MSG
    if not replies:
      if over: bad.append(("%s:stats-reply-over-64K:no-reply" % PID, "%r: %s produced neither a (multi-part) reply nor an error: %d ports"
                           % (desc, req, len(want_ports))))
      else: v(req, "no-reply", "%s (xid %#x) produced neither a reply nor an error" % (req, x))
      continue
    if len(replies) > 1:
      v(req, "multiple-replies", "%s produced %s" % (req, [r["t"] for r in replies])); continue
    r = replies[0]
    if r["xid"] != x: v(req, "wrong-xid", "%s sent with xid %#x answered with xid %#x" % (req, x, r["xid"]))
    if r["type"] != rtype or (stype is not None and r.get("stype") != stype):
      v(req, "wrong-reply-type", "%s answered with %s/%s" % (req, r["t"], r.get("stype"))); continue
    if r["type"] == W.STATS_REPLY and (r["flags"] & W.OFPSF_REPLY_MORE):
      v(req, "stats-more-without-last-part", "the last statistics reply has OFPSF_REPLY_MORE set")
    if req == "features":
      state["features"] += 1
      if (r["len"] - 32) % 48:
        v(req, "features-data:port-array", "the port array of the features reply has %d bytes" % (r["len"] - 32)); continue
      if r["dpid"] != exp["dpid"] or r["n_buffers"] != exp["max_buffers"] or r["n_tables"] != 1:
        v(req, "features-data:switch-desc", "dpid %#x n_buffers %d n_tables %d, configured dpid %#x and %d buffers"
          % (r["dpid"], r["n_buffers"], r["n_tables"], exp["dpid"], exp["max_buffers"]))
      got = [q["port_no"] for q in r["ports"]]
      if not ports_ok(got):
        v(req, "features-data:port-list", "ports %s, the switch has %s" % (sorted(got)[:8], sorted(want_ports)[:8]))
      for q in r["ports"]:
        name, hw = exp["ports"].get(q["port_no"], (None, None))
        if name is not None and not name_field_ok(q["name"], name):
          v(req, "features-data:port-name", "port %d is called %r, configured %r" % (q["port_no"], q["name"], name))
        if hw is not None and q["hw_addr"] != hw:
          v(req, "features-data:port-hw-addr", "port %d has address %r, configured %r" % (q["port_no"], q["hw_addr"], hw))
        if q["port_no"] == subj:
          if state["features"] == 1: state["hw"] = q["hw_addr"]; state["config"] = q["config"]
          elif q["config"] != state.get("config", 0) | W.OFPPC_NO_FLOOD:
            v(req, "features-data:port-config", "port %d config %#x after a port-mod setting NO_FLOOD on %#x" % (subj, q["config"], state.get("config", 0)))
    elif req == "get-config":
      if (r["miss_send_len"], r["flags"]) != (exp["miss_send_len"], 0):
        v(req, "config-data", "get-config reply %r, configured miss_send_len %d" % ((r["miss_send_len"], r["flags"]), exp["miss_send_len"]))
    elif req == "stats-desc":
      if "desc" not in r: v(req, "stats-body", "desc stats body has %d bytes, specification says 1056" % len(r["body"]))
    elif req == "stats-table":
      if not r["wellformed"] or len(r["tables"]) != 1 or r["tables"][0]["max_entries"] != exp["max_entries"] or r["tables"][0]["active_count"] != 0:
        v(req, "stats-body", "table stats %r, configured max_entries %d" % (r.get("tables"), exp["max_entries"]))
    elif req == "stats-port-all":
      got = [q["port_no"] for q in r["ports"]]
      if not r["wellformed"] or not ports_ok(got):
        v(req, "stats-body:port-list", "port stats for ports %s, the switch has %s" % (sorted(got)[:8], sorted(want_ports)[:8]))
    elif req == "stats-port-one":
      if [q["port_no"] for q in r["ports"]] != [subj]:
        v(req, "stats-body", "port stats for port %d lists %s" % (subj, [q["port_no"] for q in r["ports"]]))
    elif req == "echo":
      if r["body"] != b"config": v(req, "echo-body", "echo reply body differs from the request body")
  else:
    # differential: a pristine twin given the same bytes in one read must write the same stream
    try:
      st2, _, _ = _config_stack(desc); st2.drain()
      st2.feed(b"".join(raws)); rep.transitions += 1
      if not bad and norm_stream(st2.drain()) != norm_stream(total):
        v("batch", "segmentation-changes-replies", "replies differ when the requests arrive in one read")
    except Exception as e:
      v("batch", "escaped-exception", "exception escaped the switch's read loop: %s: %s" % (type(e).__name__, e))
  return bad, (api, norm_stream(setup), norm_stream(total))


def _one_config (desc, rep):
  bad, outcome = check_config(desc, rep)
  rep.evaluations += 1
  rep.outcome((desc, outcome, tuple(k for k, _ in bad)))
  for k, what in bad:
    rep.violation(k, what, dict(config=list(desc[:3]) + [[list(p) for p in desc[3]]]))
  rep.state_count += 1


def first_difference (names, stream_a, stream_b):
  """Key class of the request whose answer is the first message in which two reply streams of one history differ (the
  last request if the message cannot be attributed by its xid)."""
  ma = W.split(stream_a or b"")[0]; mb = W.split(stream_b or b"")[0]
  xs = xids_for(len(names))
  for i in range(max(len(ma), len(mb))):
    pair = (ma[i] if i < len(ma) else None, mb[i] if i < len(mb) else None)
    if pair[0] == pair[1]: continue
    for m in pair:
      if m is not None and len(m) >= 8 and W.parse_hdr(m)[1] not in W.ASYNC_TYPES and W.parse_hdr(m)[3] in xs:
        return keyname(names[xs.index(W.parse_hdr(m)[3])])
    break
  return keyname(names[-1])


def _one (names, reqs, rep, xids=None):
  bad, stream = check_history(names, reqs, rep, _stack, xids=xids)
  rep.evaluations += 1
  if xids is not None:
    # boundary xids: only the message-by-message run (the differentials do not depend on the xid values)
    rep.outcome((names, xids, stream, tuple(k for k, _ in bad)))
    for k, what in bad:
      rep.violation(k + ":xids-" + xids if k.endswith(":wrong-xid") else k, what, dict(history=list(names), xids=xids))
    rep.state_count += 1
    return
  refused = check_history.refused
  if not bad and len(names) > 1:
    # differential: the same bytes in one read must give the same reply stream
    bad2, stream2 = check_history(names, reqs, rep, _stack, batch=True, raws=check_history.last_raws)
    rep.evaluations += 1
    if bad2: bad = bad2
    elif stream2 != stream:
      bad = [("%s:%s:segmentation-changes-replies" % (PID, first_difference(names, stream, stream2)), "replies differ when the requests arrive in one read")]
    elif refused or any(reqs[n][1][0] in ("error", "answer") for n in names):
      # histories with a refused request also with every message split over two reads
      bad3, stream3 = check_history(names, reqs, rep, _stack, batch="split", raws=check_history.last_raws)
      rep.evaluations += 1
      if bad3: bad = bad3
      elif stream3 != stream:
        bad = [("%s:%s:segmentation-changes-replies:split" % (PID, first_difference(names, stream, stream3)), "replies differ when every request arrives split over two reads")]
  rep.outcome((names, stream, tuple(k for k, _ in bad)))
  for k, what in bad:
    rep.violation(k, what, dict(history=list(names)))
  if rep.evaluations % 4000 == 1:
    rep.sample(dict(history=list(names), reply_bytes=len(stream or b"")))
  rep.state_count += 1


def _worker (histories):
  from mc.env import boot
  boot()
  R = requests()
  reqs = Reqs((n, (f, e)) for n, f, e in R)
  rep = Report(PID, "model_checking")
  rep.state_count = 0
  only = family_only([n for n, f, e in R])
  for names in histories:
    if names and names[0] == "#config":
      _one_config(names[1], rep)
    elif names and names[0] == "*":
      # a prefix standing for all its one-request extensions (keeps the work list of the thorough tier small)
      for n, f, e in R:
        if n not in PAIRED and n not in only: _one(tuple(names[1:]) + (n,), reqs, rep)
    elif names and names[0] == "#edge":
      _one(tuple(names[1:]), reqs, rep, xids="edge")
    else:
      _one(names, reqs, rep)
  return rep


def long_history (names):
  """One deterministic sequence in which every ordered pair of requests occurs adjacent."""
  seq = []
  for a in names:
    for b in names:
      seq += [a, b]
  return [tuple(seq[i:i+40]) for i in range(0, len(seq), 40)]


# Requests whose handling neither reads nor writes switch state (fixed answer, no effect).  They take part in every
# position of the full products; in the one deeper layer of the thorough tier they are only used as the LAST request
# (a history with such a request in the middle is covered, one shorter, by the full product).
INERT = ("echo-empty", "echo-body", "echo-big", "hello", "echo-reply", "vendor", "unknown-type", "barrier-with-body",
         "get-config-with-body", "stats-desc", "stats-vendor", "stats-unknown", "queue-get-config",
         "queue-get-config-absent", "stats-queue-all", "stats-queue-one", "stats-queue-allports-one")

# Flow-mod variants that are enumerated in all pairs with every request, in the flow family and in the buffer family,
# but not in the full product of the deepest layer (there the plain forms of the same commands stand for them).
EXTENDED = ("flow-modify-strict", "flow-delete-in1", "flow-add-third", "flow-add-check-overlap", "flow-add-bad-buffer",
            "flow-modify-bad-buffer", "flow-modify-strict-bad-buffer", "flow-delete-bad-buffer",
            "flow-delete-strict-bad-buffer", "flow-add-last-buffer", "flow-modify-last-buffer",
            "flow-modify-strict-last-buffer", "flow-emerg-bad-buffer", "flow-bad-command-bad-buffer")

# Flow family: every flow-mod of the alphabet, everything that hands out / names / releases a packet buffer, and the
# read-backs of table, buffers and port counters.
FLOW_FAMILY_EXTRA = ("packet-out-table-1", "packet-out-table-3", "packet-out-controller", "packet-out-last-buffer",
                     "stats-flow", "stats-flow-in2", "stats-flow-out2", "stats-aggregate", "stats-table", "stats-port-all",
                     "barrier")

# Buffer family (one request deeper than the flow family): buffers x flow-mods whose answer depends on the table.
BUFFER_FAMILY = ("packet-out-table-1", "packet-out-table-3", "packet-out-controller", "packet-out-last-buffer",
                 "flow-add", "flow-add-other", "flow-add-third", "flow-delete-all",
                 "flow-add-last-buffer", "flow-modify-last-buffer", "flow-modify-strict-last-buffer",
                 "flow-modify-bad-buffer", "stats-port-all", "stats-flow")


# Requests added for the port-mod / boundary-value classes: enumerated in all pairs with every request, in the long
# histories and in their own families below, but neither in the deepest full product nor in the flow family.
PAIRED = ("port-mod-2-set-PORT_DOWN", "port-mod-2-clear-PORT_DOWN", "port-mod-2-set-NO_FWD", "port-mod-2-clear-NO_FWD",
          "port-mod-2-set-NO_FLOOD", "port-mod-2-clear-NO_FLOOD", "port-mod-1-set-NO_RECV", "port-mod-1-clear-NO_RECV",
          "port-mod-1-set-PORT_DOWN", "port-mod-1-clear-PORT_DOWN", "port-mod-1-clear-all", "port-mod-2-zero-hw",
          "port-mod-2-other-hw", "packet-out-flood", "packet-out-all", "packet-out-buffer-0", "packet-out-buffer-5",
          "packet-out-buffer-fffffffe", "flow-add-buffer-0",
          # round 9: long action lists, message types only a switch sends, other header versions
          "flow-add-4085-actions", "flow-add-other-4085-actions",
          "s2c-features-reply", "s2c-features-reply-no-ports", "s2c-get-config-reply", "s2c-packet-in", "s2c-flow-removed",
          "s2c-port-status", "s2c-stats-reply-desc", "s2c-stats-reply-flow-empty", "s2c-barrier-reply", "s2c-queue-get-config-reply",
          "error-from-controller", "version-0-echo-empty", "version-2-features", "version-4-barrier", "version-ff-flow-add")

# Port family: port-mods that set / clear the bits with a visible effect (accepted and refused ones), the requests whose
# outcome depends on port configuration, and the read-backs (features reply, port and table counters, barrier).
PORT_FAMILY = PAIRED[:13] + ("port-mod", "port-mod-absent", "features", "barrier", "stats-port-all", "stats-table", "packet-out",
                             "packet-out-flood", "packet-out-all", "packet-out-table-1", "flow-add")

PM_TAIL = ("features", "packet-out-flood", "packet-out-all", "packet-out", "stats-port-all")
PM_ABSENT = (99, 0, 5, 0xff00, 0xfffe, 0xffff)          # no such port: arbitrary, 0, first past the last, OFPP_MAX, LOCAL, NONE


# Long-action-list family: flow-mods whose statistics entries are large, deletes, and the read-backs of the table.
BIG_FAMILY_TAIL = ("flow-delete-all", "flow-delete-in1", "flow-add-other", "stats-flow", "stats-flow-in2", "stats-aggregate",
                   "stats-table", "barrier")
VERSION_TAIL = ("echo-empty", "stats-flow", "barrier")


def family_only (names):
  """Members of the long-action-list and wrong-version families that take part in their own families only (the others
  are in PAIRED: in all pairs with every request)."""
  return tuple(n for n in names if (n.startswith("version-") or (n.startswith("flow-add-") and n.endswith("-actions"))) and n not in PAIRED)


def big_histories (cfg, names):
  """All sequences of <=3 requests over the long-action-list family (quick: the 4084 / 4085 / 8180 values at most twice)."""
  bigs = [n for n in names if n.startswith("flow-add-") and n.endswith("-actions")]
  if cfg.quick: bigs = [n for n in bigs if "-8179-" not in n and n != "flow-add-other-8180-actions"]
  fam = tuple(bigs) + BIG_FAMILY_TAIL
  hs = []
  for d in (1, 2, 3):
    for h in itertools.product(fam, repeat=d):
      if any(n in bigs for n in h) and h[-1] not in bigs: hs.append(h)          # ends with a read-back / delete
  return hs, len(fam)


def version_histories (names):
  """Every (version, request) of the wrong-version family: as the first message; after a hello; after an echo; after a
  features request and a flow-mod; each followed by read-backs."""
  hs = []
  for n in names:
    if not n.startswith("version-"): continue
    hs.append((n,) + VERSION_TAIL)
    hs.append(("hello", n) + VERSION_TAIL)
    hs.append(("echo-empty", n) + VERSION_TAIL)
    hs.append(("features", "flow-add", n) + VERSION_TAIL)
  return hs


def pm_lattice (cfg):
  """Names of the port-mod lattice: port_no x hw_addr kind x (config, mask)."""
  extras = [(0x80, 0x80), (0, 0x80), (0x80000000, 0x80000000), (0xffffffff, 0xffffffff), (0, 0xffffffff), (PC_DEFINED, 0)]
  bits = [b for _, b in PC_BITS]
  few = [(b, b) for b in bits] + [(0, b) for b in bits] + [(PC_DEFINED, PC_DEFINED), (0, PC_DEFINED)] + extras
  if cfg.quick:         # every subset of the defined bits as mask, all of them set / all of them cleared
    full = [(m, m) for m in range(1, 128)] + [(0, m) for m in range(1, 128)] + extras
  else:                 # every mask with every config inside the mask
    full = [(c, m) for m in range(1, 128) for c in range(128) if c & ~m == 0] + extras
  out = []
  for port in (1, 2):
    out += [pm_name(port, "own", c, m) for c, m in full]
    out += [pm_name(port, hw, c, m) for hw in HW_KINDS[1:] for c, m in few]
  for port in PM_ABSENT:
    out += [pm_name(port, hw, c, m) for hw in ("own", "other", "zero") for c, m in few]
  return out


def pm_histories (cfg):
  """Every port-mod of the lattice in three frames: on the fresh switch; after a features request and followed by a
  barrier; on a port with every config bit set and a features request in between.  Each frame ends with the read-backs."""
  hs = []
  for n in pm_lattice(cfg):
    port = int(n.split("-")[1])
    allset = pm_name(port if port in PORTS else 1, "own", PC_DEFINED, PC_DEFINED)
    hs.append((n,) + PM_TAIL)
    hs.append(("features", n, "barrier") + PM_TAIL)
    hs.append((allset, "features", n) + PM_TAIL)
  return hs


def flow_family (R):
  return tuple(n for n, f, e in R if e[0] == "flow" and n not in PAIRED and not n.endswith("-actions")) + FLOW_FAMILY_EXTRA


def histories (cfg, R):
  every = [n for n, f, e in R]
  names = [n for n in every if n not in family_only(every)]
  depth = 3                                   # deepest full product (quick and thorough)
  main = [n for n in names if n not in EXTENDED and n not in PAIRED]
  ff = flow_family(R)
  seen = set()
  hs = []
  def add (it):
    for h in it:
      if h not in seen:
        seen.add(h); hs.append(h)
  for d in range(1, depth):
    add(itertools.product(names, repeat=d))
  add(itertools.product(main, repeat=depth))
  n_full = len(hs)
  ff_depth = cfg.pick(3, 4)
  for d in range(depth, ff_depth + 1):
    add(itertools.product(ff, repeat=d))
  n_ff = len(hs) - n_full
  bf_depth = cfg.pick(4, 5)
  for d in range(ff_depth + 1, bf_depth + 1):
    add(itertools.product(BUFFER_FAMILY, repeat=d))
  n_bf = len(hs) - n_full - n_ff
  pf_depth = cfg.pick(3, 4)
  for d in range(depth, pf_depth + 1):
    add(itertools.product(PORT_FAMILY, repeat=d))
  n_pf = len(hs) - n_full - n_ff - n_bf
  pm = pm_histories(cfg)
  add(pm)
  big, n_bigfam = big_histories(cfg, every)
  add(big)
  ver = version_histories(every)
  add(ver)
  cf = [("#config", c) for c in configs(cfg)]
  active = [n for n in names if n not in INERT and n not in PAIRED]
  deeper = []
  if not cfg.quick:
    # one request deeper than the full product: the first `depth` requests among the state-affecting ones
    deeper = [("*",) + p for p in itertools.product(active, repeat=depth)]
  # (a message with another version may end the connection: not in the long histories)
  longs = long_history([n for n in names if not n.startswith("version-")])
  # boundary xids: every history of <= depth-1 requests and the long ones once more
  edge = [("#edge",) + h for d in range(1, depth) for h in itertools.product(names, repeat=d)] + [("#edge",) + h for h in longs]
  return hs + deeper + longs + edge + cf, dict(depth=depth, main=len(main), full=n_full, active=len(active), names=len(names),
                                          n_big=len(big), bigfam=n_bigfam, n_ver=len(ver), n_cfg=len(cf),
                                          deeper=len(deeper) * (len(names) - len(PAIRED)),
                                          ff=len(ff), ff_depth=ff_depth, n_ff=n_ff, bf_depth=bf_depth, n_bf=n_bf, longs=len(longs),
                                          pf_depth=pf_depth, n_pf=n_pf, n_pm=len(pm), pm_lattice=len(pm) // 3, edge=len(edge))


def run (cfg):
  rep = Report(PID, "model_checking")
  R = requests()
  names = [n for n, f, e in R]
  assert (set(INERT) | set(EXTENDED) | set(BUFFER_FAMILY) | set(FLOW_FAMILY_EXTRA) | set(PAIRED) | set(PORT_FAMILY) | set(PM_TAIL)
          | set(BIG_FAMILY_TAIL) | set(VERSION_TAIL) | set(VERSION_BASES)) <= set(names)
  hs, info = histories(cfg, R)
  names = names[:info["names"]]          # (only the length is used below: the requests that take part in all pairs)
  rep.rule = ("all sequences of <=%d requests over %d controller-to-switch messages (distinct xids) and all sequences of %d over the %d of them "
              "that are not flow-mod / port-mod / buffer-id variants of an included plain form%s; "
              "all sequences of <=%d requests over the %d-request flow family (every flow-mod of the alphabet: 5 commands + an unknown one x matches "
              "in1/in2/in3/all x {no flag, EMERG, CHECK_OVERLAP} x buffer_id {none, never issued, most recent packet-in (valid / already used)} on a "
              "table of capacity %d; the requests that hand out, name or release a packet buffer; flow/aggregate/table/port statistics, barrier); "
              "all sequences of <=%d requests over the %d-request buffer family; the expected answer of every flow-mod is computed from the history; "
              "all sequences of <=%d requests over the %d-request port family (port-mods setting / clearing PORT_DOWN, NO_FWD, NO_FLOOD, NO_RECV, refused "
              "ones, packet-outs to a port / FLOOD / ALL / TABLE, features, port and table statistics, barrier); a port-mod lattice of %d port-mods "
              "(ports 1, 2 with the port's own hw_addr x %s; the same ports x hw_addr {all-zero, broadcast, another port's, own with the lowest / highest bit "
              "flipped} and port numbers %s x hw_addr {what the port would have, port 1's, all-zero} x {each defined config bit set / cleared, all, none, "
              "undefined bits 7 / 31 / all 32}), each in 3 frames (fresh switch | after a features request, then barrier | on a port with all bits set, "
              "features request in between) followed by features, packet-out FLOOD / ALL / port 2, port statistics; the expected answer of every port-mod "
              "and the port config afterwards are computed from the history and compared in EVERY features reply (config bits, link state as last "
              "announced by port-status, rest of the port and switch description as first reported by a pristine twin); "
              "each history is sent as spec-encoded bytes message-by-message, again as one read and (histories with a refused request) with every "
              "message split over two reads; plus %d histories of 40 covering every ordered pair; all histories of <=%d requests and the histories of 40 "
              "once more with boundary xids (0, 0xffffffff, 0x80000000, 0x7fffffff, 1, repeating); "
              "%d histories of <=3 requests over the %d-request long-action-list family (flow-mods with %s output actions: two / one statistics "
              "entries just fit / just exceed one 64 KB reply; deletes, flow / aggregate / table statistics; multi-part replies count as one); "
              "%d wrong-version histories (header version %s x %s, each as the first message | after hello | after echo | after features + flow-mod, "
              "followed by echo, flow statistics, barrier); well-formed messages of every switch-to-controller type in all pairs; "
              "%d switch configurations built through the switch's API (ports=N for N in %s; one port of number %s x name {generated, ASCII of 1 / 15 / "
              "16 characters, 15 / 16 / 8 / 16 characters with 1 / 1 / 8 / 16 outside ASCII} made by generate_port | ofp_phy_port() | add_port(port) on "
              "the connected switch; add_port(number); delete_port(number | port) and delete + add of port 1 / 2 / 4; constructor parameters %s), each "
              "asked features, get-config, desc / table / port statistics (all ports, the one port), a port-mod with the address the features reply "
              "gave + features again, barrier, echo, message by message and in one read, compared with the configuration; "
              "distinct = distinct (history | configuration, reply byte stream, verdict)"
              % (info["depth"] - 1, len(names), info["depth"], info["main"],
                 "" if cfg.quick else ", and all sequences of %d requests whose first %d are among the %d state-affecting ones"
                 % (info["depth"] + 1, info["depth"], info["active"]),
                 info["ff_depth"], info["ff"], CAPACITY, info["bf_depth"], len(BUFFER_FAMILY),
                 info["pf_depth"], len(PORT_FAMILY), info["pm_lattice"],
                 "every non-empty mask over the 7 defined config bits with all / none of its bits set" if cfg.quick else
                 "every non-empty mask over the 7 defined config bits with every config inside the mask",
                 "/".join("%#x" % p for p in PM_ABSENT), info["longs"], info["depth"] - 1,
                 info["n_big"], info["bigfam"], "/".join(str(n) for n in BIG_ACTS), info["n_ver"], "/".join("%#x" % v for v in VERSIONS),
                 "/".join(VERSION_BASES), info["n_cfg"], "/".join(str(n) for n in CFG_COUNTS), "/".join(str(n) for n in CFG_PORT_NOS),
                 "; ".join("%s %s" % (k, "/".join("%#x" % v for v in vs)) for k, vs in CFG_PARAMS)))
  rep.bound = dict(depth=info["depth"], alphabet=len(names), deepest_product_alphabet=info["main"], product_histories=info["full"],
                   deeper_layer_histories=info["deeper"], flow_family_depth=info["ff_depth"], flow_family_alphabet=info["ff"],
                   flow_family_histories=info["n_ff"], buffer_family_depth=info["bf_depth"], buffer_family_alphabet=len(BUFFER_FAMILY),
                   buffer_family_histories=info["n_bf"], table_capacity=CAPACITY, buffers=4,
                   port_family_depth=info["pf_depth"], port_family_alphabet=len(PORT_FAMILY), port_family_histories=info["n_pf"],
                   port_mod_lattice=info["pm_lattice"], port_mod_lattice_histories=info["n_pm"], boundary_xid_histories=info["edge"],
                   long_action_list_histories=info["n_big"], wrong_version_histories=info["n_ver"], switch_configurations=info["n_cfg"])
  rep.assumptions = ["error codes asserted only where OpenFlow 1.0 names one", "HELLO/PACKET_IN/PORT_STATUS/FLOW_REMOVED are asynchronous, not replies",
                     "a flow-mod answered with a buffer error (BUFFER_UNKNOWN/BUFFER_EMPTY) leaves the table contents undetermined until the next delete-all: "
                     "OpenFlow 1.0 does not say whether the flow-mod is still carried out",
                     "buffer_id is not meaningful for OFPFC_DELETE*: silence and a BAD_REQUEST error are both accepted",
                     "a flow-mod refused for two reasons (refused command and bad buffer_id) may be answered with either error or one of each",
                     "whether a refused flow-mod still releases a valid buffer, and whether a buffered packet handed to a flow-mod counts as a table lookup, is not judged",
                     "a port-mod refused with OFPET_PORT_MOD_FAILED (\"port mod request failed\") leaves the port configuration as it was; a port-mod for an existing "
                     "port is refused with BAD_HW_ADDR for EVERY hw_addr other than the port's (all-zero and broadcast included), for a port number the "
                     "switch does not have with BAD_PORT whatever the hw_addr",
                     "OFPPC_NO_STP (the switch has no 802.1D support) and undefined config bits: a port-mod naming them may be carried out, ignored or refused "
                     "with PORT_MOD_FAILED; the value of those bits is judged again only after a features reply has shown it",
                     "a packet output to a port with OFPPC_PORT_DOWN or OFPPC_NO_FWD is not transmitted and not counted in tx_packets; OFPP_FLOOD leaves out "
                     "OFPPC_NO_FLOOD ports; a packet-out to OFPP_TABLE whose in_port is down or has OFPPC_NO_RECV leaves the table/port counters unjudged",
                     "the initial port configuration / state / names / features and the switch capabilities are the switch's choice: taken from the first "
                     "features reply of a pristine twin of the switch under test",
                     "the contents of asynchronous port-status messages are not judged, only used as the announced link state",
                     "a statistics reply whose entries do not fit one 64 KB message comes in parts (OFPSF_REPLY_MORE), counted as one reply; if a single "
                     "entry fits no message, any one reply or error is accepted; a flow-mod with a long action list may be refused with "
                     "BAD_ACTION/TOO_MANY (then it installs nothing)",
                     "a message whose header carries another version is outside the 13 message types the statement quantifies over (its framing "
                     "cannot be relied on): it is answered with exactly one error (BAD_REQUEST/BAD_VERSION with its xid; before the switch has taken "
                     "any version-1 message as a request also HELLO_FAILED/INCOMPATIBLE) or the switch gives the connection up (shutdown requested or "
                     "closed; whether that is carried out is judged by C10); silence on a connection that stays open is a violation; if the "
                     "connection stays open the later requests are judged as usual",
                     "a well-formed message of a type only a switch sends is an unsupported request (BAD_REQUEST/BAD_TYPE); an ERROR message from the "
                     "controller is answered with nothing or a BAD_REQUEST error",
                     "switch configurations: generated port names / addresses are the switch's choice (not judged); a name with characters outside "
                     "ASCII may be encoded in Latin-1 or UTF-8 and clipped to the 16-byte field; when the switch's own API refused a call with an "
                     "exception, whether the port exists is not judged, but every request must still be answered"]
  for r in pmap(_worker, split(hs, cfg.workers * 4), cfg.workers, seed=cfg.seed):
    rep.merge(r)
  fold_config_keys(rep, configs(cfg))
  return rep


def fold_config_keys (rep, cs):
  """A clause of the configuration family that fails in most configuration classes does not depend on the configuration:
  one key ("...:most-configurations") instead of one per class."""
  classes = sorted(set(config_class(c) for c in cs))
  groups = {}
  for k in rep.violations:
    if k.startswith(PID + ":config:") and k.rsplit(":", 1)[1] in classes: groups.setdefault(k.rsplit(":", 1)[0], []).append(k)
  for prefix, ks in groups.items():
    if 2 * len(ks) <= len(classes): continue
    ks.sort(key=lambda k: classes.index(k.rsplit(":", 1)[1]))
    first = dict(rep.violations[ks[0]]); first["count"] = sum(rep.violations[k]["count"] for k in ks)
    for k in ks: del rep.violations[k]
    rep.violations[prefix + ":most-configurations"] = first


def replay (cfg, data):
  from mc.env import boot
  boot()
  reqs = Reqs((n, (f, e)) for n, f, e in requests())
  rep = Report(PID, "model_checking")
  if "config" in data:
    c = data["config"]
    desc = (c[0], c[1], c[2], tuple(tuple(p) for p in c[3]))
    bad, outcome = check_config(desc, rep)
    return bool(bad), "configuration: %r\n%s" % (desc, "\n".join("%s: %s" % b for b in bad))
  bad, stream = check_history(tuple(data["history"]), reqs, rep, _stack, xids=data.get("xids"))
  if not bad and not data.get("xids"):
    bad, s2 = check_history(tuple(data["history"]), reqs, rep, _stack, batch=True, raws=check_history.last_raws)
    if not bad and s2 != stream: bad = [("segmentation", "replies differ in one read")]
    if not bad:
      bad, s3 = check_history(tuple(data["history"]), reqs, rep, _stack, batch="split", raws=check_history.last_raws)
      if not bad and s3 != stream: bad = [("segmentation", "replies differ when every request is split over two reads")]
  return bool(bad), "history: %r\n%s" % (data["history"], "\n".join("%s: %s" % b for b in bad))
