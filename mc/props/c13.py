"""C13 - every switch request is answered once, with its xid, in order.

All request sequences of length <=3 over the controller-to-switch messages of `requests()` (thorough: one request
deeper behind state-affecting prefixes), sent as spec-encoded bytes through the real RecocoIOWorker -> OFConnection ->
SoftwareSwitch stack; plus long deterministic histories containing every ordered pair of requests.  The reply stream
is decoded with the independent wire decoder (mc/refs/ofwire.py) and compared with a small reference
model of the switch's visible state (config, flow table of capacity 2, port/table counters, packet buffers).

Flow-mods are described declaratively (command x match x flags x buffer_id kind) and their expected answer
is computed from the history: whether the flow-mod is carried out or refused (BAD_COMMAND, emergency flag,
OVERLAP, ALL_TABLES_FULL) x whether the buffer_id it carries is absent, never issued, already used or valid.
Two further families enumerate histories over sub-alphabets: the flow family (all flow-mods + buffers + read-backs)
and, one request deeper, the buffer family (see `histories`).

Port-mods are described declaratively as well (port_no x hw_addr kind x config x mask, see `pm_req`): the expected answer
(nothing | BAD_PORT | BAD_HW_ADDR) and the port configuration afterwards are computed by Model.port_step; the configuration
is read back from every features reply (per port: config bits, link state as last announced in a port-status, the rest
of the description against a pristine twin switch) and through its effects on port counters (packet-out to a port /
FLOOD / ALL).  The port-mod lattice (`pm_lattice`) is run in three read-back frames, a port family in all sequences
(see `histories`).  Histories of <=2 requests and the long histories are also run with boundary xids (0, 0xffffffff...).
"""
import itertools, struct
from mc.engine import pmap, split
from mc.report import Report
from mc.refs import ofwire as W

PID = "C13"
FRAME = bytes.fromhex("0000000000020000000000010800") + b"\x45\x00\x00\x1c" + b"\0" * 24   # 42-byte frame
MAC1 = lambda dpid, port: bytes.fromhex("02%06x%04x" % (dpid % 0xffff, port))


FM_MATCH = {"in1": W.match_fields(in_port=1), "in2": W.match_fields(in_port=2), "in3": W.match_fields(in_port=3),
            "all": W.match()}
BAD_BUFFER = 77            # never handed out: the switch has 4 buffers
CAPACITY = 2               # flow table capacity of the switch under test (see _stack)
PORTS = (1, 2, 3, 4)       # ports of the switch under test (see _stack)
EDGE_XIDS = (0, 0xffffffff, 0x80000000, 0x7fffffff, 1)       # boundary transaction ids (cycled; repeats occur)

PC_BITS = (("PORT_DOWN", W.OFPPC_PORT_DOWN), ("NO_STP", W.OFPPC_NO_STP), ("NO_RECV", W.OFPPC_NO_RECV),
           ("NO_RECV_STP", W.OFPPC_NO_RECV_STP), ("NO_FLOOD", W.OFPPC_NO_FLOOD), ("NO_FWD", W.OFPPC_NO_FWD),
           ("NO_PACKET_IN", W.OFPPC_NO_PACKET_IN))
PC_DEFINED = 0x7f
# bits a port-mod must carry out; NO_STP (the switch does not do 802.1D) and undefined bits are "soft": OpenFlow 1.0 does not
# say what a switch without the feature does with them, so their value is not judged after a port-mod named them
PC_HARD = PC_DEFINED & ~W.OFPPC_NO_STP
HW_KINDS = ("own", "zero", "bcast", "other", "lowbit", "highbit")


def hw_bytes (port, kind):
  """hw_addr field of a port-mod for `port`: the port's own address or a boundary value that is not the port's address."""
  own = MAC1(1, port)
  if kind == "own": return own
  if kind == "zero": return b"\0" * 6
  if kind == "bcast": return b"\xff" * 6
  if kind == "other": return MAC1(1, port % 4 + 1) if port in PORTS else MAC1(1, 1)      # another port of the same switch
  if kind == "lowbit": return own[:5] + bytes([own[5] ^ 1])
  if kind == "highbit": return bytes([own[0] ^ 0x80]) + own[1:]
  raise KeyError(kind)


def pm_name (port, hw, config, mask): return "pm-%d-%s-%x-%x" % (port, hw, config, mask)


def pm_req (port, hw, config, mask):
  """A port-mod: port_no x hw_addr kind x config x mask (advertise 0).  The answer is worked out by Model.port_step."""
  return (lambda x: W.port_mod(x, port, hw_bytes(port, hw), config, mask)), ("portmod", port, hw, config, mask)


def pm_parse (name):
  _, port, hw, c, m = name.split("-")
  return pm_req(int(port), hw, int(c, 16), int(m, 16))


class Reqs (dict):
  """name -> (builder, expectation); names of the port-mod lattice ("pm-<port>-<hw kind>-<config>-<mask>") are self-describing."""
  def __missing__ (self, name):
    if not name.startswith("pm-"): raise KeyError(name)
    v = self[name] = pm_parse(name)
    return v


def keyname (n):
  """Request class used in violation keys: the request name, for the port-mod lattice its (port, hw_addr) class."""
  if n.startswith("pm-"):
    _, port, hw, c, m = n.split("-")
    return "port-mod[port-%s,hw-%s]" % ("present" if int(port) in PORTS else "absent", hw)
  return KEYCLASS.get(n, n)

KEYCLASS = {"port-mod-2-zero-hw": "port-mod[port-present,hw-zero]", "port-mod-2-other-hw": "port-mod[port-present,hw-other]"}


def flow_req (cmd, key, out=None, flags=0, buf=None):
  """A flow-mod: command x match (in1/in2/in3/all) x one output action (or none) x flags x buffer_id kind
  (None = no buffer, 'bad' = an id the switch never hands out, 'zero' = id 0, 'last' = the id of the most recent packet-in).
  Returns (builder, expectation descriptor); the answer is worked out by Model.flow_step."""
  acts = W.a_output(out) if out is not None else b""
  def build (x, b=1):
    bid = W.NO_BUFFER if buf is None else (BAD_BUFFER if buf == "bad" else 0 if buf == "zero" else b)
    return W.flow_mod(x, FM_MATCH[key], cmd, acts, flags=flags, buffer_id=bid)
  return build, ("flow", cmd, key, out, flags, buf)


def requests ():
  """name -> (builder(xid) -> bytes, expectation).  expectation: ('reply', TYPE) | ('error', etype, code|None)
  | ('none',) | ('answer',) | ('buffer',) | ('flow', command, match key, out port, flags, buffer kind)"""
  R = []
  a = R.append
  a(("echo-empty", lambda x: W.echo_request(x), ("reply", W.ECHO_REPLY)))
  a(("echo-body", lambda x: W.echo_request(x, b"abcde"), ("reply", W.ECHO_REPLY)))
  a(("features", lambda x: W.features_request(x), ("reply", W.FEATURES_REPLY)))
  a(("get-config", lambda x: W.get_config_request(x), ("reply", W.GET_CONFIG_REPLY)))
  a(("set-config-64", lambda x: W.set_config(x, 0, 64), ("none",)))
  a(("set-config-0", lambda x: W.set_config(x, 0, 0), ("none",)))
  a(("set-config-max", lambda x: W.set_config(x, 1, 0xffff), ("none",)))
  a(("barrier", lambda x: W.barrier_request(x), ("reply", W.BARRIER_REPLY)))
  a(("stats-desc", lambda x: W.stats_request(x, W.OFPST_DESC), ("stats", W.OFPST_DESC)))
  a(("stats-flow", lambda x: W.stats_request(x, W.OFPST_FLOW, W.flow_stats_body()), ("stats", W.OFPST_FLOW)))
  a(("stats-aggregate", lambda x: W.stats_request(x, W.OFPST_AGGREGATE, W.flow_stats_body()), ("stats", W.OFPST_AGGREGATE)))
  a(("stats-table", lambda x: W.stats_request(x, W.OFPST_TABLE), ("stats", W.OFPST_TABLE)))
  a(("stats-port-all", lambda x: W.stats_request(x, W.OFPST_PORT, W.port_stats_body(W.OFPP_NONE)), ("stats", W.OFPST_PORT)))
  a(("stats-port-2", lambda x: W.stats_request(x, W.OFPST_PORT, W.port_stats_body(2)), ("stats", W.OFPST_PORT)))
  a(("stats-port-absent", lambda x: W.stats_request(x, W.OFPST_PORT, W.port_stats_body(99)), ("answer",)))
  a(("stats-queue-all", lambda x: W.stats_request(x, W.OFPST_QUEUE, W.queue_stats_body(W.OFPP_ALL, W.OFPQ_ALL)), ("stats", W.OFPST_QUEUE)))
  a(("stats-queue-one", lambda x: W.stats_request(x, W.OFPST_QUEUE, W.queue_stats_body(1, 5)), ("error", W.OFPET_QUEUE_OP_FAILED, W.OFPQOFC_BAD_QUEUE)))
  a(("stats-queue-bad-port", lambda x: W.stats_request(x, W.OFPST_QUEUE, W.queue_stats_body(77, W.OFPQ_ALL)), ("answer",)))
  a(("stats-queue-allports-one", lambda x: W.stats_request(x, W.OFPST_QUEUE, W.queue_stats_body(W.OFPP_ALL, 5)), ("error", W.OFPET_QUEUE_OP_FAILED, W.OFPQOFC_BAD_QUEUE)))
  a(("stats-flow-table1", lambda x: W.stats_request(x, W.OFPST_FLOW, W.flow_stats_body(table_id=1)), ("stats", W.OFPST_FLOW)))
  a(("stats-flow-in2", lambda x: W.stats_request(x, W.OFPST_FLOW, W.flow_stats_body(W.match_fields(in_port=2))), ("stats", W.OFPST_FLOW)))
  a(("stats-flow-out2", lambda x: W.stats_request(x, W.OFPST_FLOW, W.flow_stats_body(out_port=2)), ("stats", W.OFPST_FLOW)))
  a(("stats-aggregate-table1", lambda x: W.stats_request(x, W.OFPST_AGGREGATE, W.flow_stats_body(table_id=1)), ("stats", W.OFPST_AGGREGATE)))
  a(("queue-get-config-absent", lambda x: W.queue_get_config_request(x, 99), ("answer",)))
  a(("echo-big", lambda x: W.echo_request(x, bytes(range(256)) * 5), ("reply", W.ECHO_REPLY)))
  a(("flow-modify",) + flow_req(W.OFPFC_MODIFY, "in1", 3))
  a(("flow-delete-strict",) + flow_req(W.OFPFC_DELETE_STRICT, "in2"))
  a(("stats-vendor", lambda x: W.stats_request(x, W.OFPST_VENDOR, struct.pack("!L", 0x2320)), ("error", W.OFPET_BAD_REQUEST, None)))
  a(("stats-unknown", lambda x: W.stats_request(x, 9), ("error", W.OFPET_BAD_REQUEST, W.OFPBRC_BAD_STAT)))
  a(("queue-get-config", lambda x: W.queue_get_config_request(x, 1), ("reply", W.QUEUE_GET_CONFIG_REPLY)))
  a(("flow-add",) + flow_req(W.OFPFC_ADD, "in1", 2))
  a(("flow-add-other",) + flow_req(W.OFPFC_ADD, "in2", 1))
  a(("flow-bad-command",) + flow_req(9, "in1", 2))
  a(("flow-emerg",) + flow_req(W.OFPFC_ADD, "in1", 2, flags=W.OFPFF_EMERG))
  a(("flow-delete-all",) + flow_req(W.OFPFC_DELETE, "all"))
  # the remaining flow-mod commands, a third flow (the table holds two) and an ADD that asks for the overlap check
  a(("flow-modify-strict",) + flow_req(W.OFPFC_MODIFY_STRICT, "in1", 4))
  a(("flow-delete-in1",) + flow_req(W.OFPFC_DELETE, "in1"))
  a(("flow-add-third",) + flow_req(W.OFPFC_ADD, "in3", 4))
  a(("flow-add-check-overlap",) + flow_req(W.OFPFC_ADD, "in1", 2, flags=W.OFPFF_CHECK_OVERLAP))
  # flow-mods that carry a buffer_id: every command with an id that was never handed out; ADD/MODIFY/MODIFY_STRICT with
  # the id of the most recent packet-in (valid once, used afterwards); refused flow-mods that also name a bad buffer
  a(("flow-add-bad-buffer",) + flow_req(W.OFPFC_ADD, "in1", 2, buf="bad"))
  a(("flow-modify-bad-buffer",) + flow_req(W.OFPFC_MODIFY, "in1", 4, buf="bad"))
  a(("flow-modify-strict-bad-buffer",) + flow_req(W.OFPFC_MODIFY_STRICT, "in1", 4, buf="bad"))
  a(("flow-delete-bad-buffer",) + flow_req(W.OFPFC_DELETE, "in1", buf="bad"))
  a(("flow-delete-strict-bad-buffer",) + flow_req(W.OFPFC_DELETE_STRICT, "in1", buf="bad"))
  a(("flow-add-last-buffer",) + flow_req(W.OFPFC_ADD, "in1", 2, buf="last"))
  a(("flow-modify-last-buffer",) + flow_req(W.OFPFC_MODIFY, "in1", 4, buf="last"))
  a(("flow-modify-strict-last-buffer",) + flow_req(W.OFPFC_MODIFY_STRICT, "in1", 4, buf="last"))
  a(("flow-emerg-bad-buffer",) + flow_req(W.OFPFC_ADD, "in1", 2, flags=W.OFPFF_EMERG, buf="bad"))
  a(("flow-bad-command-bad-buffer",) + flow_req(9, "in1", 2, buf="bad"))
  a(("port-mod",) + pm_req(1, "own", W.OFPPC_NO_FLOOD, W.OFPPC_NO_FLOOD))
  a(("port-mod-absent", lambda x: W.port_mod(x, 99, MAC1(1, 1), 0, 0), ("error", W.OFPET_PORT_MOD_FAILED, W.OFPPMFC_BAD_PORT)))
  a(("port-mod-bad-hw", lambda x: W.port_mod(x, 1, b"\x02\xaa\xaa\xaa\xaa\xaa", 0, 0), ("error", W.OFPET_PORT_MOD_FAILED, W.OFPPMFC_BAD_HW_ADDR)))
  # the port-mods of the port family (see PORT_FAMILY): set / clear the bits whose effect is visible in port counters and
  # table counters, on the ports the packet-outs use; refused ones that name a boundary hw_addr
  for port, bits in ((2, ("PORT_DOWN", "NO_FWD", "NO_FLOOD")), (1, ("NO_RECV", "PORT_DOWN"))):
    for bn in bits:
      bit = dict(PC_BITS)[bn]
      a(("port-mod-%d-set-%s" % (port, bn),) + pm_req(port, "own", bit, bit))
      a(("port-mod-%d-clear-%s" % (port, bn),) + pm_req(port, "own", 0, bit))
  a(("port-mod-1-clear-all",) + pm_req(1, "own", 0, PC_DEFINED))
  a(("port-mod-2-zero-hw",) + pm_req(2, "zero", W.OFPPC_NO_FWD, W.OFPPC_NO_FWD))
  a(("port-mod-2-other-hw",) + pm_req(2, "other", W.OFPPC_PORT_DOWN, W.OFPPC_PORT_DOWN))
  a(("packet-out", lambda x: W.packet_out(x, W.a_output(2), FRAME, in_port=1), ("none",)))
  a(("packet-out-table-1", lambda x: W.packet_out(x, W.a_output(W.OFPP_TABLE), FRAME, in_port=1), ("none",)))
  a(("packet-out-table-3", lambda x: W.packet_out(x, W.a_output(W.OFPP_TABLE), FRAME, in_port=3), ("none",)))
  a(("port-mod-no-packet-in-3",) + pm_req(3, "own", W.OFPPC_NO_PACKET_IN, W.OFPPC_NO_PACKET_IN))
  # virtual output ports that fan out (in_port NONE: every port is a candidate): FLOOD leaves out NO_FLOOD ports
  a(("packet-out-flood", lambda x: W.packet_out(x, W.a_output(W.OFPP_FLOOD), FRAME, in_port=W.OFPP_NONE), ("none",)))
  a(("packet-out-all", lambda x: W.packet_out(x, W.a_output(W.OFPP_ALL), FRAME, in_port=W.OFPP_NONE), ("none",)))
  a(("packet-out-controller", lambda x: W.packet_out(x, W.a_output(W.OFPP_CONTROLLER), FRAME, in_port=1), ("none",)))
  a(("packet-out-bad-buffer", lambda x: W.packet_out(x, W.a_output(2), b"", buffer_id=77, in_port=1), ("error", W.OFPET_BAD_REQUEST, W.OFPBRC_BUFFER_UNKNOWN)))
  # names the buffer id of the most recent packet-in (1 if none was seen): fine once, "already used" afterwards, "unknown"
  # if the switch never handed that id out
  a(("packet-out-last-buffer", lambda x, b=1: W.packet_out(x, W.a_output(2), b"", buffer_id=b, in_port=3), ("buffer",)))
  # boundary buffer ids: 0, the first id past n_buffers, the largest id that is not NO_BUFFER
  for b_id in (0, 5, 0xfffffffe):
    a(("packet-out-buffer-%x" % b_id, lambda x, b=b_id: W.packet_out(x, W.a_output(2), b"", buffer_id=b, in_port=3), ("buffer", b_id)))
  a(("flow-add-buffer-0",) + flow_req(W.OFPFC_ADD, "in1", 2, buf="zero"))
  a(("packet-out-bad-action", lambda x: W.packet_out(x, W.a_raw(0x55), FRAME, in_port=1), ("error", W.OFPET_BAD_ACTION, W.OFPBAC_BAD_TYPE)))
  # header-only request types with a body attached: the length does not fit the type
  a(("barrier-with-body", lambda x: W.msg(W.BARRIER_REQUEST, x, b"\0\0\0\0"), ("error", W.OFPET_BAD_REQUEST, W.OFPBRC_BAD_LEN)))
  a(("get-config-with-body", lambda x: W.msg(W.GET_CONFIG_REQUEST, x, b"\0" * 8), ("error", W.OFPET_BAD_REQUEST, W.OFPBRC_BAD_LEN)))
  a(("vendor", lambda x: W.vendor(x, 0x1234, b"\0\0\0\0"), ("error", W.OFPET_BAD_REQUEST, W.OFPBRC_BAD_VENDOR)))
  a(("hello", lambda x: W.hello(x), ("none",)))
  a(("echo-reply", lambda x: W.echo_reply(x, b"zz"), ("none",)))
  a(("unknown-type", lambda x: W.msg(0x30, x, b"\0" * 8), ("error", W.OFPET_BAD_REQUEST, W.OFPBRC_BAD_TYPE)))
  return R


class Model (object):
  """What a controller can infer about the switch from the requests it sent and the answers it saw.
  A value of None (tx, lookups, matched) or vague=True (flow table) means "the specification does not say what the
  switch did"; clauses that depend on such a value are not evaluated until the value is known again."""
  def __init__ (self, base=None):
    self.miss_send_len = 128; self.flags = 0
    # ports: the description a pristine twin of the switch gives of itself (see _baseline); config bits as changed by the
    # port-mods of the history (pknown = mask of bits whose value is determined); state as last announced in a port-status
    self.base = base or {}
    self.pcfg = dict((p, d["config"]) for p, d in self.base.get("ports", {}).items())
    self.pstate = dict((p, d["state"]) for p, d in self.base.get("ports", {}).items())
    self.pknown = dict((p, 0xffffffff) for p in self.pcfg)
    self.flows = {}             # "in1"/"in2"/"in3" -> port its single output action names
    self.vague = False          # table contents not determined (a flow-mod was answered with a buffer error)
    self.tx = {1: 0, 2: 0, 3: 0, 4: 0}
    self.lookups = 0; self.matched = 0          # table counters (packets submitted to the table)
    self.issued = set(); self.used = set(); self.last_buf = None      # buffer ids seen in packet-ins / consumed
    self.limbo = set()          # issued ids of which it is not specified whether they were consumed

  def count (self, pred=lambda k, o: True):
    return sum(1 for k, o in self.flows.items() if pred(k, o))

  def apply (self, name):
    if name == "set-config-64": self.miss_send_len, self.flags = 64, 0
    elif name == "set-config-0": self.miss_send_len, self.flags = 0, 0
    elif name == "set-config-max": self.miss_send_len, self.flags = 0xffff, 1
    elif name == "packet-out": self.sent(2)
    elif name == "packet-out-flood": self.fan_out(flood=True)
    elif name == "packet-out-all": self.fan_out(flood=False)
    elif name == "packet-out-table-1": self.lookup("in1")
    elif name == "packet-out-table-3": self.lookup("in3")

  def pbits (self, port, bits):
    """Value of the config bits `bits` of a port, None if one of them is not determined."""
    if port not in self.pcfg or (self.pknown[port] & bits) != bits: return None
    return self.pcfg[port] & bits

  def sent (self, port):
    """A packet is output to a physical port: transmitted (and counted) unless the port is down or does not forward."""
    if self.tx is None: return
    blocked = self.pbits(port, W.OFPPC_PORT_DOWN | W.OFPPC_NO_FWD)
    if blocked is None: self.tx = None
    elif blocked: pass
    elif self.pstate.get(port, 0) & W.OFPPS_LINK_DOWN: self.tx = None       # link announced down on a port configured up
    else: self.tx[port] += 1

  def fan_out (self, flood):
    """packet-out to OFPP_FLOOD / OFPP_ALL with in_port NONE: every port, FLOOD without the NO_FLOOD ones."""
    for port in PORTS:
      if flood:
        nf = self.pbits(port, W.OFPPC_NO_FLOOD)
        if nf is None: self.tx = None
        if nf is None or nf: continue
      self.sent(port)

  def port_step (self, desc):
    """Expected answer to a port-mod and its effect: returns (expectation, effect(replies))."""
    _, port, hw, config, mask = desc
    PMF = W.OFPET_PORT_MOD_FAILED
    nothing = lambda replies: None
    # a refused port-mod ("request failed") leaves the port as it was
    if port not in PORTS: return ("error", PMF, W.OFPPMFC_BAD_PORT), nothing
    if hw != "own":
      def unanswered (replies):
        # not refused (already reported): what became of the port is then not judged on top of that
        if not replies and port in self.pknown: self.pknown[port] &= ~mask & 0xffffffff
      return ("error", PMF, W.OFPPMFC_BAD_HW_ADDR), unanswered
    hard = mask & PC_HARD; soft = mask & ~PC_HARD & 0xffffffff
    def eff (replies):
      if port not in self.pcfg: return
      if replies:         # refused (acceptable only for soft bits): nothing in the mask is determined any more
        self.pknown[port] &= ~mask & 0xffffffff
      else:
        self.pcfg[port] = (self.pcfg[port] & ~hard) | (config & hard)
        self.pknown[port] = (self.pknown[port] | hard) & ~soft & 0xffffffff
    return (("maybe", PMF) if soft else ("none",)), eff

  def lookup (self, key):
    # a packet-out to OFPP_TABLE names an in_port; whether a port that does not receive (NO_RECV) or is down still
    # submits such a packet to the table is not specified
    if key.startswith("in") and self.pbits(int(key[2:]), W.OFPPC_NO_RECV | W.OFPPC_PORT_DOWN) != 0:
      self.lookups = None; self.matched = None; self.tx = None
      return
    if self.lookups is not None: self.lookups += 1
    if self.vague:
      self.matched = None; self.tx = None
    elif key in self.flows:
      if self.matched is not None: self.matched += 1
      self.sent(self.flows[key])

  def buffer_state (self, b_id):
    if b_id not in self.issued: return "unknown"
    if b_id in self.limbo: return "limbo"
    if b_id in self.used: return "empty"
    return "ok"

  def buffer_maybe_used (self, b_id, out):
    """The packet in buffer b_id may or may not have been sent / released."""
    self.limbo.add(b_id)
    if out is not None: self.tx = None

  def buffer_used (self, b_id, out):
    self.used.add(b_id)
    if out is not None: self.sent(out)
    # whether a buffered packet handed to a flow-mod counts as a table lookup is not specified
    self.lookups = None; self.matched = None

  def flow_step (self, desc, b_id):
    """Expected answer to a flow-mod and its effect: returns (expectation, effect(replies))."""
    _, cmd, key, out, flags, buf = desc
    FMF, BR = W.OFPET_FLOW_MOD_FAILED, W.OFPET_BAD_REQUEST
    bs = None if buf is None else self.buffer_state(b_id)
    buf_err = {"unknown": (BR, W.OFPBRC_BUFFER_UNKNOWN), "empty": (BR, W.OFPBRC_BUFFER_EMPTY), "limbo": (BR, None)}.get(bs)
    nothing = lambda replies: None
    # -- is the flow-mod itself carried out?
    rej = None; change = None
    if cmd not in (W.OFPFC_ADD, W.OFPFC_MODIFY, W.OFPFC_MODIFY_STRICT, W.OFPFC_DELETE, W.OFPFC_DELETE_STRICT):
      rej = (FMF, W.OFPFMFC_BAD_COMMAND)
    elif flags & W.OFPFF_EMERG:
      rej = (FMF, None)                     # emergency entries are not supported; the specification names no single code
    elif cmd in (W.OFPFC_DELETE, W.OFPFC_DELETE_STRICT):
      def change ():
        if key == "all": self.flows.clear(); self.vague = False
        else: self.flows.pop(key, None)
      if bs is None:
        return ("none",), lambda replies: change()
      # buffer_id is "not meaningful for OFPFC_DELETE*": silence and a BAD_REQUEST error are both fine
      def eff (replies):
        if replies: self.vague = True
        else: change()
        if bs == "ok": self.buffer_maybe_used(b_id, out)
      return ("maybe", BR), eff
    elif self.vague:
      # the table contents are not determined, so neither is OVERLAP / ALL_TABLES_FULL
      def eff (replies):
        if bs == "ok": self.buffer_maybe_used(b_id, out)
      if bs in ("unknown", "empty"):      # refused for one reason or the other (or both), never silence
        return ("errors", ((FMF, None), buf_err)), eff
      return ("any",), eff
    else:
      as_add = cmd == W.OFPFC_ADD or key not in self.flows
      if cmd == W.OFPFC_ADD and (flags & W.OFPFF_CHECK_OVERLAP) and key in self.flows:
        rej = (FMF, W.OFPFMFC_OVERLAP)
      elif as_add and key not in self.flows and len(self.flows) >= CAPACITY:
        rej = (FMF, W.OFPFMFC_ALL_TABLES_FULL)
      else:
        def change (): self.flows[key] = out
    if rej is not None:
      if bs is None: return ("error",) + rej, nothing
      if bs == "ok":
        # refused flow-mod naming a valid buffer: whether the buffer is still released is not specified
        return ("error",) + rej, lambda replies: self.buffer_maybe_used(b_id, out)
      # refused for two reasons: either error (or one of each) answers the request
      return ("errors", (rej, buf_err)), nothing
    # carried out
    if bs is None: return ("none",), lambda replies: change()
    if bs in ("unknown", "empty"):
      # the error is specified; whether the table was changed before the buffer was looked at is not
      def eff (replies): self.vague = True
      return ("error",) + buf_err, eff
    if bs == "limbo":
      def eff (replies):
        if replies: self.vague = True
        else: change()
        self.tx = None if out is not None else self.tx
        self.lookups = None; self.matched = None
      return ("maybe", BR), eff
    def eff (replies):
      change(); self.buffer_used(b_id, out)
    return ("none",), eff


def xids_for (n, scheme=None):
  if scheme == "edge": return [EDGE_XIDS[i % len(EDGE_XIDS)] for i in range(n)]
  return [0x51000000 + i for i in range(n)]


def norm_stream (stream):
  """The reply stream with the xids of asynchronous messages (port-status: taken from a process-wide counter by pox, not
  specified by OpenFlow) blanked, so that streams of different runs can be compared."""
  if not stream: return stream
  msgs, rest = W.split(stream)
  return b"".join(m[:4] + b"\0\0\0\0" + m[8:] if m[1] == W.PORT_STATUS else m for m in msgs) + rest


def check_history (names, reqs, rep, stack_factory, batch=False, raws=None, xids=None):
  """Run one history; returns list of (key, what)."""
  st = stack_factory()
  model = Model(_baseline())
  bad = []
  outputs = []
  xids = xids_for(len(names), xids)
  if raws is None: raws = [reqs[n][0](x) for n, x in zip(names, xids)]
  else: raws = list(raws)
  if batch == "split":
    # every message arrives in two segments (cut after the 4th byte of its header / in the middle of longer ones)
    try:
      for raw in raws:
        k = 4 if len(raw) <= 12 else len(raw) // 2
        st.feed(raw[:k]); st.feed(raw[k:])
    except Exception as e:
      return [("%s:%s:escaped-exception" % (PID, keyname(names[-1])), "exception escaped the switch's read loop: %s: %s" % (type(e).__name__, e))], None
    return [], norm_stream(st.drain())
  if batch:
    try:
      st.feed(b"".join(raws))
    except Exception as e:
      return [("%s:%s:escaped-exception" % (PID, keyname(names[-1])), "exception escaped the switch's read loop: %s: %s" % (type(e).__name__, e))], None
    stream = st.drain()
    return [], norm_stream(stream)
  total = b""
  BR = W.OFPET_BAD_REQUEST
  check_history.refused = False
  for i, (n, x, raw) in enumerate(zip(names, xids, raws)):
    exp = reqs[n][1]
    post = lambda replies, n=n: model.apply(n)
    if exp[0] == "buffer":
      if len(exp) > 1: b_id = exp[1]              # a fixed (boundary) id
      else:
        b_id = model.last_buf or 1
        raw = raws[i] = reqs[n][0](x, b_id)
      bs = model.buffer_state(b_id)
      post = lambda replies: None
      if bs == "unknown": exp = ("error", BR, W.OFPBRC_BUFFER_UNKNOWN)
      elif bs == "empty": exp = ("error", BR, W.OFPBRC_BUFFER_EMPTY)
      elif bs == "limbo":
        exp = ("maybe", BR); model.tx = None
      else:
        exp = ("none",); model.used.add(b_id); model.sent(2)
    elif exp[0] == "flow":
      b_id = model.last_buf or 1
      if exp[5] == "last": raw = raws[i] = reqs[n][0](x, b_id)
      elif exp[5] == "bad": b_id = BAD_BUFFER
      elif exp[5] == "zero": b_id = 0
      exp, post = model.flow_step(exp, b_id)
    elif exp[0] == "portmod":
      exp, post = model.port_step(exp)
    n = keyname(n)          # from here on the name is only used in keys and texts
    try:
      st.feed(raw)
    except Exception as e:
      bad.append(("%s:%s:escaped-exception" % (PID, n), "exception escaped the switch's read loop: %s: %s" % (type(e).__name__, e)))
      break
    rep.transitions += 1
    out = st.drain(); total += out
    msgs, rest = W.split(out)
    if rest:
      bad.append(("%s:%s:garbled-output" % (PID, n), "switch wrote bytes that do not frame as OpenFlow messages")); break
    ds = [W.decode(m) for m in msgs]
    replies = [d for d in ds if d["type"] not in W.ASYNC_TYPES]
    if any(d["type"] == W.ERROR for d in replies): check_history.refused = True
    for d in ds:
      if d["type"] == W.PACKET_IN and d.get("buffer_id", W.NO_BUFFER) != W.NO_BUFFER:
        model.issued.add(d["buffer_id"]); model.used.discard(d["buffer_id"]); model.limbo.discard(d["buffer_id"])
        model.last_buf = d["buffer_id"]
      elif d["type"] == W.PORT_STATUS and d["desc"]["port_no"] in model.pstate:
        model.pstate[d["desc"]["port_no"]] = d["desc"]["state"]          # the switch announces a port's new state
    if st.worker.closed or st.worker._shutdown_send:
      bad.append(("%s:%s:connection-dropped" % (PID, n), "switch closed the connection after %s" % n)); break
    kind = exp[0]
    if kind == "none":
      if replies:
        bad.append(("%s:%s:unexpected-reply" % (PID, n), "%s needs no reply but the switch sent %s" % (n, [r["t"] for r in replies])))
      post(replies)
      continue
    most = len(exp[1]) if kind == "errors" else 1
    if len(replies) == 0 and kind not in ("maybe", "any"):
      bad.append(("%s:%s:no-reply" % (PID, n), "%s (xid %#x) produced neither a reply nor an error" % (n, x)))
      post(replies); continue
    if len(replies) > most:
      bad.append(("%s:%s:multiple-replies" % (PID, n), "%s produced %d messages: %s" % (n, len(replies), [r["t"] for r in replies])))
      if kind in ("maybe", "any", "errors"): post(replies)
      continue
    for r in replies:
      if r["xid"] != x:
        bad.append(("%s:%s:wrong-xid" % (PID, n), "%s sent with xid %#x answered with xid %#x" % (n, x, r["xid"])))
    r = replies[0] if replies else None
    if kind in ("answer", "any") or r is None:
      pass        # any single reply or error will do (specification names no code)
    elif kind == "reply":
      if r["type"] != exp[1]:
        bad.append(("%s:%s:wrong-reply-type" % (PID, n), "%s answered with %s" % (n, r["t"])))
      else:
        bad.extend(check_body(n, r, raw, model, st))
    elif kind == "stats":
      if r["type"] != W.STATS_REPLY or r.get("stype") != exp[1]:
        bad.append(("%s:%s:wrong-reply-type" % (PID, n), "%s answered with %s/%s" % (n, r["t"], r.get("stype"))))
      else:
        bad.extend(check_body(n, r, raw, model, st))
    else:
      # error | maybe (an error of the given type, if anything) | errors (one error per reason, at least one)
      allowed = [tuple(exp[1:])] if kind == "error" else [(exp[1], None)] if kind == "maybe" else list(exp[1])
      for r in replies:
        if r["type"] != W.ERROR:
          bad.append(("%s:%s:wrong-reply-type" % (PID, n), "%s must be refused with an error, got %s" % (n, r["t"])))
          continue
        hit = [a for a in allowed if r["etype"] == a[0] and (a[1] is None or r["code"] == a[1])]
        if not hit:
          bad.append(("%s:%s:wrong-error-code" % (PID, n), "%s refused with error type %d code %d, specification says %s"
                      % (n, r["etype"], r["code"], " or ".join("type %d code %s" % a for a in allowed) if allowed else "nothing more")))
        else:
          if kind == "errors": allowed.remove(hit[0])        # one error per reason
        want = raw[:64]
        # POX re-encodes the decoded request (normalised wildcards / max_len), so only the header of the
        # echoed request and the amount of data are compared (see DESIGN.md, C13 scoping)
        if not (r["data"][:8] == raw[:8] and len(r["data"]) >= len(want)):
          bad.append(("%s:%s:error-data" % (PID, n), "error data is not (at least the first 64 bytes of) the failed request"))
    post(replies)
  check_history.last_raws = raws
  return bad, norm_stream(total)


def check_body (n, r, raw, model, st):
  bad = []
  def b (clause, what): bad.append(("%s:%s:%s" % (PID, n, clause), what))
  if n.startswith("echo-"):
    if r["body"] != raw[8:]: b("echo-body", "echo reply body differs from the request body")
  elif n == "features":
    if r["dpid"] != 1 or sorted(p["port_no"] for p in r["ports"]) != [1, 2, 3, 4] or r["n_tables"] != 1:
      b("features-data", "features reply does not describe the switch (dpid %s ports %s)" % (r["dpid"], [p["port_no"] for p in r["ports"]]))
    elif model.base:
      # the switch as a whole and every port: what does not depend on the history is what a pristine twin reports
      if r["n_buffers"] != 4 or any(r[f] != model.base[f] for f in ("capabilities", "actions", "n_buffers")):
        b("features-data:switch-desc", "features reply n_buffers/capabilities/actions %r differ from the switch's own first description %r"
          % ([r[f] for f in ("n_buffers", "capabilities", "actions")], [model.base[f] for f in ("n_buffers", "capabilities", "actions")]))
      for p in r["ports"]:
        no = p["port_no"]; first = model.base["ports"][no]
        fixed = ("hw_addr", "name", "curr", "advertised", "supported", "peer")
        if any(p[f] != first[f] for f in fixed):
          b("features-data:port-desc", "port %d is described as %r, the switch first described it as %r"
            % (no, [p[f] for f in fixed], [first[f] for f in fixed]))
        # config: the bits every accepted port-mod set or cleared, the rest as it was (refused port-mods change nothing)
        wrong = (p["config"] ^ model.pcfg[no]) & model.pknown[no]
        for bn, bit in PC_BITS + (("undefined-bits", 0xffffffff & ~PC_DEFINED),):
          if wrong & bit:
            b("features-data:port-config:%s" % bn, "port %d config %#x, the port-mods of the history leave it at %#x (bits judged: %#x)"
              % (no, p["config"], model.pcfg[no], model.pknown[no]))
        if not wrong:
          model.pcfg[no] = p["config"]; model.pknown[no] = 0xffffffff          # bits not judged so far are now observed
        # state: what the switch last announced in a port-status for this port (its first description if it never did)
        if p["state"] != model.pstate[no]:
          b("features-data:port-state", "port %d state %#x, the switch last announced %#x" % (no, p["state"], model.pstate[no]))
  elif n == "get-config":
    if (r["miss_send_len"], r["flags"]) != (model.miss_send_len, model.flags):
      b("config-data", "get-config reply %r does not reflect the last set-config %r" % ((r["miss_send_len"], r["flags"]), (model.miss_send_len, model.flags)))
  elif n == "stats-desc":
    if "desc" not in r: b("stats-body", "desc stats body has %d bytes, specification says 1056" % len(r["body"]))
  elif n == "stats-flow":
    if not r["wellformed"] or (not model.vague and len(r["flows"]) != len(model.flows)):
      b("stats-body", "flow stats lists %d flows, %d installed" % (len(r.get("flows", [])), len(model.flows)))
  elif n in ("stats-flow-table1", "stats-flow-in2", "stats-flow-out2"):
    want = {"stats-flow-table1": 0, "stats-flow-in2": int("in2" in model.flows),
            "stats-flow-out2": model.count(lambda k, o: o == 2)}[n]
    if not r["wellformed"] or ((n == "stats-flow-table1" or not model.vague) and len(r["flows"]) != want):
      b("stats-body", "%s lists %d flows, expected %d" % (n, len(r.get("flows", [])), want))
  elif n == "stats-aggregate-table1":
    if r.get("flow_count") != 0:
      b("stats-body", "aggregate stats for table 1 flow_count %r, expected 0" % (r.get("flow_count"),))
  elif n == "stats-aggregate":
    if r.get("flow_count") is None or (not model.vague and r.get("flow_count") != len(model.flows)):
      b("stats-body", "aggregate stats flow_count %r, %d installed" % (r.get("flow_count"), len(model.flows)))
  elif n == "stats-table":
    if not r["wellformed"] or len(r["tables"]) != 1 or (not model.vague and r["tables"][0]["active_count"] != len(model.flows)):
      b("stats-body", "table stats %r, expected one table with active_count %d" % (r.get("tables"), len(model.flows)))
    elif (model.lookups is not None and r["tables"][0]["lookup_count"] != model.lookups) or \
         (model.matched is not None and r["tables"][0]["matched_count"] != model.matched):
      b("stats-body:lookup-counters", "table stats lookup/matched counts %r, %s packets were submitted to the table and %s matched"
        % ((r["tables"][0]["lookup_count"], r["tables"][0]["matched_count"]), model.lookups, model.matched))
  elif n == "stats-port-all":
    got = dict((p["port_no"], p["tx_packets"]) for p in r["ports"])
    if not r["wellformed"] or sorted(got) != [1, 2, 3, 4] or (model.tx is not None and got != model.tx):
      b("stats-body", "port stats tx_packets %r, expected %r" % (got, model.tx))
  elif n == "stats-port-2":
    got = [(p["port_no"], p["tx_packets"]) for p in r["ports"]]
    if [g[0] for g in got] != [2] or (model.tx is not None and got != [(2, model.tx[2])]):
      b("stats-body", "port stats for port 2: %r, expected tx_packets %s" % (got, model.tx and model.tx[2]))
  elif n == "stats-queue-all":
    if r["queues"]: b("stats-body", "queue stats lists queues on a switch without queues")
  elif n == "queue-get-config":
    if r["port"] != 1: b("reply-data", "queue-get-config reply is for port %d" % r["port"])
  return bad


_BASE = []

def _baseline ():
  """What a pristine twin of the switch under test says about itself in its first features reply: the part of the
  description that OpenFlow leaves to the switch (initial port config/state, names, addresses, capabilities)."""
  if not _BASE:
    base = {}
    try:
      st = _stack(); st.feed(W.features_request(1))
      ds = [W.decode(m) for m in W.split(st.drain())[0]]
      ds = [d for d in ds if d["type"] == W.FEATURES_REPLY]
      if ds and sorted(p["port_no"] for p in ds[0]["ports"]) == list(PORTS):
        base = dict(ds[0]); base["ports"] = dict((p["port_no"], p) for p in ds[0]["ports"])
    except Exception:
      base = {}           # the history that asks for the features meets the same failure and reports it
    _BASE.append(base)
  return _BASE[0]


def _stack ():
  from mc.env import SwitchStack, VClock
  # table capacity 2, three distinct flows in the alphabet: re-adding an installed flow happens at capacity, a third
  # flow is refused with ALL_TABLES_FULL; 4 packet buffers
  return SwitchStack(dpid=1, ports=4, max_buffers=4, clock=VClock(), max_entries=CAPACITY)


def _one (names, reqs, rep, xids=None):
  bad, stream = check_history(names, reqs, rep, _stack, xids=xids)
  rep.evaluations += 1
  if xids is not None:
    # boundary xids: only the message-by-message run (the differentials do not depend on the xid values)
    rep.outcome((names, xids, stream, tuple(k for k, _ in bad)))
    for k, what in bad:
      rep.violation(k + ":xids-" + xids if k.endswith(":wrong-xid") else k, what, dict(history=list(names), xids=xids))
    rep.state_count += 1
    return
  refused = check_history.refused
  if not bad and len(names) > 1:
    # differential: the same bytes in one read must give the same reply stream
    bad2, stream2 = check_history(names, reqs, rep, _stack, batch=True, raws=check_history.last_raws)
    rep.evaluations += 1
    if bad2: bad = bad2
    elif stream2 != stream:
      bad = [("%s:%s:segmentation-changes-replies" % (PID, keyname(names[-1])), "replies differ when the requests arrive in one read")]
    elif refused or any(reqs[n][1][0] in ("error", "answer") for n in names):
      # histories with a refused request also with every message split over two reads
      bad3, stream3 = check_history(names, reqs, rep, _stack, batch="split", raws=check_history.last_raws)
      rep.evaluations += 1
      if bad3: bad = bad3
      elif stream3 != stream:
        bad = [("%s:%s:segmentation-changes-replies:split" % (PID, keyname(names[-1])), "replies differ when every request arrives split over two reads")]
  rep.outcome((names, stream, tuple(k for k, _ in bad)))
  for k, what in bad:
    rep.violation(k, what, dict(history=list(names)))
  if rep.evaluations % 4000 == 1:
    rep.sample(dict(history=list(names), reply_bytes=len(stream or b"")))
  rep.state_count += 1


def _worker (histories):
  from mc.env import boot
  boot()
  R = requests()
  reqs = Reqs((n, (f, e)) for n, f, e in R)
  rep = Report(PID, "model_checking")
  rep.state_count = 0
  for names in histories:
    if names and names[0] == "*":
      # a prefix standing for all its one-request extensions (keeps the work list of the thorough tier small)
      for n, f, e in R:
        if n not in PAIRED: _one(tuple(names[1:]) + (n,), reqs, rep)
    elif names and names[0] == "#edge":
      _one(tuple(names[1:]), reqs, rep, xids="edge")
    else:
      _one(names, reqs, rep)
  return rep


def long_history (names):
  """One deterministic sequence in which every ordered pair of requests occurs adjacent."""
  seq = []
  for a in names:
    for b in names:
      seq += [a, b]
  return [tuple(seq[i:i+40]) for i in range(0, len(seq), 40)]


# Requests whose handling neither reads nor writes switch state (fixed answer, no effect).  They take part in every
# position of the full products; in the one deeper layer of the thorough tier they are only used as the LAST request
# (a history with such a request in the middle is covered, one shorter, by the full product).
INERT = ("echo-empty", "echo-body", "echo-big", "hello", "echo-reply", "vendor", "unknown-type", "barrier-with-body",
         "get-config-with-body", "stats-desc", "stats-vendor", "stats-unknown", "queue-get-config",
         "queue-get-config-absent", "stats-queue-all", "stats-queue-one", "stats-queue-allports-one")

# Flow-mod variants that are enumerated in all pairs with every request, in the flow family and in the buffer family,
# but not in the full product of the deepest layer (there the plain forms of the same commands stand for them).
EXTENDED = ("flow-modify-strict", "flow-delete-in1", "flow-add-third", "flow-add-check-overlap", "flow-add-bad-buffer",
            "flow-modify-bad-buffer", "flow-modify-strict-bad-buffer", "flow-delete-bad-buffer",
            "flow-delete-strict-bad-buffer", "flow-add-last-buffer", "flow-modify-last-buffer",
            "flow-modify-strict-last-buffer", "flow-emerg-bad-buffer", "flow-bad-command-bad-buffer")

# Flow family: every flow-mod of the alphabet, everything that hands out / names / releases a packet buffer, and the
# read-backs of table, buffers and port counters.
FLOW_FAMILY_EXTRA = ("packet-out-table-1", "packet-out-table-3", "packet-out-controller", "packet-out-last-buffer",
                     "stats-flow", "stats-flow-in2", "stats-flow-out2", "stats-aggregate", "stats-table", "stats-port-all",
                     "barrier")

# Buffer family (one request deeper than the flow family): buffers x flow-mods whose answer depends on the table.
BUFFER_FAMILY = ("packet-out-table-1", "packet-out-table-3", "packet-out-controller", "packet-out-last-buffer",
                 "flow-add", "flow-add-other", "flow-add-third", "flow-delete-all",
                 "flow-add-last-buffer", "flow-modify-last-buffer", "flow-modify-strict-last-buffer",
                 "flow-modify-bad-buffer", "stats-port-all", "stats-flow")


# Requests added for the port-mod / boundary-value classes: enumerated in all pairs with every request, in the long
# histories and in their own families below, but neither in the deepest full product nor in the flow family.
PAIRED = ("port-mod-2-set-PORT_DOWN", "port-mod-2-clear-PORT_DOWN", "port-mod-2-set-NO_FWD", "port-mod-2-clear-NO_FWD",
          "port-mod-2-set-NO_FLOOD", "port-mod-2-clear-NO_FLOOD", "port-mod-1-set-NO_RECV", "port-mod-1-clear-NO_RECV",
          "port-mod-1-set-PORT_DOWN", "port-mod-1-clear-PORT_DOWN", "port-mod-1-clear-all", "port-mod-2-zero-hw",
          "port-mod-2-other-hw", "packet-out-flood", "packet-out-all", "packet-out-buffer-0", "packet-out-buffer-5",
          "packet-out-buffer-fffffffe", "flow-add-buffer-0")

# Port family: port-mods that set / clear the bits with a visible effect (accepted and refused ones), the requests whose
# outcome depends on port configuration, and the read-backs (features reply, port and table counters, barrier).
PORT_FAMILY = PAIRED[:13] + ("port-mod", "port-mod-absent", "features", "barrier", "stats-port-all", "stats-table", "packet-out",
                             "packet-out-flood", "packet-out-all", "packet-out-table-1", "flow-add")

PM_TAIL = ("features", "packet-out-flood", "packet-out-all", "packet-out", "stats-port-all")
PM_ABSENT = (99, 0, 5, 0xff00, 0xfffe, 0xffff)          # no such port: arbitrary, 0, first past the last, OFPP_MAX, LOCAL, NONE


def pm_lattice (cfg):
  """Names of the port-mod lattice: port_no x hw_addr kind x (config, mask)."""
  extras = [(0x80, 0x80), (0, 0x80), (0x80000000, 0x80000000), (0xffffffff, 0xffffffff), (0, 0xffffffff), (PC_DEFINED, 0)]
  bits = [b for _, b in PC_BITS]
  few = [(b, b) for b in bits] + [(0, b) for b in bits] + [(PC_DEFINED, PC_DEFINED), (0, PC_DEFINED)] + extras
  if cfg.quick:         # every subset of the defined bits as mask, all of them set / all of them cleared
    full = [(m, m) for m in range(1, 128)] + [(0, m) for m in range(1, 128)] + extras
  else:                 # every mask with every config inside the mask
    full = [(c, m) for m in range(1, 128) for c in range(128) if c & ~m == 0] + extras
  out = []
  for port in (1, 2):
    out += [pm_name(port, "own", c, m) for c, m in full]
    out += [pm_name(port, hw, c, m) for hw in HW_KINDS[1:] for c, m in few]
  for port in PM_ABSENT:
    out += [pm_name(port, hw, c, m) for hw in ("own", "other", "zero") for c, m in few]
  return out


def pm_histories (cfg):
  """Every port-mod of the lattice in three frames: on the fresh switch; after a features request and followed by a
  barrier; on a port with every config bit set and a features request in between.  Each frame ends with the read-backs."""
  hs = []
  for n in pm_lattice(cfg):
    port = int(n.split("-")[1])
    allset = pm_name(port if port in PORTS else 1, "own", PC_DEFINED, PC_DEFINED)
    hs.append((n,) + PM_TAIL)
    hs.append(("features", n, "barrier") + PM_TAIL)
    hs.append((allset, "features", n) + PM_TAIL)
  return hs


def flow_family (R):
  return tuple(n for n, f, e in R if e[0] == "flow" and n not in PAIRED) + FLOW_FAMILY_EXTRA


def histories (cfg, R):
  names = [n for n, f, e in R]
  depth = 3                                   # deepest full product (quick and thorough)
  main = [n for n in names if n not in EXTENDED and n not in PAIRED]
  ff = flow_family(R)
  seen = set()
  hs = []
  def add (it):
    for h in it:
      if h not in seen:
        seen.add(h); hs.append(h)
  for d in range(1, depth):
    add(itertools.product(names, repeat=d))
  add(itertools.product(main, repeat=depth))
  n_full = len(hs)
  ff_depth = cfg.pick(3, 4)
  for d in range(depth, ff_depth + 1):
    add(itertools.product(ff, repeat=d))
  n_ff = len(hs) - n_full
  bf_depth = cfg.pick(4, 5)
  for d in range(ff_depth + 1, bf_depth + 1):
    add(itertools.product(BUFFER_FAMILY, repeat=d))
  n_bf = len(hs) - n_full - n_ff
  pf_depth = cfg.pick(3, 4)
  for d in range(depth, pf_depth + 1):
    add(itertools.product(PORT_FAMILY, repeat=d))
  n_pf = len(hs) - n_full - n_ff - n_bf
  pm = pm_histories(cfg)
  add(pm)
  active = [n for n in names if n not in INERT and n not in PAIRED]
  deeper = []
  if not cfg.quick:
    # one request deeper than the full product: the first `depth` requests among the state-affecting ones
    deeper = [("*",) + p for p in itertools.product(active, repeat=depth)]
  longs = long_history(names)
  # boundary xids: every history of <= depth-1 requests and the long ones once more
  edge = [("#edge",) + h for d in range(1, depth) for h in itertools.product(names, repeat=d)] + [("#edge",) + h for h in longs]
  return hs + deeper + longs + edge, dict(depth=depth, main=len(main), full=n_full, active=len(active),
                                          deeper=len(deeper) * (len(names) - len(PAIRED)),
                                          ff=len(ff), ff_depth=ff_depth, n_ff=n_ff, bf_depth=bf_depth, n_bf=n_bf, longs=len(longs),
                                          pf_depth=pf_depth, n_pf=n_pf, n_pm=len(pm), pm_lattice=len(pm) // 3, edge=len(edge))


def run (cfg):
  rep = Report(PID, "model_checking")
  R = requests()
  names = [n for n, f, e in R]
  assert set(INERT) | set(EXTENDED) | set(BUFFER_FAMILY) | set(FLOW_FAMILY_EXTRA) | set(PAIRED) | set(PORT_FAMILY) | set(PM_TAIL) <= set(names)
  hs, info = histories(cfg, R)
  rep.rule = ("all sequences of <=%d requests over %d controller-to-switch messages (distinct xids) and all sequences of %d over the %d of them "
              "that are not flow-mod / port-mod / buffer-id variants of an included plain form%s; "
              "all sequences of <=%d requests over the %d-request flow family (every flow-mod of the alphabet: 5 commands + an unknown one x matches "
              "in1/in2/in3/all x {no flag, EMERG, CHECK_OVERLAP} x buffer_id {none, never issued, most recent packet-in (valid / already used)} on a "
              "table of capacity %d; the requests that hand out, name or release a packet buffer; flow/aggregate/table/port statistics, barrier); "
              "all sequences of <=%d requests over the %d-request buffer family; the expected answer of every flow-mod is computed from the history; "
              "all sequences of <=%d requests over the %d-request port family (port-mods setting / clearing PORT_DOWN, NO_FWD, NO_FLOOD, NO_RECV, refused "
              "ones, packet-outs to a port / FLOOD / ALL / TABLE, features, port and table statistics, barrier); a port-mod lattice of %d port-mods "
              "(ports 1, 2 with the port's own hw_addr x %s; the same ports x hw_addr {all-zero, broadcast, another port's, own with the lowest / highest bit "
              "flipped} and port numbers %s x hw_addr {what the port would have, port 1's, all-zero} x {each defined config bit set / cleared, all, none, "
              "undefined bits 7 / 31 / all 32}), each in 3 frames (fresh switch | after a features request, then barrier | on a port with all bits set, "
              "features request in between) followed by features, packet-out FLOOD / ALL / port 2, port statistics; the expected answer of every port-mod "
              "and the port config afterwards are computed from the history and compared in EVERY features reply (config bits, link state as last "
              "announced by port-status, rest of the port and switch description as first reported by a pristine twin); "
              "each history is sent as spec-encoded bytes message-by-message, again as one read and (histories with a refused request) with every "
              "message split over two reads; plus %d histories of 40 covering every ordered pair; all histories of <=%d requests and the histories of 40 "
              "once more with boundary xids (0, 0xffffffff, 0x80000000, 0x7fffffff, 1, repeating); "
              "distinct = distinct (history, reply byte stream, verdict)"
              % (info["depth"] - 1, len(names), info["depth"], info["main"],
                 "" if cfg.quick else ", and all sequences of %d requests whose first %d are among the %d state-affecting ones"
                 % (info["depth"] + 1, info["depth"], info["active"]),
                 info["ff_depth"], info["ff"], CAPACITY, info["bf_depth"], len(BUFFER_FAMILY),
                 info["pf_depth"], len(PORT_FAMILY), info["pm_lattice"],
                 "every non-empty mask over the 7 defined config bits with all / none of its bits set" if cfg.quick else
                 "every non-empty mask over the 7 defined config bits with every config inside the mask",
                 "/".join("%#x" % p for p in PM_ABSENT), info["longs"], info["depth"] - 1))
  rep.bound = dict(depth=info["depth"], alphabet=len(names), deepest_product_alphabet=info["main"], product_histories=info["full"],
                   deeper_layer_histories=info["deeper"], flow_family_depth=info["ff_depth"], flow_family_alphabet=info["ff"],
                   flow_family_histories=info["n_ff"], buffer_family_depth=info["bf_depth"], buffer_family_alphabet=len(BUFFER_FAMILY),
                   buffer_family_histories=info["n_bf"], table_capacity=CAPACITY, buffers=4,
                   port_family_depth=info["pf_depth"], port_family_alphabet=len(PORT_FAMILY), port_family_histories=info["n_pf"],
                   port_mod_lattice=info["pm_lattice"], port_mod_lattice_histories=info["n_pm"], boundary_xid_histories=info["edge"])
  rep.assumptions = ["error codes asserted only where OpenFlow 1.0 names one", "HELLO/PACKET_IN/PORT_STATUS/FLOW_REMOVED are asynchronous, not replies",
                     "a flow-mod answered with a buffer error (BUFFER_UNKNOWN/BUFFER_EMPTY) leaves the table contents undetermined until the next delete-all: "
                     "OpenFlow 1.0 does not say whether the flow-mod is still carried out",
                     "buffer_id is not meaningful for OFPFC_DELETE*: silence and a BAD_REQUEST error are both accepted",
                     "a flow-mod refused for two reasons (refused command and bad buffer_id) may be answered with either error or one of each",
                     "whether a refused flow-mod still releases a valid buffer, and whether a buffered packet handed to a flow-mod counts as a table lookup, is not judged",
                     "a port-mod refused with OFPET_PORT_MOD_FAILED (\"port mod request failed\") leaves the port configuration as it was; a port-mod for an existing "
                     "port is refused with BAD_HW_ADDR for EVERY hw_addr other than the port's (all-zero and broadcast included), for a port number the "
                     "switch does not have with BAD_PORT whatever the hw_addr",
                     "OFPPC_NO_STP (the switch has no 802.1D support) and undefined config bits: a port-mod naming them may be carried out, ignored or refused "
                     "with PORT_MOD_FAILED; the value of those bits is judged again only after a features reply has shown it",
                     "a packet output to a port with OFPPC_PORT_DOWN or OFPPC_NO_FWD is not transmitted and not counted in tx_packets; OFPP_FLOOD leaves out "
                     "OFPPC_NO_FLOOD ports; a packet-out to OFPP_TABLE whose in_port is down or has OFPPC_NO_RECV leaves the table/port counters unjudged",
                     "the initial port configuration / state / names / features and the switch capabilities are the switch's choice: taken from the first "
                     "features reply of a pristine twin of the switch under test",
                     "the contents of asynchronous port-status messages are not judged, only used as the announced link state"]
  for r in pmap(_worker, split(hs, cfg.workers * 4), cfg.workers, seed=cfg.seed):
    rep.merge(r)
  return rep


def replay (cfg, data):
  from mc.env import boot
  boot()
  reqs = Reqs((n, (f, e)) for n, f, e in requests())
  rep = Report(PID, "model_checking")
  bad, stream = check_history(tuple(data["history"]), reqs, rep, _stack, xids=data.get("xids"))
  if not bad and not data.get("xids"):
    bad, s2 = check_history(tuple(data["history"]), reqs, rep, _stack, batch=True, raws=check_history.last_raws)
    if not bad and s2 != stream: bad = [("segmentation", "replies differ in one read")]
    if not bad:
      bad, s3 = check_history(tuple(data["history"]), reqs, rep, _stack, batch="split", raws=check_history.last_raws)
      if not bad and s3 != stream: bad = [("segmentation", "replies differ when every request is split over two reads")]
  return bool(bad), "history: %r\n%s" % (data["history"], "\n".join("%s: %s" % b for b in bad))
