"""C13 - every switch request is answered once, with its xid, in order.

All request sequences of length <=2 (quick) / <=3 (thorough) over ~36 controller-to-switch messages,
sent as spec-encoded bytes through the real RecocoIOWorker -> OFConnection -> SoftwareSwitch stack;
plus one long deterministic history containing every ordered pair of requests.  The reply stream is
decoded with the independent wire decoder (mc/refs/ofwire.py) and compared with a small reference
model of the switch's visible state (config, flow count, port counters).
"""
import itertools, struct
from mc.engine import pmap, split
from mc.report import Report
from mc.refs import ofwire as W

PID = "C13"
FRAME = bytes.fromhex("0000000000020000000000010800") + b"\x45\x00\x00\x1c" + b"\0" * 24   # 42-byte frame
MAC1 = lambda dpid, port: bytes.fromhex("02%06x%04x" % (dpid % 0xffff, port))


def requests ():
  """name -> (builder(xid) -> bytes, expectation).  expectation: ('reply', TYPE) | ('error', etype, code|None)
  | ('none',)"""
  m_in1 = W.match_fields(in_port=1)
  R = []
  a = R.append
  a(("echo-empty", lambda x: W.echo_request(x), ("reply", W.ECHO_REPLY)))
  a(("echo-body", lambda x: W.echo_request(x, b"abcde"), ("reply", W.ECHO_REPLY)))
  a(("features", lambda x: W.features_request(x), ("reply", W.FEATURES_REPLY)))
  a(("get-config", lambda x: W.get_config_request(x), ("reply", W.GET_CONFIG_REPLY)))
  a(("set-config-64", lambda x: W.set_config(x, 0, 64), ("none",)))
  a(("set-config-0", lambda x: W.set_config(x, 0, 0), ("none",)))
  a(("set-config-max", lambda x: W.set_config(x, 1, 0xffff), ("none",)))
  a(("barrier", lambda x: W.barrier_request(x), ("reply", W.BARRIER_REPLY)))
  a(("stats-desc", lambda x: W.stats_request(x, W.OFPST_DESC), ("stats", W.OFPST_DESC)))
  a(("stats-flow", lambda x: W.stats_request(x, W.OFPST_FLOW, W.flow_stats_body()), ("stats", W.OFPST_FLOW)))
  a(("stats-aggregate", lambda x: W.stats_request(x, W.OFPST_AGGREGATE, W.flow_stats_body()), ("stats", W.OFPST_AGGREGATE)))
  a(("stats-table", lambda x: W.stats_request(x, W.OFPST_TABLE), ("stats", W.OFPST_TABLE)))
  a(("stats-port-all", lambda x: W.stats_request(x, W.OFPST_PORT, W.port_stats_body(W.OFPP_NONE)), ("stats", W.OFPST_PORT)))
  a(("stats-port-2", lambda x: W.stats_request(x, W.OFPST_PORT, W.port_stats_body(2)), ("stats", W.OFPST_PORT)))
  a(("stats-port-absent", lambda x: W.stats_request(x, W.OFPST_PORT, W.port_stats_body(99)), ("answer",)))
  a(("stats-queue-all", lambda x: W.stats_request(x, W.OFPST_QUEUE, W.queue_stats_body(W.OFPP_ALL, W.OFPQ_ALL)), ("stats", W.OFPST_QUEUE)))
  a(("stats-queue-one", lambda x: W.stats_request(x, W.OFPST_QUEUE, W.queue_stats_body(1, 5)), ("error", W.OFPET_QUEUE_OP_FAILED, W.OFPQOFC_BAD_QUEUE)))
  a(("stats-queue-bad-port", lambda x: W.stats_request(x, W.OFPST_QUEUE, W.queue_stats_body(77, W.OFPQ_ALL)), ("answer",)))
  a(("stats-queue-allports-one", lambda x: W.stats_request(x, W.OFPST_QUEUE, W.queue_stats_body(W.OFPP_ALL, 5)), ("error", W.OFPET_QUEUE_OP_FAILED, W.OFPQOFC_BAD_QUEUE)))
  a(("stats-flow-table1", lambda x: W.stats_request(x, W.OFPST_FLOW, W.flow_stats_body(table_id=1)), ("stats", W.OFPST_FLOW)))
  a(("stats-flow-in2", lambda x: W.stats_request(x, W.OFPST_FLOW, W.flow_stats_body(W.match_fields(in_port=2))), ("stats", W.OFPST_FLOW)))
  a(("stats-flow-out2", lambda x: W.stats_request(x, W.OFPST_FLOW, W.flow_stats_body(out_port=2)), ("stats", W.OFPST_FLOW)))
  a(("stats-aggregate-table1", lambda x: W.stats_request(x, W.OFPST_AGGREGATE, W.flow_stats_body(table_id=1)), ("stats", W.OFPST_AGGREGATE)))
  a(("queue-get-config-absent", lambda x: W.queue_get_config_request(x, 99), ("answer",)))
  a(("echo-big", lambda x: W.echo_request(x, bytes(range(256)) * 5), ("reply", W.ECHO_REPLY)))
  a(("flow-modify", lambda x: W.flow_mod(x, W.match_fields(in_port=1), W.OFPFC_MODIFY, W.a_output(3)), ("none",)))
  a(("flow-delete-strict", lambda x: W.flow_mod(x, W.match_fields(in_port=2), W.OFPFC_DELETE_STRICT), ("none",)))
  a(("stats-vendor", lambda x: W.stats_request(x, W.OFPST_VENDOR, struct.pack("!L", 0x2320)), ("error", W.OFPET_BAD_REQUEST, None)))
  a(("stats-unknown", lambda x: W.stats_request(x, 9), ("error", W.OFPET_BAD_REQUEST, W.OFPBRC_BAD_STAT)))
  a(("queue-get-config", lambda x: W.queue_get_config_request(x, 1), ("reply", W.QUEUE_GET_CONFIG_REPLY)))
  a(("flow-add", lambda x: W.flow_mod(x, m_in1, W.OFPFC_ADD, W.a_output(2)), ("none",)))
  a(("flow-add-other", lambda x: W.flow_mod(x, W.match_fields(in_port=2), W.OFPFC_ADD, W.a_output(1)), ("none",)))
  a(("flow-bad-command", lambda x: W.flow_mod(x, m_in1, 9, W.a_output(2)), ("error", W.OFPET_FLOW_MOD_FAILED, W.OFPFMFC_BAD_COMMAND)))
  a(("flow-emerg", lambda x: W.flow_mod(x, m_in1, W.OFPFC_ADD, W.a_output(2), flags=W.OFPFF_EMERG), ("error", W.OFPET_FLOW_MOD_FAILED, None)))
  a(("flow-delete-all", lambda x: W.flow_mod(x, W.match(), W.OFPFC_DELETE), ("none",)))
  a(("port-mod", lambda x: W.port_mod(x, 1, MAC1(1, 1), W.OFPPC_NO_FLOOD, W.OFPPC_NO_FLOOD), ("none",)))
  a(("port-mod-absent", lambda x: W.port_mod(x, 99, MAC1(1, 1), 0, 0), ("error", W.OFPET_PORT_MOD_FAILED, W.OFPPMFC_BAD_PORT)))
  a(("port-mod-bad-hw", lambda x: W.port_mod(x, 1, b"\x02\xaa\xaa\xaa\xaa\xaa", 0, 0), ("error", W.OFPET_PORT_MOD_FAILED, W.OFPPMFC_BAD_HW_ADDR)))
  a(("packet-out", lambda x: W.packet_out(x, W.a_output(2), FRAME, in_port=1), ("none",)))
  a(("packet-out-table-1", lambda x: W.packet_out(x, W.a_output(W.OFPP_TABLE), FRAME, in_port=1), ("none",)))
  a(("packet-out-table-3", lambda x: W.packet_out(x, W.a_output(W.OFPP_TABLE), FRAME, in_port=3), ("none",)))
  a(("port-mod-no-packet-in-3", lambda x: W.port_mod(x, 3, MAC1(1, 3), W.OFPPC_NO_PACKET_IN, W.OFPPC_NO_PACKET_IN), ("none",)))
  a(("packet-out-controller", lambda x: W.packet_out(x, W.a_output(W.OFPP_CONTROLLER), FRAME, in_port=1), ("none",)))
  a(("packet-out-bad-buffer", lambda x: W.packet_out(x, W.a_output(2), b"", buffer_id=77, in_port=1), ("error", W.OFPET_BAD_REQUEST, W.OFPBRC_BUFFER_UNKNOWN)))
  # names the buffer id of the most recent packet-in (1 if none was seen): fine once, "already used" afterwards, "unknown"
  # if the switch never handed that id out
  a(("packet-out-last-buffer", lambda x, b=1: W.packet_out(x, W.a_output(2), b"", buffer_id=b, in_port=3), ("buffer",)))
  a(("packet-out-bad-action", lambda x: W.packet_out(x, W.a_raw(0x55), FRAME, in_port=1), ("error", W.OFPET_BAD_ACTION, W.OFPBAC_BAD_TYPE)))
  # header-only request types with a body attached: the length does not fit the type
  a(("barrier-with-body", lambda x: W.msg(W.BARRIER_REQUEST, x, b"\0\0\0\0"), ("error", W.OFPET_BAD_REQUEST, W.OFPBRC_BAD_LEN)))
  a(("get-config-with-body", lambda x: W.msg(W.GET_CONFIG_REQUEST, x, b"\0" * 8), ("error", W.OFPET_BAD_REQUEST, W.OFPBRC_BAD_LEN)))
  a(("vendor", lambda x: W.vendor(x, 0x1234, b"\0\0\0\0"), ("error", W.OFPET_BAD_REQUEST, W.OFPBRC_BAD_VENDOR)))
  a(("hello", lambda x: W.hello(x), ("none",)))
  a(("echo-reply", lambda x: W.echo_reply(x, b"zz"), ("none",)))
  a(("unknown-type", lambda x: W.msg(0x30, x, b"\0" * 8), ("error", W.OFPET_BAD_REQUEST, W.OFPBRC_BAD_TYPE)))
  return R


class Model (object):
  """What a controller can infer about the switch from the requests it sent."""
  def __init__ (self):
    self.miss_send_len = 128; self.flags = 0
    self.flows = set()
    self.out2 = False           # does flow "in1" currently output to port 2?
    self.tx = {1: 0, 2: 0, 3: 0, 4: 0}
    self.lookups = 0; self.matched = 0          # table counters (packets submitted to the table)
    self.issued = set(); self.used = set(); self.last_buf = None      # buffer ids seen in packet-ins / consumed
  def apply (self, name):
    if name == "set-config-64": self.miss_send_len, self.flags = 64, 0
    elif name == "set-config-0": self.miss_send_len, self.flags = 0, 0
    elif name == "flow-modify": self.flows.add("in1"); self.out2 = False
    elif name == "flow-delete-strict": self.flows.discard("in2")
    elif name == "set-config-max": self.miss_send_len, self.flags = 0xffff, 1
    elif name == "flow-add": self.flows.add("in1"); self.out2 = True
    elif name == "flow-add-other": self.flows.add("in2")
    elif name == "flow-delete-all": self.flows.clear()
    elif name == "packet-out": self.tx[2] += 1
    elif name == "packet-out-table-1":
      self.lookups += 1
      if "in1" in self.flows:
        self.matched += 1
        self.tx[2 if self.out2 else 3] += 1
    elif name == "packet-out-table-3":
      self.lookups += 1


def check_history (names, reqs, rep, stack_factory, batch=False, raws=None):
  """Run one history; returns list of (key, what)."""
  st = stack_factory()
  model = Model()
  bad = []
  outputs = []
  xids = [0x51000000 + i for i in range(len(names))]
  if raws is None: raws = [reqs[n][0](x) for n, x in zip(names, xids)]
  else: raws = list(raws)
  if batch == "split":
    # every message arrives in two segments (cut after the 4th byte of its header / in the middle of longer ones)
    try:
      for raw in raws:
        k = 4 if len(raw) <= 12 else len(raw) // 2
        st.feed(raw[:k]); st.feed(raw[k:])
    except Exception as e:
      return [("%s:%s:escaped-exception" % (PID, names[-1]), "exception escaped the switch's read loop: %s: %s" % (type(e).__name__, e))], None
    return [], st.drain()
  if batch:
    try:
      st.feed(b"".join(raws))
    except Exception as e:
      return [("%s:%s:escaped-exception" % (PID, names[-1]), "exception escaped the switch's read loop: %s: %s" % (type(e).__name__, e))], None
    stream = st.drain()
    return [], stream
  total = b""
  for i, (n, x, raw) in enumerate(zip(names, xids, raws)):
    exp = reqs[n][1]
    if exp[0] == "buffer":
      b_id = model.last_buf or 1
      raw = raws[i] = reqs[n][0](x, b_id)
      if b_id not in model.issued: exp = ("error", W.OFPET_BAD_REQUEST, W.OFPBRC_BUFFER_UNKNOWN)
      elif b_id in model.used: exp = ("error", W.OFPET_BAD_REQUEST, W.OFPBRC_BUFFER_EMPTY)
      else:
        exp = ("none",); model.used.add(b_id); model.tx[2] += 1
    try:
      st.feed(raw)
    except Exception as e:
      bad.append(("%s:%s:escaped-exception" % (PID, n), "exception escaped the switch's read loop: %s: %s" % (type(e).__name__, e)))
      break
    rep.transitions += 1
    out = st.drain(); total += out
    msgs, rest = W.split(out)
    if rest:
      bad.append(("%s:%s:garbled-output" % (PID, n), "switch wrote bytes that do not frame as OpenFlow messages")); break
    ds = [W.decode(m) for m in msgs]
    replies = [d for d in ds if d["type"] not in W.ASYNC_TYPES]
    for d in ds:
      if d["type"] == W.PACKET_IN and d.get("buffer_id", W.NO_BUFFER) != W.NO_BUFFER:
        model.issued.add(d["buffer_id"]); model.used.discard(d["buffer_id"]); model.last_buf = d["buffer_id"]
    for d in ds:
      if d["type"] in W.ASYNC_TYPES and d["xid"] == x and d["type"] != W.HELLO:
        pass
    if st.worker.closed or st.worker._shutdown_send:
      bad.append(("%s:%s:connection-dropped" % (PID, n), "switch closed the connection after %s" % n)); break
    kind = exp[0]
    if kind == "none":
      if replies:
        bad.append(("%s:%s:unexpected-reply" % (PID, n), "%s needs no reply but the switch sent %s" % (n, [r["t"] for r in replies])))
      model.apply(n)
      continue
    if len(replies) == 0:
      bad.append(("%s:%s:no-reply" % (PID, n), "%s (xid %#x) produced neither a reply nor an error" % (n, x)))
      model.apply(n); continue
    if len(replies) > 1:
      bad.append(("%s:%s:multiple-replies" % (PID, n), "%s produced %d messages: %s" % (n, len(replies), [r["t"] for r in replies])))
      continue
    r = replies[0]
    if r["xid"] != x:
      bad.append(("%s:%s:wrong-xid" % (PID, n), "%s sent with xid %#x answered with xid %#x" % (n, x, r["xid"])))
    if kind == "answer":
      pass        # any single reply or error will do (specification names no code)
    elif kind == "reply":
      if r["type"] != exp[1]:
        bad.append(("%s:%s:wrong-reply-type" % (PID, n), "%s answered with %s" % (n, r["t"])))
      else:
        bad.extend(check_body(n, r, raw, model, st))
    elif kind == "stats":
      if r["type"] != W.STATS_REPLY or r.get("stype") != exp[1]:
        bad.append(("%s:%s:wrong-reply-type" % (PID, n), "%s answered with %s/%s" % (n, r["t"], r.get("stype"))))
      else:
        bad.extend(check_body(n, r, raw, model, st))
    elif kind == "error":
      if r["type"] != W.ERROR:
        bad.append(("%s:%s:wrong-reply-type" % (PID, n), "%s must be refused with an error, got %s" % (n, r["t"])))
      else:
        if r["etype"] != exp[1] or (exp[2] is not None and r["code"] != exp[2]):
          bad.append(("%s:%s:wrong-error-code" % (PID, n), "%s refused with error type %d code %d, specification says type %d code %s"
                      % (n, r["etype"], r["code"], exp[1], exp[2])))
        want = raw[:64]
        # POX re-encodes the decoded request (normalised wildcards / max_len), so only the header of the
        # echoed request and the amount of data are compared (see DESIGN.md, C13 scoping)
        if not (r["data"][:8] == raw[:8] and len(r["data"]) >= len(want)):
          bad.append(("%s:%s:error-data" % (PID, n), "error data is not (at least the first 64 bytes of) the failed request"))
    model.apply(n)
  check_history.last_raws = raws
  return bad, total


def check_body (n, r, raw, model, st):
  bad = []
  def b (clause, what): bad.append(("%s:%s:%s" % (PID, n, clause), what))
  if n.startswith("echo-"):
    if r["body"] != raw[8:]: b("echo-body", "echo reply body differs from the request body")
  elif n == "features":
    if r["dpid"] != 1 or sorted(p["port_no"] for p in r["ports"]) != [1, 2, 3, 4] or r["n_tables"] != 1:
      b("features-data", "features reply does not describe the switch (dpid %s ports %s)" % (r["dpid"], [p["port_no"] for p in r["ports"]]))
  elif n == "get-config":
    if (r["miss_send_len"], r["flags"]) != (model.miss_send_len, model.flags):
      b("config-data", "get-config reply %r does not reflect the last set-config %r" % ((r["miss_send_len"], r["flags"]), (model.miss_send_len, model.flags)))
  elif n == "stats-desc":
    if "desc" not in r: b("stats-body", "desc stats body has %d bytes, specification says 1056" % len(r["body"]))
  elif n == "stats-flow":
    if not r["wellformed"] or len(r["flows"]) != len(model.flows):
      b("stats-body", "flow stats lists %d flows, %d installed" % (len(r.get("flows", [])), len(model.flows)))
  elif n in ("stats-flow-table1", "stats-flow-in2", "stats-flow-out2"):
    want = {"stats-flow-table1": 0, "stats-flow-in2": int("in2" in model.flows),
            "stats-flow-out2": int("in1" in model.flows and model.out2)}[n]
    if not r["wellformed"] or len(r["flows"]) != want:
      b("stats-body", "%s lists %d flows, expected %d" % (n, len(r.get("flows", [])), want))
  elif n == "stats-aggregate-table1":
    if r.get("flow_count") != 0:
      b("stats-body", "aggregate stats for table 1 flow_count %r, expected 0" % (r.get("flow_count"),))
  elif n == "stats-aggregate":
    if r.get("flow_count") != len(model.flows):
      b("stats-body", "aggregate stats flow_count %r, %d installed" % (r.get("flow_count"), len(model.flows)))
  elif n == "stats-table":
    if not r["wellformed"] or len(r["tables"]) != 1 or r["tables"][0]["active_count"] != len(model.flows):
      b("stats-body", "table stats %r, expected one table with active_count %d" % (r.get("tables"), len(model.flows)))
    elif (r["tables"][0]["lookup_count"], r["tables"][0]["matched_count"]) != (model.lookups, model.matched):
      b("stats-body:lookup-counters", "table stats lookup/matched counts %r, %d packets were submitted to the table and %d matched"
        % ((r["tables"][0]["lookup_count"], r["tables"][0]["matched_count"]), model.lookups, model.matched))
  elif n == "stats-port-all":
    got = dict((p["port_no"], p["tx_packets"]) for p in r["ports"])
    if not r["wellformed"] or got != model.tx:
      b("stats-body", "port stats tx_packets %r, expected %r" % (got, model.tx))
  elif n == "stats-port-2":
    got = [(p["port_no"], p["tx_packets"]) for p in r["ports"]]
    if got != [(2, model.tx[2])]:
      b("stats-body", "port stats for port 2: %r, expected tx_packets %d" % (got, model.tx[2]))
  elif n == "stats-queue-all":
    if r["queues"]: b("stats-body", "queue stats lists queues on a switch without queues")
  elif n == "queue-get-config":
    if r["port"] != 1: b("reply-data", "queue-get-config reply is for port %d" % r["port"])
  return bad


def _stack ():
  from mc.env import SwitchStack, VClock
  # table capacity 2 = the two distinct flows of the alphabet: re-adding an installed flow happens at capacity, a third flow never
  return SwitchStack(dpid=1, ports=4, max_buffers=4, clock=VClock(), max_entries=2)


def _worker (histories):
  from mc.env import boot
  boot()
  reqs = dict((n, (f, e)) for n, f, e in requests())
  rep = Report(PID, "model_checking")
  for names in histories:
    bad, stream = check_history(names, reqs, rep, _stack)
    rep.evaluations += 1
    if not bad and len(names) > 1:
      # differential: the same bytes in one read must give the same reply stream
      bad2, stream2 = check_history(names, reqs, rep, _stack, batch=True, raws=check_history.last_raws)
      rep.evaluations += 1
      if bad2: bad = bad2
      elif stream2 != stream:
        bad = [("%s:%s:segmentation-changes-replies" % (PID, names[-1]), "replies differ when the requests arrive in one read")]
      elif any(reqs[n][1][0] in ("error", "answer") for n in names):
        # histories with a refused request also with every message split over two reads
        bad3, stream3 = check_history(names, reqs, rep, _stack, batch="split", raws=check_history.last_raws)
        rep.evaluations += 1
        if bad3: bad = bad3
        elif stream3 != stream:
          bad = [("%s:%s:segmentation-changes-replies:split" % (PID, names[-1]), "replies differ when every request arrives split over two reads")]
    rep.outcome((names, stream, tuple(k for k, _ in bad)))
    for k, what in bad:
      rep.violation(k, what, dict(history=list(names)))
    if rep.evaluations % 4000 == 1: rep.sample(dict(history=list(names), reply_bytes=len(stream or b"")))
  rep.state_count = len(histories)
  return rep


def long_history (names):
  """One deterministic sequence in which every ordered pair of requests occurs adjacent."""
  seq = []
  for a in names:
    for b in names:
      seq += [a, b]
  return [tuple(seq[i:i+40]) for i in range(0, len(seq), 40)]


def run (cfg):
  rep = Report(PID, "model_checking")
  names = [n for n, f, e in requests()]
  depth = cfg.pick(3, 4)
  hs = []
  for d in range(1, depth + 1):
    hs += list(itertools.product(names, repeat=d))
  hs += long_history(names)
  rep.rule = ("all sequences of <=%d requests over %d controller-to-switch messages (distinct xids), each sent as "
              "spec-encoded bytes message-by-message, again as one read and (histories with a refused request) with every message split over two reads, plus %d histories of 40 covering every ordered pair; "
              "distinct = distinct (history, reply byte stream, verdict)" % (depth, len(names), len(long_history(names))))
  rep.bound = dict(depth=depth, alphabet=len(names))
  rep.assumptions = ["error codes asserted only where OpenFlow 1.0 names one", "HELLO/PACKET_IN/PORT_STATUS/FLOW_REMOVED are asynchronous, not replies"]
  for r in pmap(_worker, split(hs, cfg.workers * 4), cfg.workers, seed=cfg.seed):
    rep.merge(r)
  return rep


def replay (cfg, data):
  from mc.env import boot
  boot()
  reqs = dict((n, (f, e)) for n, f, e in requests())
  rep = Report(PID, "model_checking")
  bad, stream = check_history(tuple(data["history"]), reqs, rep, _stack)
  if not bad:
    bad, s2 = check_history(tuple(data["history"]), reqs, rep, _stack, batch=True, raws=check_history.last_raws)
    if not bad and s2 != stream: bad = [("segmentation", "replies differ in one read")]
    if not bad:
      bad, s3 = check_history(tuple(data["history"]), reqs, rep, _stack, batch="split", raws=check_history.last_raws)
      if not bad and s3 != stream: bad = [("segmentation", "replies differ when every request is split over two reads")]
  return bool(bad), "history: %r\n%s" % (data["history"], "\n".join("%s: %s" % b for b in bad))
