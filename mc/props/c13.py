"""C13 - every switch request is answered once, with its xid, in order.

All request sequences of length <=3 over the controller-to-switch messages of `requests()` (thorough: one request
deeper behind state-affecting prefixes), sent as spec-encoded bytes through the real RecocoIOWorker -> OFConnection ->
SoftwareSwitch stack; plus long deterministic histories containing every ordered pair of requests.  The reply stream
is decoded with the independent wire decoder (mc/refs/ofwire.py) and compared with a small reference
model of the switch's visible state (config, flow table of capacity 2, port/table counters, packet buffers).

Flow-mods are described declaratively (command x match x flags x buffer_id kind) and their expected answer
is computed from the history: whether the flow-mod is carried out or refused (BAD_COMMAND, emergency flag,
OVERLAP, ALL_TABLES_FULL) x whether the buffer_id it carries is absent, never issued, already used or valid.
Two further families enumerate histories over sub-alphabets: the flow family (all flow-mods + buffers + read-backs)
and, one request deeper, the buffer family (see `histories`).
"""
import itertools, struct
from mc.engine import pmap, split
from mc.report import Report
from mc.refs import ofwire as W

PID = "C13"
FRAME = bytes.fromhex("0000000000020000000000010800") + b"\x45\x00\x00\x1c" + b"\0" * 24   # 42-byte frame
MAC1 = lambda dpid, port: bytes.fromhex("02%06x%04x" % (dpid % 0xffff, port))


FM_MATCH = {"in1": W.match_fields(in_port=1), "in2": W.match_fields(in_port=2), "in3": W.match_fields(in_port=3),
            "all": W.match()}
BAD_BUFFER = 77            # never handed out: the switch has 4 buffers
CAPACITY = 2               # flow table capacity of the switch under test (see _stack)


def flow_req (cmd, key, out=None, flags=0, buf=None):
  """A flow-mod: command x match (in1/in2/in3/all) x one output action (or none) x flags x buffer_id kind
  (None = no buffer, 'bad' = an id the switch never hands out, 'last' = the id of the most recent packet-in).
  Returns (builder, expectation descriptor); the answer is worked out by Model.flow_step."""
  acts = W.a_output(out) if out is not None else b""
  def build (x, b=1):
    bid = W.NO_BUFFER if buf is None else (BAD_BUFFER if buf == "bad" else b)
    return W.flow_mod(x, FM_MATCH[key], cmd, acts, flags=flags, buffer_id=bid)
  return build, ("flow", cmd, key, out, flags, buf)


def requests ():
  """name -> (builder(xid) -> bytes, expectation).  expectation: ('reply', TYPE) | ('error', etype, code|None)
  | ('none',) | ('answer',) | ('buffer',) | ('flow', command, match key, out port, flags, buffer kind)"""
  R = []
  a = R.append
  a(("echo-empty", lambda x: W.echo_request(x), ("reply", W.ECHO_REPLY)))
  a(("echo-body", lambda x: W.echo_request(x, b"abcde"), ("reply", W.ECHO_REPLY)))
  a(("features", lambda x: W.features_request(x), ("reply", W.FEATURES_REPLY)))
  a(("get-config", lambda x: W.get_config_request(x), ("reply", W.GET_CONFIG_REPLY)))
  a(("set-config-64", lambda x: W.set_config(x, 0, 64), ("none",)))
  a(("set-config-0", lambda x: W.set_config(x, 0, 0), ("none",)))
  a(("set-config-max", lambda x: W.set_config(x, 1, 0xffff), ("none",)))
  a(("barrier", lambda x: W.barrier_request(x), ("reply", W.BARRIER_REPLY)))
  a(("stats-desc", lambda x: W.stats_request(x, W.OFPST_DESC), ("stats", W.OFPST_DESC)))
  a(("stats-flow", lambda x: W.stats_request(x, W.OFPST_FLOW, W.flow_stats_body()), ("stats", W.OFPST_FLOW)))
  a(("stats-aggregate", lambda x: W.stats_request(x, W.OFPST_AGGREGATE, W.flow_stats_body()), ("stats", W.OFPST_AGGREGATE)))
  a(("stats-table", lambda x: W.stats_request(x, W.OFPST_TABLE), ("stats", W.OFPST_TABLE)))
  a(("stats-port-all", lambda x: W.stats_request(x, W.OFPST_PORT, W.port_stats_body(W.OFPP_NONE)), ("stats", W.OFPST_PORT)))
  a(("stats-port-2", lambda x: W.stats_request(x, W.OFPST_PORT, W.port_stats_body(2)), ("stats", W.OFPST_PORT)))
  a(("stats-port-absent", lambda x: W.stats_request(x, W.OFPST_PORT, W.port_stats_body(99)), ("answer",)))
  a(("stats-queue-all", lambda x: W.stats_request(x, W.OFPST_QUEUE, W.queue_stats_body(W.OFPP_ALL, W.OFPQ_ALL)), ("stats", W.OFPST_QUEUE)))
  a(("stats-queue-one", lambda x: W.stats_request(x, W.OFPST_QUEUE, W.queue_stats_body(1, 5)), ("error", W.OFPET_QUEUE_OP_FAILED, W.OFPQOFC_BAD_QUEUE)))
  a(("stats-queue-bad-port", lambda x: W.stats_request(x, W.OFPST_QUEUE, W.queue_stats_body(77, W.OFPQ_ALL)), ("answer",)))
  a(("stats-queue-allports-one", lambda x: W.stats_request(x, W.OFPST_QUEUE, W.queue_stats_body(W.OFPP_ALL, 5)), ("error", W.OFPET_QUEUE_OP_FAILED, W.OFPQOFC_BAD_QUEUE)))
  a(("stats-flow-table1", lambda x: W.stats_request(x, W.OFPST_FLOW, W.flow_stats_body(table_id=1)), ("stats", W.OFPST_FLOW)))
  a(("stats-flow-in2", lambda x: W.stats_request(x, W.OFPST_FLOW, W.flow_stats_body(W.match_fields(in_port=2))), ("stats", W.OFPST_FLOW)))
  a(("stats-flow-out2", lambda x: W.stats_request(x, W.OFPST_FLOW, W.flow_stats_body(out_port=2)), ("stats", W.OFPST_FLOW)))
  a(("stats-aggregate-table1", lambda x: W.stats_request(x, W.OFPST_AGGREGATE, W.flow_stats_body(table_id=1)), ("stats", W.OFPST_AGGREGATE)))
  a(("queue-get-config-absent", lambda x: W.queue_get_config_request(x, 99), ("answer",)))
  a(("echo-big", lambda x: W.echo_request(x, bytes(range(256)) * 5), ("reply", W.ECHO_REPLY)))
  a(("flow-modify",) + flow_req(W.OFPFC_MODIFY, "in1", 3))
  a(("flow-delete-strict",) + flow_req(W.OFPFC_DELETE_STRICT, "in2"))
  a(("stats-vendor", lambda x: W.stats_request(x, W.OFPST_VENDOR, struct.pack("!L", 0x2320)), ("error", W.OFPET_BAD_REQUEST, None)))
  a(("stats-unknown", lambda x: W.stats_request(x, 9), ("error", W.OFPET_BAD_REQUEST, W.OFPBRC_BAD_STAT)))
  a(("queue-get-config", lambda x: W.queue_get_config_request(x, 1), ("reply", W.QUEUE_GET_CONFIG_REPLY)))
  a(("flow-add",) + flow_req(W.OFPFC_ADD, "in1", 2))
  a(("flow-add-other",) + flow_req(W.OFPFC_ADD, "in2", 1))
  a(("flow-bad-command",) + flow_req(9, "in1", 2))
  a(("flow-emerg",) + flow_req(W.OFPFC_ADD, "in1", 2, flags=W.OFPFF_EMERG))
  a(("flow-delete-all",) + flow_req(W.OFPFC_DELETE, "all"))
  # the remaining flow-mod commands, a third flow (the table holds two) and an ADD that asks for the overlap check
  a(("flow-modify-strict",) + flow_req(W.OFPFC_MODIFY_STRICT, "in1", 4))
  a(("flow-delete-in1",) + flow_req(W.OFPFC_DELETE, "in1"))
  a(("flow-add-third",) + flow_req(W.OFPFC_ADD, "in3", 4))
  a(("flow-add-check-overlap",) + flow_req(W.OFPFC_ADD, "in1", 2, flags=W.OFPFF_CHECK_OVERLAP))
  # flow-mods that carry a buffer_id: every command with an id that was never handed out; ADD/MODIFY/MODIFY_STRICT with
  # the id of the most recent packet-in (valid once, used afterwards); refused flow-mods that also name a bad buffer
  a(("flow-add-bad-buffer",) + flow_req(W.OFPFC_ADD, "in1", 2, buf="bad"))
  a(("flow-modify-bad-buffer",) + flow_req(W.OFPFC_MODIFY, "in1", 4, buf="bad"))
  a(("flow-modify-strict-bad-buffer",) + flow_req(W.OFPFC_MODIFY_STRICT, "in1", 4, buf="bad"))
  a(("flow-delete-bad-buffer",) + flow_req(W.OFPFC_DELETE, "in1", buf="bad"))
  a(("flow-delete-strict-bad-buffer",) + flow_req(W.OFPFC_DELETE_STRICT, "in1", buf="bad"))
  a(("flow-add-last-buffer",) + flow_req(W.OFPFC_ADD, "in1", 2, buf="last"))
  a(("flow-modify-last-buffer",) + flow_req(W.OFPFC_MODIFY, "in1", 4, buf="last"))
  a(("flow-modify-strict-last-buffer",) + flow_req(W.OFPFC_MODIFY_STRICT, "in1", 4, buf="last"))
  a(("flow-emerg-bad-buffer",) + flow_req(W.OFPFC_ADD, "in1", 2, flags=W.OFPFF_EMERG, buf="bad"))
  a(("flow-bad-command-bad-buffer",) + flow_req(9, "in1", 2, buf="bad"))
  a(("port-mod", lambda x: W.port_mod(x, 1, MAC1(1, 1), W.OFPPC_NO_FLOOD, W.OFPPC_NO_FLOOD), ("none",)))
  a(("port-mod-absent", lambda x: W.port_mod(x, 99, MAC1(1, 1), 0, 0), ("error", W.OFPET_PORT_MOD_FAILED, W.OFPPMFC_BAD_PORT)))
  a(("port-mod-bad-hw", lambda x: W.port_mod(x, 1, b"\x02\xaa\xaa\xaa\xaa\xaa", 0, 0), ("error", W.OFPET_PORT_MOD_FAILED, W.OFPPMFC_BAD_HW_ADDR)))
  a(("packet-out", lambda x: W.packet_out(x, W.a_output(2), FRAME, in_port=1), ("none",)))
  a(("packet-out-table-1", lambda x: W.packet_out(x, W.a_output(W.OFPP_TABLE), FRAME, in_port=1), ("none",)))
  a(("packet-out-table-3", lambda x: W.packet_out(x, W.a_output(W.OFPP_TABLE), FRAME, in_port=3), ("none",)))
  a(("port-mod-no-packet-in-3", lambda x: W.port_mod(x, 3, MAC1(1, 3), W.OFPPC_NO_PACKET_IN, W.OFPPC_NO_PACKET_IN), ("none",)))
  a(("packet-out-controller", lambda x: W.packet_out(x, W.a_output(W.OFPP_CONTROLLER), FRAME, in_port=1), ("none",)))
  a(("packet-out-bad-buffer", lambda x: W.packet_out(x, W.a_output(2), b"", buffer_id=77, in_port=1), ("error", W.OFPET_BAD_REQUEST, W.OFPBRC_BUFFER_UNKNOWN)))
  # names the buffer id of the most recent packet-in (1 if none was seen): fine once, "already used" afterwards, "unknown"
  # if the switch never handed that id out
  a(("packet-out-last-buffer", lambda x, b=1: W.packet_out(x, W.a_output(2), b"", buffer_id=b, in_port=3), ("buffer",)))
  a(("packet-out-bad-action", lambda x: W.packet_out(x, W.a_raw(0x55), FRAME, in_port=1), ("error", W.OFPET_BAD_ACTION, W.OFPBAC_BAD_TYPE)))
  # header-only request types with a body attached: the length does not fit the type
  a(("barrier-with-body", lambda x: W.msg(W.BARRIER_REQUEST, x, b"\0\0\0\0"), ("error", W.OFPET_BAD_REQUEST, W.OFPBRC_BAD_LEN)))
  a(("get-config-with-body", lambda x: W.msg(W.GET_CONFIG_REQUEST, x, b"\0" * 8), ("error", W.OFPET_BAD_REQUEST, W.OFPBRC_BAD_LEN)))
  a(("vendor", lambda x: W.vendor(x, 0x1234, b"\0\0\0\0"), ("error", W.OFPET_BAD_REQUEST, W.OFPBRC_BAD_VENDOR)))
  a(("hello", lambda x: W.hello(x), ("none",)))
  a(("echo-reply", lambda x: W.echo_reply(x, b"zz"), ("none",)))
  a(("unknown-type", lambda x: W.msg(0x30, x, b"\0" * 8), ("error", W.OFPET_BAD_REQUEST, W.OFPBRC_BAD_TYPE)))
  return R


class Model (object):
  """What a controller can infer about the switch from the requests it sent and the answers it saw.
  A value of None (tx, lookups, matched) or vague=True (flow table) means "the specification does not say what the
  switch did"; clauses that depend on such a value are not evaluated until the value is known again."""
  def __init__ (self):
    self.miss_send_len = 128; self.flags = 0
    self.flows = {}             # "in1"/"in2"/"in3" -> port its single output action names
    self.vague = False          # table contents not determined (a flow-mod was answered with a buffer error)
    self.tx = {1: 0, 2: 0, 3: 0, 4: 0}
    self.lookups = 0; self.matched = 0          # table counters (packets submitted to the table)
    self.issued = set(); self.used = set(); self.last_buf = None      # buffer ids seen in packet-ins / consumed
    self.limbo = set()          # issued ids of which it is not specified whether they were consumed

  def count (self, pred=lambda k, o: True):
    return sum(1 for k, o in self.flows.items() if pred(k, o))

  def apply (self, name):
    if name == "set-config-64": self.miss_send_len, self.flags = 64, 0
    elif name == "set-config-0": self.miss_send_len, self.flags = 0, 0
    elif name == "set-config-max": self.miss_send_len, self.flags = 0xffff, 1
    elif name == "packet-out": self.sent(2)
    elif name == "packet-out-table-1": self.lookup("in1")
    elif name == "packet-out-table-3": self.lookup("in3")

  def sent (self, port):
    if self.tx is not None: self.tx[port] += 1

  def lookup (self, key):
    if self.lookups is not None: self.lookups += 1
    if self.vague:
      self.matched = None; self.tx = None
    elif key in self.flows:
      if self.matched is not None: self.matched += 1
      self.sent(self.flows[key])

  def buffer_state (self, b_id):
    if b_id not in self.issued: return "unknown"
    if b_id in self.limbo: return "limbo"
    if b_id in self.used: return "empty"
    return "ok"

  def buffer_maybe_used (self, b_id, out):
    """The packet in buffer b_id may or may not have been sent / released."""
    self.limbo.add(b_id)
    if out is not None: self.tx = None

  def buffer_used (self, b_id, out):
    self.used.add(b_id)
    if out is not None: self.sent(out)
    # whether a buffered packet handed to a flow-mod counts as a table lookup is not specified
    self.lookups = None; self.matched = None

  def flow_step (self, desc, b_id):
    """Expected answer to a flow-mod and its effect: returns (expectation, effect(replies))."""
    _, cmd, key, out, flags, buf = desc
    FMF, BR = W.OFPET_FLOW_MOD_FAILED, W.OFPET_BAD_REQUEST
    bs = None if buf is None else self.buffer_state(b_id)
    buf_err = {"unknown": (BR, W.OFPBRC_BUFFER_UNKNOWN), "empty": (BR, W.OFPBRC_BUFFER_EMPTY), "limbo": (BR, None)}.get(bs)
    nothing = lambda replies: None
    # -- is the flow-mod itself carried out?
    rej = None; change = None
    if cmd not in (W.OFPFC_ADD, W.OFPFC_MODIFY, W.OFPFC_MODIFY_STRICT, W.OFPFC_DELETE, W.OFPFC_DELETE_STRICT):
      rej = (FMF, W.OFPFMFC_BAD_COMMAND)
    elif flags & W.OFPFF_EMERG:
      rej = (FMF, None)                     # emergency entries are not supported; the specification names no single code
    elif cmd in (W.OFPFC_DELETE, W.OFPFC_DELETE_STRICT):
      def change ():
        if key == "all": self.flows.clear(); self.vague = False
        else: self.flows.pop(key, None)
      if bs is None:
        return ("none",), lambda replies: change()
      # buffer_id is "not meaningful for OFPFC_DELETE*": silence and a BAD_REQUEST error are both fine
      def eff (replies):
        if replies: self.vague = True
        else: change()
        if bs == "ok": self.buffer_maybe_used(b_id, out)
      return ("maybe", BR), eff
    elif self.vague:
      # the table contents are not determined, so neither is OVERLAP / ALL_TABLES_FULL
      def eff (replies):
        if bs == "ok": self.buffer_maybe_used(b_id, out)
      if bs in ("unknown", "empty"):      # refused for one reason or the other (or both), never silence
        return ("errors", ((FMF, None), buf_err)), eff
      return ("any",), eff
    else:
      as_add = cmd == W.OFPFC_ADD or key not in self.flows
      if cmd == W.OFPFC_ADD and (flags & W.OFPFF_CHECK_OVERLAP) and key in self.flows:
        rej = (FMF, W.OFPFMFC_OVERLAP)
      elif as_add and key not in self.flows and len(self.flows) >= CAPACITY:
        rej = (FMF, W.OFPFMFC_ALL_TABLES_FULL)
      else:
        def change (): self.flows[key] = out
    if rej is not None:
      if bs is None: return ("error",) + rej, nothing
      if bs == "ok":
        # refused flow-mod naming a valid buffer: whether the buffer is still released is not specified
        return ("error",) + rej, lambda replies: self.buffer_maybe_used(b_id, out)
      # refused for two reasons: either error (or one of each) answers the request
      return ("errors", (rej, buf_err)), nothing
    # carried out
    if bs is None: return ("none",), lambda replies: change()
    if bs in ("unknown", "empty"):
      # the error is specified; whether the table was changed before the buffer was looked at is not
      def eff (replies): self.vague = True
      return ("error",) + buf_err, eff
    if bs == "limbo":
      def eff (replies):
        if replies: self.vague = True
        else: change()
        self.tx = None if out is not None else self.tx
        self.lookups = None; self.matched = None
      return ("maybe", BR), eff
    def eff (replies):
      change(); self.buffer_used(b_id, out)
    return ("none",), eff


def check_history (names, reqs, rep, stack_factory, batch=False, raws=None):
  """Run one history; returns list of (key, what)."""
  st = stack_factory()
  model = Model()
  bad = []
  outputs = []
  xids = [0x51000000 + i for i in range(len(names))]
  if raws is None: raws = [reqs[n][0](x) for n, x in zip(names, xids)]
  else: raws = list(raws)
  if batch == "split":
    # every message arrives in two segments (cut after the 4th byte of its header / in the middle of longer ones)
    try:
      for raw in raws:
        k = 4 if len(raw) <= 12 else len(raw) // 2
        st.feed(raw[:k]); st.feed(raw[k:])
    except Exception as e:
      return [("%s:%s:escaped-exception" % (PID, names[-1]), "exception escaped the switch's read loop: %s: %s" % (type(e).__name__, e))], None
    return [], st.drain()
  if batch:
    try:
      st.feed(b"".join(raws))
    except Exception as e:
      return [("%s:%s:escaped-exception" % (PID, names[-1]), "exception escaped the switch's read loop: %s: %s" % (type(e).__name__, e))], None
    stream = st.drain()
    return [], stream
  total = b""
  BR = W.OFPET_BAD_REQUEST
  check_history.refused = False
  for i, (n, x, raw) in enumerate(zip(names, xids, raws)):
    exp = reqs[n][1]
    post = lambda replies, n=n: model.apply(n)
    if exp[0] == "buffer":
      b_id = model.last_buf or 1
      raw = raws[i] = reqs[n][0](x, b_id)
      bs = model.buffer_state(b_id)
      post = lambda replies: None
      if bs == "unknown": exp = ("error", BR, W.OFPBRC_BUFFER_UNKNOWN)
      elif bs == "empty": exp = ("error", BR, W.OFPBRC_BUFFER_EMPTY)
      elif bs == "limbo":
        exp = ("maybe", BR); model.tx = None
      else:
        exp = ("none",); model.used.add(b_id); model.sent(2)
    elif exp[0] == "flow":
      b_id = model.last_buf or 1
      if exp[5] == "last": raw = raws[i] = reqs[n][0](x, b_id)
      elif exp[5] == "bad": b_id = BAD_BUFFER
      exp, post = model.flow_step(exp, b_id)
    try:
      st.feed(raw)
    except Exception as e:
      bad.append(("%s:%s:escaped-exception" % (PID, n), "exception escaped the switch's read loop: %s: %s" % (type(e).__name__, e)))
      break
    rep.transitions += 1
    out = st.drain(); total += out
    msgs, rest = W.split(out)
    if rest:
      bad.append(("%s:%s:garbled-output" % (PID, n), "switch wrote bytes that do not frame as OpenFlow messages")); break
    ds = [W.decode(m) for m in msgs]
    replies = [d for d in ds if d["type"] not in W.ASYNC_TYPES]
    if any(d["type"] == W.ERROR for d in replies): check_history.refused = True
    for d in ds:
      if d["type"] == W.PACKET_IN and d.get("buffer_id", W.NO_BUFFER) != W.NO_BUFFER:
        model.issued.add(d["buffer_id"]); model.used.discard(d["buffer_id"]); model.limbo.discard(d["buffer_id"])
        model.last_buf = d["buffer_id"]
    if st.worker.closed or st.worker._shutdown_send:
      bad.append(("%s:%s:connection-dropped" % (PID, n), "switch closed the connection after %s" % n)); break
    kind = exp[0]
    if kind == "none":
      if replies:
        bad.append(("%s:%s:unexpected-reply" % (PID, n), "%s needs no reply but the switch sent %s" % (n, [r["t"] for r in replies])))
      post(replies)
      continue
    most = len(exp[1]) if kind == "errors" else 1
    if len(replies) == 0 and kind not in ("maybe", "any"):
      bad.append(("%s:%s:no-reply" % (PID, n), "%s (xid %#x) produced neither a reply nor an error" % (n, x)))
      post(replies); continue
    if len(replies) > most:
      bad.append(("%s:%s:multiple-replies" % (PID, n), "%s produced %d messages: %s" % (n, len(replies), [r["t"] for r in replies])))
      if kind in ("maybe", "any", "errors"): post(replies)
      continue
    for r in replies:
      if r["xid"] != x:
        bad.append(("%s:%s:wrong-xid" % (PID, n), "%s sent with xid %#x answered with xid %#x" % (n, x, r["xid"])))
    r = replies[0] if replies else None
    if kind in ("answer", "any") or r is None:
      pass        # any single reply or error will do (specification names no code)
    elif kind == "reply":
      if r["type"] != exp[1]:
        bad.append(("%s:%s:wrong-reply-type" % (PID, n), "%s answered with %s" % (n, r["t"])))
      else:
        bad.extend(check_body(n, r, raw, model, st))
    elif kind == "stats":
      if r["type"] != W.STATS_REPLY or r.get("stype") != exp[1]:
        bad.append(("%s:%s:wrong-reply-type" % (PID, n), "%s answered with %s/%s" % (n, r["t"], r.get("stype"))))
      else:
        bad.extend(check_body(n, r, raw, model, st))
    else:
      # error | maybe (an error of the given type, if anything) | errors (one error per reason, at least one)
      allowed = [tuple(exp[1:])] if kind == "error" else [(exp[1], None)] if kind == "maybe" else list(exp[1])
      for r in replies:
        if r["type"] != W.ERROR:
          bad.append(("%s:%s:wrong-reply-type" % (PID, n), "%s must be refused with an error, got %s" % (n, r["t"])))
          continue
        hit = [a for a in allowed if r["etype"] == a[0] and (a[1] is None or r["code"] == a[1])]
        if not hit:
          bad.append(("%s:%s:wrong-error-code" % (PID, n), "%s refused with error type %d code %d, specification says %s"
                      % (n, r["etype"], r["code"], " or ".join("type %d code %s" % a for a in allowed) if allowed else "nothing more")))
        else:
          if kind == "errors": allowed.remove(hit[0])        # one error per reason
        want = raw[:64]
        # POX re-encodes the decoded request (normalised wildcards / max_len), so only the header of the
        # echoed request and the amount of data are compared (see DESIGN.md, C13 scoping)
        if not (r["data"][:8] == raw[:8] and len(r["data"]) >= len(want)):
          bad.append(("%s:%s:error-data" % (PID, n), "error data is not (at least the first 64 bytes of) the failed request"))
    post(replies)
  check_history.last_raws = raws
  return bad, total


def check_body (n, r, raw, model, st):
  bad = []
  def b (clause, what): bad.append(("%s:%s:%s" % (PID, n, clause), what))
  if n.startswith("echo-"):
    if r["body"] != raw[8:]: b("echo-body", "echo reply body differs from the request body")
  elif n == "features":
    if r["dpid"] != 1 or sorted(p["port_no"] for p in r["ports"]) != [1, 2, 3, 4] or r["n_tables"] != 1:
      b("features-data", "features reply does not describe the switch (dpid %s ports %s)" % (r["dpid"], [p["port_no"] for p in r["ports"]]))
  elif n == "get-config":
    if (r["miss_send_len"], r["flags"]) != (model.miss_send_len, model.flags):
      b("config-data", "get-config reply %r does not reflect the last set-config %r" % ((r["miss_send_len"], r["flags"]), (model.miss_send_len, model.flags)))
  elif n == "stats-desc":
    if "desc" not in r: b("stats-body", "desc stats body has %d bytes, specification says 1056" % len(r["body"]))
  elif n == "stats-flow":
    if not r["wellformed"] or (not model.vague and len(r["flows"]) != len(model.flows)):
      b("stats-body", "flow stats lists %d flows, %d installed" % (len(r.get("flows", [])), len(model.flows)))
  elif n in ("stats-flow-table1", "stats-flow-in2", "stats-flow-out2"):
    want = {"stats-flow-table1": 0, "stats-flow-in2": int("in2" in model.flows),
            "stats-flow-out2": model.count(lambda k, o: o == 2)}[n]
    if not r["wellformed"] or ((n == "stats-flow-table1" or not model.vague) and len(r["flows"]) != want):
      b("stats-body", "%s lists %d flows, expected %d" % (n, len(r.get("flows", [])), want))
  elif n == "stats-aggregate-table1":
    if r.get("flow_count") != 0:
      b("stats-body", "aggregate stats for table 1 flow_count %r, expected 0" % (r.get("flow_count"),))
  elif n == "stats-aggregate":
    if r.get("flow_count") is None or (not model.vague and r.get("flow_count") != len(model.flows)):
      b("stats-body", "aggregate stats flow_count %r, %d installed" % (r.get("flow_count"), len(model.flows)))
  elif n == "stats-table":
    if not r["wellformed"] or len(r["tables"]) != 1 or (not model.vague and r["tables"][0]["active_count"] != len(model.flows)):
      b("stats-body", "table stats %r, expected one table with active_count %d" % (r.get("tables"), len(model.flows)))
    elif (model.lookups is not None and r["tables"][0]["lookup_count"] != model.lookups) or \
         (model.matched is not None and r["tables"][0]["matched_count"] != model.matched):
      b("stats-body:lookup-counters", "table stats lookup/matched counts %r, %s packets were submitted to the table and %s matched"
        % ((r["tables"][0]["lookup_count"], r["tables"][0]["matched_count"]), model.lookups, model.matched))
  elif n == "stats-port-all":
    got = dict((p["port_no"], p["tx_packets"]) for p in r["ports"])
    if not r["wellformed"] or sorted(got) != [1, 2, 3, 4] or (model.tx is not None and got != model.tx):
      b("stats-body", "port stats tx_packets %r, expected %r" % (got, model.tx))
  elif n == "stats-port-2":
    got = [(p["port_no"], p["tx_packets"]) for p in r["ports"]]
    if [g[0] for g in got] != [2] or (model.tx is not None and got != [(2, model.tx[2])]):
      b("stats-body", "port stats for port 2: %r, expected tx_packets %s" % (got, model.tx and model.tx[2]))
  elif n == "stats-queue-all":
    if r["queues"]: b("stats-body", "queue stats lists queues on a switch without queues")
  elif n == "queue-get-config":
    if r["port"] != 1: b("reply-data", "queue-get-config reply is for port %d" % r["port"])
  return bad


def _stack ():
  from mc.env import SwitchStack, VClock
  # table capacity 2, three distinct flows in the alphabet: re-adding an installed flow happens at capacity, a third
  # flow is refused with ALL_TABLES_FULL; 4 packet buffers
  return SwitchStack(dpid=1, ports=4, max_buffers=4, clock=VClock(), max_entries=CAPACITY)


def _one (names, reqs, rep):
  bad, stream = check_history(names, reqs, rep, _stack)
  rep.evaluations += 1
  refused = check_history.refused
  if not bad and len(names) > 1:
    # differential: the same bytes in one read must give the same reply stream
    bad2, stream2 = check_history(names, reqs, rep, _stack, batch=True, raws=check_history.last_raws)
    rep.evaluations += 1
    if bad2: bad = bad2
    elif stream2 != stream:
      bad = [("%s:%s:segmentation-changes-replies" % (PID, names[-1]), "replies differ when the requests arrive in one read")]
    elif refused or any(reqs[n][1][0] in ("error", "answer") for n in names):
      # histories with a refused request also with every message split over two reads
      bad3, stream3 = check_history(names, reqs, rep, _stack, batch="split", raws=check_history.last_raws)
      rep.evaluations += 1
      if bad3: bad = bad3
      elif stream3 != stream:
        bad = [("%s:%s:segmentation-changes-replies:split" % (PID, names[-1]), "replies differ when every request arrives split over two reads")]
  rep.outcome((names, stream, tuple(k for k, _ in bad)))
  for k, what in bad:
    rep.violation(k, what, dict(history=list(names)))
  if rep.evaluations % 4000 == 1:
    rep.sample(dict(history=list(names), reply_bytes=len(stream or b"")))
  rep.state_count += 1


def _worker (histories):
  from mc.env import boot
  boot()
  R = requests()
  reqs = dict((n, (f, e)) for n, f, e in R)
  rep = Report(PID, "model_checking")
  rep.state_count = 0
  for names in histories:
    if names and names[0] == "*":
      # a prefix standing for all its one-request extensions (keeps the work list of the thorough tier small)
      for n, f, e in R: _one(tuple(names[1:]) + (n,), reqs, rep)
    else:
      _one(names, reqs, rep)
  return rep


def long_history (names):
  """One deterministic sequence in which every ordered pair of requests occurs adjacent."""
  seq = []
  for a in names:
    for b in names:
      seq += [a, b]
  return [tuple(seq[i:i+40]) for i in range(0, len(seq), 40)]


# Requests whose handling neither reads nor writes switch state (fixed answer, no effect).  They take part in every
# position of the full products; in the one deeper layer of the thorough tier they are only used as the LAST request
# (a history with such a request in the middle is covered, one shorter, by the full product).
INERT = ("echo-empty", "echo-body", "echo-big", "hello", "echo-reply", "vendor", "unknown-type", "barrier-with-body",
         "get-config-with-body", "stats-desc", "stats-vendor", "stats-unknown", "queue-get-config",
         "queue-get-config-absent", "stats-queue-all", "stats-queue-one", "stats-queue-allports-one")

# Flow-mod variants that are enumerated in all pairs with every request, in the flow family and in the buffer family,
# but not in the full product of the deepest layer (there the plain forms of the same commands stand for them).
EXTENDED = ("flow-modify-strict", "flow-delete-in1", "flow-add-third", "flow-add-check-overlap", "flow-add-bad-buffer",
            "flow-modify-bad-buffer", "flow-modify-strict-bad-buffer", "flow-delete-bad-buffer",
            "flow-delete-strict-bad-buffer", "flow-add-last-buffer", "flow-modify-last-buffer",
            "flow-modify-strict-last-buffer", "flow-emerg-bad-buffer", "flow-bad-command-bad-buffer")

# Flow family: every flow-mod of the alphabet, everything that hands out / names / releases a packet buffer, and the
# read-backs of table, buffers and port counters.
FLOW_FAMILY_EXTRA = ("packet-out-table-1", "packet-out-table-3", "packet-out-controller", "packet-out-last-buffer",
                     "stats-flow", "stats-flow-in2", "stats-flow-out2", "stats-aggregate", "stats-table", "stats-port-all",
                     "barrier")

# Buffer family (one request deeper than the flow family): buffers x flow-mods whose answer depends on the table.
BUFFER_FAMILY = ("packet-out-table-1", "packet-out-table-3", "packet-out-controller", "packet-out-last-buffer",
                 "flow-add", "flow-add-other", "flow-add-third", "flow-delete-all",
                 "flow-add-last-buffer", "flow-modify-last-buffer", "flow-modify-strict-last-buffer",
                 "flow-modify-bad-buffer", "stats-port-all", "stats-flow")


def flow_family (R):
  return tuple(n for n, f, e in R if e[0] == "flow") + FLOW_FAMILY_EXTRA


def histories (cfg, R):
  names = [n for n, f, e in R]
  depth = 3                                   # deepest full product (quick and thorough)
  main = [n for n in names if n not in EXTENDED]
  ff = flow_family(R)
  seen = set()
  hs = []
  def add (it):
    for h in it:
      if h not in seen:
        seen.add(h); hs.append(h)
  for d in range(1, depth):
    add(itertools.product(names, repeat=d))
  add(itertools.product(main, repeat=depth))
  n_full = len(hs)
  ff_depth = cfg.pick(3, 4)
  for d in range(depth, ff_depth + 1):
    add(itertools.product(ff, repeat=d))
  n_ff = len(hs) - n_full
  bf_depth = cfg.pick(4, 5)
  for d in range(ff_depth + 1, bf_depth + 1):
    add(itertools.product(BUFFER_FAMILY, repeat=d))
  n_bf = len(hs) - n_full - n_ff
  active = [n for n in names if n not in INERT]
  deeper = []
  if not cfg.quick:
    # one request deeper than the full product: the first `depth` requests among the state-affecting ones
    deeper = [("*",) + p for p in itertools.product(active, repeat=depth)]
  longs = long_history(names)
  return hs + deeper + longs, dict(depth=depth, main=len(main), full=n_full, active=len(active), deeper=len(deeper) * len(names),
                                   ff=len(ff), ff_depth=ff_depth, n_ff=n_ff, bf_depth=bf_depth, n_bf=n_bf, longs=len(longs))


def run (cfg):
  rep = Report(PID, "model_checking")
  R = requests()
  names = [n for n, f, e in R]
  assert set(INERT) | set(EXTENDED) | set(BUFFER_FAMILY) | set(FLOW_FAMILY_EXTRA) <= set(names)
  hs, info = histories(cfg, R)
  rep.rule = ("all sequences of <=%d requests over %d controller-to-switch messages (distinct xids) and all sequences of %d over the %d of them "
              "that are not flow-mod variants of an included plain form%s; "
              "all sequences of <=%d requests over the %d-request flow family (every flow-mod of the alphabet: 5 commands + an unknown one x matches "
              "in1/in2/in3/all x {no flag, EMERG, CHECK_OVERLAP} x buffer_id {none, never issued, most recent packet-in (valid / already used)} on a "
              "table of capacity %d; the requests that hand out, name or release a packet buffer; flow/aggregate/table/port statistics, barrier); "
              "all sequences of <=%d requests over the %d-request buffer family; the expected answer of every flow-mod is computed from the history; "
              "each history is sent as spec-encoded bytes message-by-message, again as one read and (histories with a refused request) with every "
              "message split over two reads; plus %d histories of 40 covering every ordered pair; "
              "distinct = distinct (history, reply byte stream, verdict)"
              % (info["depth"] - 1, len(names), info["depth"], info["main"],
                 "" if cfg.quick else ", and all sequences of %d requests whose first %d are among the %d state-affecting ones"
                 % (info["depth"] + 1, info["depth"], info["active"]),
                 info["ff_depth"], info["ff"], CAPACITY, info["bf_depth"], len(BUFFER_FAMILY), info["longs"]))
  rep.bound = dict(depth=info["depth"], alphabet=len(names), deepest_product_alphabet=info["main"], product_histories=info["full"],
                   deeper_layer_histories=info["deeper"], flow_family_depth=info["ff_depth"], flow_family_alphabet=info["ff"],
                   flow_family_histories=info["n_ff"], buffer_family_depth=info["bf_depth"], buffer_family_alphabet=len(BUFFER_FAMILY),
                   buffer_family_histories=info["n_bf"], table_capacity=CAPACITY, buffers=4)
  rep.assumptions = ["error codes asserted only where OpenFlow 1.0 names one", "HELLO/PACKET_IN/PORT_STATUS/FLOW_REMOVED are asynchronous, not replies",
                     "a flow-mod answered with a buffer error (BUFFER_UNKNOWN/BUFFER_EMPTY) leaves the table contents undetermined until the next delete-all: "
                     "OpenFlow 1.0 does not say whether the flow-mod is still carried out",
                     "buffer_id is not meaningful for OFPFC_DELETE*: silence and a BAD_REQUEST error are both accepted",
                     "a flow-mod refused for two reasons (refused command and bad buffer_id) may be answered with either error or one of each",
                     "whether a refused flow-mod still releases a valid buffer, and whether a buffered packet handed to a flow-mod counts as a table lookup, is not judged"]
  for r in pmap(_worker, split(hs, cfg.workers * 4), cfg.workers, seed=cfg.seed):
    rep.merge(r)
  return rep


def replay (cfg, data):
  from mc.env import boot
  boot()
  reqs = dict((n, (f, e)) for n, f, e in requests())
  rep = Report(PID, "model_checking")
  bad, stream = check_history(tuple(data["history"]), reqs, rep, _stack)
  if not bad:
    bad, s2 = check_history(tuple(data["history"]), reqs, rep, _stack, batch=True, raws=check_history.last_raws)
    if not bad and s2 != stream: bad = [("segmentation", "replies differ in one read")]
    if not bad:
      bad, s3 = check_history(tuple(data["history"]), reqs, rep, _stack, batch="split", raws=check_history.last_raws)
      if not bad and s3 != stream: bad = [("segmentation", "replies differ when every request is split over two reads")]
  return bool(bad), "history: %r\n%s" % (data["history"], "\n".join("%s: %s" % b for b in bad))
