"""C15 - parsing untrusted frames never fails (pox.lib.packet, PacketIn.parsed).

E-enum over mutants of the corpus of valid frames in mc/refs/pktcorpus.py (one or more per parser path,
assembled from RFC byte layouts without POX; it includes DHCP messages with RFC 3396 long options - one option
code in several TLVs adding up to more than 255 bytes - and IGMPv3 reports with two and three group records),
plus the frames of frames() below that are valid in a dialect POX itself speaks.  Enumerated families, per frame f:

  valid   f itself
  trunc   every truncation f[:L], 0 <= L < len(f)
  byte    every byte position p x every replacement value of a small boundary set
          {0x00, 0xff, b^0x01, b^0x80, b+1, b-1, b+2, b-2} (quick and thorough; the +-1, +-2 neighbours
          are what length / count / type fields are most sensitive to), plus ALL 255 alternative values for the
          first 64 bytes (thorough)
  pair    (thorough, frames of <= 400 bytes) every truncation length L x every corrupted byte position p < L x
          {0x00, 0xff, b^0x01}
          - a superset of "truncation x one corrupted length/type byte" that needs no table of which bytes
          are length/type fields
  fix-*   the same four families for the eth/ipv6/icmpv6 frames, from the IPv6 addresses on, with the IPv6
          payload length and the ICMPv6 checksum repaired afterwards (icmpv6.parse drops a body whose
          checksum is wrong, so plain corruption never reaches the ND / error-message parsers)

Besides the mutants of the corpus, the structure-aware frames of mc/refs/pktgrammar.py are examined, each as it is
(no further mutation): what byte corruption of a valid frame cannot produce is a frame whose structure differs
CONSISTENTLY from the corpus, or one much longer / deeper than the corpus frames.
  tlv.*   every element type of a stated set x every declared length of a stated set, body sized to fit, all
          enclosing lengths and checksums valid, alone / before / after a well-formed sibling - for every TLV
          container POX parses (ND options, TCP options incl. options overrunning the header and MPTCP subtypes,
          IPv4 options, DHCP options, LLDP TLVs and their sub-typed bodies, IPv6 extension headers, IGMPv3 records,
          ARP address lengths, EAPOL/EAP, RIP entries, DNS sections / RRs / name forms)
  sel.*   every value of each dispatch field (ethertype / 802.3 length, IP protocol, next header, UDP ports, ICMP /
          ICMPv6 / IGMP type, GRE flag word, VXLAN flags, LLC control, MPLS / VLAN fields) over well-formed payloads
  deep.*  every self-nesting header and every element list repeated N times, N on a ladder up to the largest frame
          an ofp_packet_in can carry (65517 bytes), plus payload sizes on the same ladder
  val.*   (mc/refs/pktgrammar_val.py) every field whose value is an identifier, a family-tagged address or text (LLDP
          ids / names / management address / organisationally specific, DHCP text and id options and sname / file, DNS
          labels and RDATA, EAP type data) x a content alphabet: address family x address size, bare addresses, texts
          (numeric-looking, printf directives, NUL, control characters, malformed UTF-8, ...) - what a printer or decoder
          keyed on several bytes at once (sub-type + family + size) is sensitive to
  sel.iplen  IPv4 total length / IPv6 payload length / UDP length below, at and above the bytes present x every kind of
          upper layer (dispatched-on and unknown), and trailing padding behind EAPOL / ARP

Logging is a configuration dimension: a controller runs with the root logger at INFO (pox.boot), DEBUG (--verbose) or
with the packet logger turned down, and whether a parser's log call is carried out and its message formatted depends
on it.  Every case runs with the root logger at DEBUG and a handler that really formats every record (LOG_MODES[0]);
the families valid and trunc (thorough: also byte, fix-trunc, fix-byte and every grammar group but deep.*) run in the
other three configurations as well (logging disabled, root at WARNING, root at INFO).  A violation's replay names the
configuration.
The group descriptions (type sets, length sets, ladders, quick-tier caps) are in rep.rule.  Frames of more than 1024
bytes get a step budget that grows with the frame (jump_budget), a chain limit that grows with the frame
(chain_limit), and str() / len() on a subset of the headers of a long chain (header_subset).  Every case runs with
HEADROOM interpreter stack frames below the harness, whatever the depth of the harness itself.

Every mutant is
  1. parsed with ethernet(raw=m)                                              phase "parse"
  2. walked along .next to the end (link counter)                              phase "walk"
  3. printed: str() of every header of the chain, then dump() of the top       phases "str", "dump"
  4. re-serialised with pack() (and dump() once more on the packed object),    phases "pack" ("dump"),
     then len() of every header of the chain (packs from that header down)     "len"
  5. wrapped in an ofp_packet_in (built, packed and unpacked with libopenflow_01; phase "packetin"), handed to
     a pox.openflow.PacketIn event whose .parsed is read the way a handler does; that result is walked,
     printed (str, dump) and packed in the same way, under the same phase names (one defect, one key)
Every phase runs under a step budget: backward jumps (loop iterations) executed inside the POX tree, counted
with sys.monitoring (JumpBudget below; C15_GUARD=line switches to mc.engine.LineBudget on pox/lib/packet/*.py,
6x slower, same verdicts).  A raising site is reported under the first phase of the case that reaches it
(dump() calls str() of every header, some str() call pack()).

Oracle clauses (violation key = C15:<clause>:...):
  raises:<phase>:<file>:<function>:<exception>   a phase raised; site = innermost frame inside the POX tree
  raises:walk:<class>.next:<exception>           reading .next of a header raised
  raises:<phase>:recursion:<files>:RecursionError  a phase ran out of interpreter stack; <files> = the source files
                                                 of the functions that form the recursion (where the stack happened
                                                 to run out is accidental)
  nonterminating:<phase>:<file>:<function>       a phase exceeded the step budget; site = the loop that was spinning
  nonterminating:<phase>:<file>:<function>:reentrant:<files>
                                                 ... while functions of <files> were on the stack more than once in
                                                 most samples of the attribution window: the work is multiplied at
                                                 every nesting level (exponential), not a loop that never ends
  chain:<class>.next:<type>                      a link of the chain is neither a packet_base, bytes nor None
  chain:too-long                                 more than chain_limit(len) links
  chain:cycle:<class>                            following .next leads back to a header already visited
  unparsed-raw:<class>:<what>                    a header with parsed == False did not keep its raw input
                                                 (raw is not bytes / is not a slice of the offered frame)
  unparsed-pack:<class>                          pack() of an unparsed, payload-less header != its raw input
  type:<phase>:<class>:<type>                    pack() did not return bytes / str(), dump() did not return str
  packetin:<what>                                the PacketIn route disagrees with the direct parse (data
                                                 changed by the ofp_packet_in round trip, different chain,
                                                 .parsed not cached)
The statement is silent about WHAT a corrupted frame parses to, so the oracle is too (no reference parser).
"""
import os, struct, sys
from mc.engine import pmap, LineBudget
from mc.report import Report, digest
from mc.refs.pktcorpus import corpus, CORPUS_PATHS
from mc.refs import pktcorpus as K
from mc.refs import rfc1071 as R
from mc.refs import pktgrammar as G
from mc.refs import pktgrammar_val                  # registers the val.* / sel.iplen groups into G.GROUPS

PID = "C15"
MAX_CHAIN = 32             # links; the deepest valid corpus chain has 7 (frames of > 96 bytes: one link per 3 bytes, see chain_limit)
JUMP_BUDGET = 20000        # backward jumps (loop iterations) inside the POX tree per phase (frames of <= 1024 bytes; see jump_budget)
HEADROOM = 1000            # interpreter stack frames POX may use below the harness (the default recursion limit of a controller process)
LONG_CHAIN = 48            # chains with more headers get str() / len() of a subset of their headers only (see header_subset)
PRIME_LEN = 1024           # longer frames are parsed twice (see Case._run)
HEX_MAX = 4096             # grammar frames longer than this are replayed by regenerating them (group, label) instead of from hex
LINE_BUDGET = 200000       # C15_GUARD=line: `line` events in pox/lib/packet per phase
FIRST = 64                 # thorough: all 255 alternatives for the first FIRST bytes
PAIR_MAX_LEN = 400         # thorough, truncation x corrupted byte: frames up to this length
PAIR_VALUES = 3            # thorough, truncation x corrupted byte: the first 3 of the boundary values (0x00, 0xff, b^0x01)
SLICES_Q, SLICES_T = 2, 24 # work items per (family, frame)

PKT_FILES = ("arp.py dhcp.py dns.py eap.py eapol.py ethernet.py gre.py icmp.py icmpv6.py igmp.py ipv4.py ipv6.py "
             "llc.py lldp.py mpls.py packet_base.py packet_utils.py rip.py tcp.py udp.py vlan.py vxlan.py").split()


# ---------------------------------------------------------------------------------------------
# enumeration
# ---------------------------------------------------------------------------------------------

_FRAMES = None
PATHS = {}

def frames ():
  """The shared corpus of valid frames plus frames that are valid only in a dialect POX itself speaks.
  IGMPv3: pox.lib.packet.igmp.GroupRecord reads and writes the 16-bit source count of a group record in HOST byte
  order, so on a little-endian host the RFC-conformant multi-record reports of the corpus stop at the first record
  ("512 sources").  The *_hostorder variants carry the same records with the count in little-endian order, which
  is what such a POX emits and fully parses; whichever byte order the library implements, one of the two sets
  reaches the code behind the first group record."""
  global _FRAMES
  if _FRAMES is None:
    C = dict(corpus())
    PATHS.update(CORPUS_PATHS)
    for n in (2, 3):
      body = struct.pack("!HH", 0, n) + b''.join(K.igmp_v3_records(n, fmt="<BBH"))
      name = "igmp_v3_report_%drec_hostorder" % n
      assert name not in C
      C[name] = K.r_eth(K.r_ipv4(K.r_igmp(b'\x22\x00', body), 2, dst=K.ip4("224.0.0.22"), ttl=1, tos=0xc0,
                                 options=b'\x94\x04\x00\x00'), 0x0800)
      PATHS[name] = "ethernet/ipv4/igmp(v3 report, %d group records, source counts in little-endian order)" % n
    _FRAMES = C
  return _FRAMES


def small_values (b):
  """Replacement values for a byte whose valid value is b (ordered, distinct, never b itself)."""
  out = []
  for v in (0x00, 0xff, b ^ 0x01, b ^ 0x80, (b + 1) & 0xff, (b - 1) & 0xff, (b + 2) & 0xff, (b - 2) & 0xff):
    if v != b and v not in out: out.append(v)
  return out


def chain_limit (n):
  """Most links a chain parsed from n bytes may have: every header consumes at least 3 bytes (LLC is the shortest), and
  the corpus bound MAX_CHAIN for short frames.  A chain that revisits a header is reported separately (chain:cycle)."""
  return max(MAX_CHAIN, n // 3 + 2)


def jump_budget (n):
  """Loop iterations one phase may take on a frame of n bytes.  The corpus bound for frames up to 1024 bytes; beyond
  that n * (16 + n/64): POX's checksum is a Python loop over 16-bit words and a nesting of checksummed headers packs
  every level again, so honest work grows with length x depth (<= n/2 words x n/28 levels / 2 for the densest nesting,
  ICMP errors quoting ICMP errors)."""
  if n <= 1024: return JUMP_BUDGET
  return JUMP_BUDGET + n * (16 + n // 64)


def header_subset (chain):
  """Headers that get their own str() / len() call: all of them up to LONG_CHAIN, else the first 8, the last 8 and
  those at depths 8, 12, 16, 24, 32, 48, 64, 96, ... (len() packs from that header down, so all of them would be quadratic)."""
  if len(chain) <= LONG_CHAIN: return chain
  idx = set(range(8)) | set(range(len(chain) - 8, len(chain)))
  idx.update(v for v in G.ladder(len(chain) - 1, 8))
  return [chain[i] for i in sorted(idx)]


def cases (family, frame):
  """Generator of (L, p, v): the mutant is frame with byte p replaced by v (p None: no replacement),
  truncated to L bytes (and, for the fix-* families, repaired by repair_icmp6).  Every (L, p, v) of a
  family yields a distinct byte string."""
  n = len(frame)
  if family == "valid":
    yield (n, None, None)
  elif family == "trunc":
    for L in range(n):
      yield (L, None, None)
  elif family == "byte":
    for p in range(n):
      for v in small_values(frame[p]):
        yield (n, p, v)
  elif family == "byte255":
    for p in range(min(n, FIRST)):
      sv = small_values(frame[p])
      for v in range(256):
        if v != frame[p] and v not in sv:     # the small set is already in family "byte"
          yield (n, p, v)
  elif family == "pair":
    if n > PAIR_MAX_LEN: return             # quadratic; the longest frames get the linear families only
    for L in range(1, n):
      for p in range(L):
        for v in small_values(frame[p])[:PAIR_VALUES]:
          yield (L, p, v)
  # structure-aware families: ICMPv6 is the one parser that refuses a body whose checksum is wrong, so
  # a corrupted ICMPv6 body only reaches the ND / error-message parsers when length and checksum fit
  elif family == "fix-trunc":
    for L in range(ICMP6_OFF + 4, n):
      yield (L, None, None)
  elif family == "fix-byte":
    for p in range(IP6_SRC_OFF, n):
      if p in ICMP6_CSUM: continue
      for v in small_values(frame[p]):
        yield (n, p, v)
  elif family == "fix-byte255":
    for p in range(ICMP6_OFF, n):
      if p in ICMP6_CSUM: continue
      sv = small_values(frame[p])
      for v in range(256):
        if v != frame[p] and v not in sv:
          yield (n, p, v)
  elif family == "fix-pair":
    for L in range(ICMP6_OFF + 5, n):
      for p in range(ICMP6_OFF, L):
        if p in ICMP6_CSUM: continue
        for v in small_values(frame[p]):
          yield (L, p, v)
  else:
    raise ValueError(family)


IP6_LEN_OFF, IP6_SRC_OFF, ICMP6_OFF = 18, 22, 54
ICMP6_CSUM = (56, 57)

def is_icmp6 (frame):
  """eth / ipv6 (no extension header) / icmpv6"""
  return len(frame) >= ICMP6_OFF + 4 and frame[12:14] == b'\x86\xdd' and frame[20] == 58

def repair_icmp6 (m):
  """Make the IPv6 payload length and the ICMPv6 checksum of a mutant fit its bytes (RFC 4443 2.3,
  computed with refs/rfc1071, not with POX)."""
  if len(m) < ICMP6_OFF + 4: return m
  b = bytearray(m)
  n = len(b) - ICMP6_OFF
  b[IP6_LEN_OFF:IP6_LEN_OFF + 2] = struct.pack("!H", n)
  b[56:58] = b'\x00\x00'
  c = R.csum(R.pseudo6(bytes(b[22:38]), bytes(b[38:54]), 58, n) + bytes(b[ICMP6_OFF:]))
  b[56:58] = struct.pack("!H", c)
  return bytes(b)


def mutant (family, frame, L, p, v):
  if p is None:
    m = frame[:L]
  else:
    m = bytearray(frame)
    m[p] = v
    m = bytes(m[:L])
  if family.startswith("fix-"): m = repair_icmp6(m)
  return m


def families (cfg):
  return (["valid", "trunc", "byte", "fix-trunc", "fix-byte"]
          + ([] if cfg.quick else ["byte255", "pair", "fix-byte255", "fix-pair"]))


# ---------------------------------------------------------------------------------------------
# the POX side
# ---------------------------------------------------------------------------------------------

class Namespace (object): pass
_P = None

def pox_namespace ():
  global _P
  if _P is not None: return _P
  import logging
  logging.getLogger().addHandler(FormatHandler.make())
  logging.disable(logging.CRITICAL)
  import pox.lib.packet as pkt
  from pox.lib.packet.packet_base import packet_base
  import pox.openflow.libopenflow_01 as of
  from pox.openflow import PacketIn
  P = Namespace()
  P.pkt = pkt; P.ethernet = pkt.ethernet; P.packet_base = packet_base; P.of = of; P.PacketIn = PacketIn
  P.root = os.path.realpath(os.environ.get("POX_SRC", "/repo")) + os.sep
  pdir = os.path.dirname(os.path.realpath(pkt.__file__))
  P.traced = tuple(os.path.join(pdir, f) for f in PKT_FILES)
  class Conn (object):            # what PacketIn.__init__ reads from its connection
    dpid = 1
  P.conn = Conn()
  P.guard = make_guard(P)
  _P = P
  return P


# Logging configurations a controller process can run with (a configuration dimension of the enumeration: whether a
# parser's log call is really carried out, and its message really formatted, depends on it):
#   off      logging.disable(CRITICAL) - what this harness and mc.env.boot() used to impose on every case
#   warning  root logger at WARNING - a bare Python process that imports pox.lib.packet, or `log.level --packet=WARNING`
#   info     root logger at INFO - what pox.boot._setup_logging() configures, i.e. every controller started by pox.py
#   debug    root logger at DEBUG - pox.py --verbose / log.level --DEBUG
# In every configuration but `off` the root logger has a handler that formats each record the way the StreamHandler
# installed by pox.boot does (logging.BASIC_FORMAT) and discards the text.
LOG_MODES = ("debug", "off", "warning", "info")        # first = the configuration every case is run in
LOG_LEVEL = {"off": None, "warning": 30, "info": 20, "debug": 10}
LOG_REPLAY_DEFAULT = "off"                              # replay files written before the dimension existed

class FormatHandler (object):
  """Factory of the root handler (a logging.Handler subclass made on first use, so that importing this module does
  not import logging before mc.run has set things up).  emit() formats the record like logging.StreamHandler would
  and drops the text; an error while formatting is swallowed and counted, as Handler.handleError does in a
  controller (it prints to stderr there; it never reaches the code that logged, so the statement is silent on it)."""
  instance = None
  @staticmethod
  def make ():
    import logging
    if FormatHandler.instance is None:
      class _H (logging.Handler):
        format_errors = 0
        records = 0
        def emit (self, record):
          try:
            self.format(record)
            _H.records += 1
          except Exception:
            _H.format_errors += 1
      h = _H(level=logging.NOTSET)
      h.setFormatter(logging.Formatter(logging.BASIC_FORMAT))
      FormatHandler.instance = h
    return FormatHandler.instance


_LOG_MODE = [None]

def set_logging (mode):
  """Put the process into one of the LOG_MODES (cheap when it is already there)."""
  if _LOG_MODE[0] == mode: return
  import logging
  level = LOG_LEVEL[mode]
  if level is None:
    logging.disable(logging.CRITICAL)
  else:
    logging.getLogger().setLevel(level)
    logging.disable(logging.NOTSET)
  _LOG_MODE[0] = mode


_INSIDE = {}

def exc_site (P, e):
  """basename:qualified function:exception type of the innermost frame inside the POX tree."""
  tb = e.__traceback__
  last = None
  while tb is not None:
    fn = tb.tb_frame.f_code.co_filename
    inside = _INSIDE.get(fn)
    if inside is None:
      inside = _INSIDE[fn] = os.path.realpath(fn).startswith(P.root)
    if inside:
      last = tb.tb_frame.f_code
    tb = tb.tb_next
  t = type(e)
  name = t.__name__ if t.__module__ == "builtins" else "%s.%s" % (t.__module__, t.__name__)
  if isinstance(e, RecursionError):
    return "recursion:%s:%s" % (recursion_cycle(P, e), name)
  if last is None:
    return "<no-pox-frame>:%s" % name
  return "%s:%s:%s" % (os.path.basename(last.co_filename), getattr(last, "co_qualname", last.co_name), name)


def recursion_cycle (P, e):
  """Where the interpreter stack ran out is accidental (any frame of the cycle, or a helper called from it), so a
  RecursionError is keyed by the recursion itself: the source files of the POX functions that make up at least half
  as many frames of the traceback as the most frequent one (the members of the cycle), sorted."""
  count = {}
  tb = e.__traceback__
  while tb is not None:
    c = tb.tb_frame.f_code
    inside = _INSIDE.get(c.co_filename)
    if inside is None:
      inside = _INSIDE[c.co_filename] = os.path.realpath(c.co_filename).startswith(P.root)
    if inside: count[c] = count.get(c, 0) + 1
    tb = tb.tb_next
  if not count: return "<no-pox-frame>"
  top = max(count.values())
  return "+".join(sorted(set(os.path.basename(c.co_filename) for c, k in count.items() if 2 * k >= top)))


class SiteBudget (LineBudget):
  """LineBudget (sys.settrace `line` events) that remembers where the budget ran out.  About 6x slower than
  JumpBudget; used when C15_GUARD=line, as an independent cross-check of the step counter."""
  def __init__ (self, files, budget):
    LineBudget.__init__(self, files, budget)
    self.where = None

  def _local (self, frame, event, arg):
    if event == 'line':
      self.count += 1
      if self.count > self.budget:
        if not self.tripped:
          c = frame.f_code
          self.where = "%s:%s" % (os.path.basename(c.co_filename), getattr(c, "co_qualname", c.co_name))
        self.tripped = True
        raise LineBudget.BudgetExceeded()
    return self._local


_J_IN = set()              # source files inside the POX tree
_J_OUT = set()             # ... and outside
_J_COUNT = 0               # backward jumps inside the POX tree since the active budget was armed
_J_LIMIT = 1 << 62         # budget of the active JumpBudget (huge while none is armed)
_J_ACTIVE = None

def _on_jump (code, offset, dest):
  """sys.monitoring JUMP callback; the common path is a set lookup, a compare and an increment."""
  global _J_COUNT
  fn = code.co_filename
  if fn not in _J_IN:
    if fn not in _J_OUT:
      (_J_IN if os.path.realpath(fn).startswith(JumpBudget.root) else _J_OUT).add(fn)
    if fn in _J_OUT:
      return sys.monitoring.DISABLE          # this location can never count; stop reporting it
  if dest > offset:
    return sys.monitoring.DISABLE            # forward jump: likewise
  _J_COUNT += 1
  if _J_COUNT > _J_LIMIT:
    self = _J_ACTIVE
    if self is not None: self._over(code)


class JumpBudget (object):
  """Step counter: counts BACKWARD jumps (loop iterations; sys.monitoring JUMP events) executed by code of the
  POX tree and aborts the phase when the budget is exceeded.  Every non-terminating execution of pure Python code
  either takes backward jumps for ever or recurses until RecursionError, so this decides termination like the
  line budget does, at a fraction of its cost.  Once the budget is exceeded the next budget/4 jumps are attributed
  to their functions (to name the spinning loop), then the flag is latched and the exception (a BaseException)
  raised, again at every further backward jump, because POX's bare `except:` clauses may swallow it."""
  TOOL = 3
  installed = False
  root = None

  def __init__ (self, root, budget):
    self.budget = budget
    self.count = 0
    self.tripped = False
    self.where = None
    self.per = {}; self.reent = {}; self.nsamples = 0
    if not JumpBudget.installed:
      mon = sys.monitoring
      JumpBudget.root = root
      if mon.get_tool(JumpBudget.TOOL) is None:
        mon.use_tool_id(JumpBudget.TOOL, "c15-jump-budget")
      mon.register_callback(JumpBudget.TOOL, mon.events.JUMP, _on_jump)
      mon.set_events(JumpBudget.TOOL, mon.events.JUMP)
      JumpBudget.installed = True

  def _over (self, code):
    if not self.tripped:
      window = min(65536, max(64, self.budget // 4))
      if _J_COUNT <= self.budget + window:
        self.per[code] = self.per.get(code, 0) + 1
        if (_J_COUNT - self.budget) % max(1, window // 16) == 0: self._sample_stack()
        return
      self.tripped = True
      self.where = self._spinning(window)
    raise LineBudget.BudgetExceeded()

  def _sample_stack (self):
    """One sample of the attribution window: which POX functions other than packet_base's are on the stack more than
    once (a phase that re-enters a function on its way down, e.g. a checksum that packs the payload again)."""
    f = sys._getframe(3); n = {}
    while f is not None:
      c = f.f_code
      if c.co_filename in _J_IN and not c.co_filename.endswith("packet_base.py"): n[c] = n.get(c, 0) + 1
      f = f.f_back
    self.nsamples += 1
    for c, k in n.items():
      if k > 1: self.reent[c] = self.reent.get(c, 0) + 1

  def _spinning (self, window):
    """Name the loop that does not end: the OUTERMOST function on the stack that took a sizeable share of the
    backward jumps of the attribution window (the owner of a non-terminating loop is on the stack for as long as
    it spins; functions it calls may loop too, so the innermost frame would make the key depend on where the
    budget happened to run out).  Falls back to the function with most backward jumps."""
    share = window // 8
    f = sys._getframe(3); stack = []
    while f is not None:
      stack.append(f.f_code); f = f.f_back
    hot = None
    for c in reversed(stack):                # outermost first
      if self.per.get(c, 0) >= share:
        hot = c; break
    if hot is None:
      hot = max(self.per, key=lambda c: (self.per[c], c.co_filename, c.co_name))
    where = "%s:%s" % (os.path.basename(hot.co_filename), getattr(hot, "co_qualname", hot.co_name))
    # re-entrant in most samples of the window: the work is multiplied on the way down (exponential in the nesting
    # depth), which is a different defect from a loop that does not end and gets its own key
    via = sorted(set(os.path.basename(c.co_filename) for c, k in self.reent.items() if 2 * k > self.nsamples))
    if via: where += ":reentrant:" + "+".join(via)
    return where

  def __enter__ (self):
    global _J_COUNT, _J_LIMIT, _J_ACTIVE
    self.tripped = False; self.where = None; self.per = {}; self.reent = {}; self.nsamples = 0
    _J_COUNT = 0; _J_LIMIT = self.budget; _J_ACTIVE = self
    return self

  def __exit__ (self, t, v, tb):
    global _J_LIMIT, _J_ACTIVE
    self.count = _J_COUNT
    _J_LIMIT = 1 << 62; _J_ACTIVE = None
    return t is LineBudget.BudgetExceeded


GUARD = os.environ.get("C15_GUARD", "jump")

def make_guard (P, budget=None):
  if GUARD == "line":
    return SiteBudget(P.traced, budget or LINE_BUDGET)
  return JumpBudget(P.root, budget or JUMP_BUDGET)


class _Missing (object):
  def __repr__ (self): return "<missing>"
MISSING = _Missing()


class Case (object):
  """One mutant examined.  bad: list of (key suffix, what); sig: digestable outcome."""
  def __init__ (self, P, data, budget=None, mode=LOG_MODES[0]):
    self.P = P; self.data = data; self.mode = mode
    self.budget = budget or (jump_budget(len(data)) if GUARD != "line" else LINE_BUDGET * (jump_budget(len(data)) // JUMP_BUDGET))
    self.limit = chain_limit(len(data)); self.gaveup = False
    self.bad = []; self.sites = {}; self.broken = None; self.calls = 0; self.sig = []; self.text = None; self.maxlines = 0

  def fail (self, clause, what):
    self.bad.append((clause, what))

  def guarded (self, phase, fn, *args):
    """Run one phase under the step budget.  Returns (ok, value)."""
    if self.gaveup:                 # a phase of this route ran out of budget: the later ones would repeat that at full cost
      self.sig.append((phase, "skipped"))
      return False, None
    self.calls += 1
    lb = self.P.guard
    lb.budget = self.budget
    val = None; err = None
    with lb:
      try:
        val = fn(*args)
      except Exception as e:
        err = e
    if lb.count > self.maxlines: self.maxlines = lb.count
    if lb.tripped:
      if ("spin", lb.where) not in self.sites:       # like a raising site: reported under the first phase that reaches it
        self.sites[("spin", lb.where)] = phase
        self.fail("nonterminating:%s:%s" % (phase, lb.where),
                  "%s did not finish within %d %s (spinning in %s)" % (phase, lb.budget, "lines" if GUARD == "line" else "loop iterations", lb.where))
      self.sig.append((phase, "budget"))
      self.gaveup = len(self.data) > 1024     # (short frames: every phase is run, as before the long frames were added)
      return False, None
    if err is not None:
      site = exc_site(self.P, err)
      # a site is reported under the first phase that reaches it (dump() calls str() of every header, str() of
      # some headers calls pack()): one defect, one key
      if site not in self.sites:
        self.sites[site] = phase
        self.fail("raises:%s:%s" % (phase, site), "%s() raised %s: %s" % (phase, type(err).__name__, str(err)[:120]))
      self.sig.append((phase, site))
      return False, None
    return True, val

  # -- phases ---------------------------------------------------------------------------------
  def walk (self, top, tag):
    """Follow .next; returns the list of headers (packet_base objects) and the terminal (bytes/None)."""
    pb = self.P.packet_base
    chain = []; p = top; holder = None; seen = set()
    while True:
      if p is None or isinstance(p, bytes): return chain, p
      if not isinstance(p, pb):
        self.fail("chain:%s.next:%s" % (type(holder).__name__, type(p).__name__),
                  "%s: .next of a %s is a %s, neither a header nor bytes" % (tag, type(holder).__name__, type(p).__name__))
        return chain, None
      if id(p) in seen:
        self.fail("chain:cycle:%s" % type(p).__name__, "%s: following .next leads back to a %s header already visited" % (tag, type(p).__name__))
        return chain, None
      seen.add(id(p))
      chain.append(p)
      if len(chain) > self.limit:
        self.fail("chain:too-long", "%s: more than %d links along .next (frame of %d bytes)" % (tag, self.limit, len(self.data)))
        return chain, None
      holder = p
      self.calls += 1
      try:
        p = p.next
      except Exception as e:
        self.fail("raises:walk:%s.next:%s" % (type(holder).__name__, type(e).__name__),
                  "%s: reading .next of a %s header raised %s: %s" % (tag, type(holder).__name__, type(e).__name__, e))
        self.sig.append(("walk", type(holder).__name__, type(e).__name__))
        self.broken = holder
        return chain, None

  def check_unparsed (self, chain, term, tag):
    data = self.data
    for h in chain:
      if h is self.broken: continue       # already reported by walk (the header was never initialised)
      cn = type(h).__name__
      parsed = getattr(h, "parsed", MISSING)
      if parsed is True: continue
      if parsed is not False:
        self.fail("unparsed-raw:%s:parsed-is-%s" % (cn, type(parsed).__name__), "%s: %s.parsed is %r" % (tag, cn, parsed))
      raw = getattr(h, "raw", MISSING)
      if not isinstance(raw, bytes):
        self.fail("unparsed-raw:%s:raw-is-%s" % (cn, type(raw).__name__),
                  "%s: a %s header with parsed=%r has raw=%s, the unparsed bytes are lost" % (tag, cn, parsed, type(raw).__name__))
        continue
      if raw not in data:
        self.fail("unparsed-raw:%s:not-a-slice" % cn,
                  "%s: raw of an unparsed %s header is not a slice of the offered frame" % (tag, cn))
    if isinstance(term, bytes) and term not in data:
      holder = type(chain[-1]).__name__ if chain else "?"
      self.fail("unparsed-raw:%s:payload-not-a-slice" % holder,
                "%s: the bytes payload left under %s is not a slice of the offered frame" % (tag, holder))
    if chain and getattr(chain[0], "raw", MISSING) != data:
      self.fail("unparsed-raw:ethernet:top-raw-differs", "%s: ethernet.raw is not the offered frame" % tag)

  def render (self, top, chain, full=True):
    """str() of every header, dump(), pack(); with full also pack() of unparsed headers, dump() again and len()
    of every header (the PacketIn route runs the same library code on an equal object, so it gets the short form)."""
    okall = True
    some = header_subset(chain)
    for h in some:
      ok, s = self.guarded("str", str, h)
      okall &= ok
      if ok and not isinstance(s, str):
        self.fail("type:str:%s:%s" % (type(h).__name__, type(s).__name__), "str() returned a %s" % type(s).__name__)
    ok, d = self.guarded("dump", top.dump)
    okall &= ok
    if ok:
      if not isinstance(d, str):
        self.fail("type:dump:%s:%s" % (type(top).__name__, type(d).__name__), "dump() returned a %s" % type(d).__name__)
      elif self.text is None: self.text = d
    # pack() of an unparsed header without payload must hand back what it was given
    for h in (chain if full else ()):
      if (getattr(h, "parsed", MISSING) is False and getattr(h, "next", MISSING) is None
          and isinstance(getattr(h, "raw", MISSING), bytes)):
        raw = h.raw
        ok, b = self.guarded("pack", h.pack)
        okall &= ok
        if ok and b != raw:
          self.fail("unparsed-pack:%s" % type(h).__name__,
                    "pack() of an unparsed %s header returned something else than its raw input" % type(h).__name__)
    ok, b = self.guarded("pack", top.pack)
    okall &= ok
    same = None
    if ok:
      if not isinstance(b, bytes):
        self.fail("type:pack:%s:%s" % (type(top).__name__, type(b).__name__), "pack() returned a %s" % type(b).__name__)
      else:
        same = (b == self.data)
      if full:
        ok, d = self.guarded("dump", top.dump)
        okall &= ok
    # len() of every header: the packed length of that header and everything under it (packet_base.__len__
    # packs; a handler that forwards or re-encapsulates an inner header packs from there)
    for h in (some if full else ()):
      ok, n = self.guarded("len", len, h)
      okall &= ok
    return okall, same

  def run (self):
    old = sys.getrecursionlimit()
    sys.setrecursionlimit(stack_depth() + HEADROOM)
    set_logging(self.mode)
    try:
      return self._run()
    finally:
      sys.setrecursionlimit(old)

  def _run (self):
    P = self.P; data = self.data
    if len(data) > PRIME_LEN:
      # A frame long enough to exhaust the interpreter stack is parsed once for nothing: where a parser that
      # swallows RecursionError (mpls) gives up depends on whether sys.monitoring still has to report the
      # instructions executed at the deepest level for the first time (that callback needs a stack frame too),
      # i.e. on what the process has run before.  The second parse is the one examined.
      nb, ns, st = len(self.bad), len(self.sig), dict(self.sites)
      self.guarded("parse", _parse, P, data)
      del self.bad[nb:]; del self.sig[ns:]; self.sites = st; self.gaveup = False
    # ---- direct ----
    ok, top = self.guarded("parse", _parse, P, data)
    shape = None
    if ok:
      chain, term = self.walk(top, "direct")
      shape = shape_of(chain, term)
      self.sig.append(shape)
      self.check_unparsed(chain, term, "direct")
      okall, same = self.render(top, chain)
      self.sig.append((okall, same))
    # ---- through a packet-in ----
    self.gaveup = False
    if len(data) > PRIME_LEN:             # as above, for the route through PacketIn.parsed (an event caches its result)
      nb, ns, st = len(self.bad), len(self.sig), dict(self.sites)
      ok, ev = self.guarded("packetin", _packet_in, P, data)
      if ok: self.guarded("parse", _parsed, ev)
      del self.bad[nb:]; del self.sig[ns:]; self.sites = st; self.gaveup = False
    ok, ev = self.guarded("packetin", _packet_in, P, data)
    if ok:
      if ev.data != data:
        self.fail("packetin:data-changed", "the frame changed on its way through ofp_packet_in pack/unpack")
      ok, top2 = self.guarded("parse", _parsed, ev)
      if ok:
        if _parsed(ev) is not top2:
          self.fail("packetin:not-cached", "PacketIn.parsed returned a different object the second time")
        chain2, term2 = self.walk(top2, "packetin")
        shape2 = shape_of(chain2, term2)
        # (a parser that runs out of stack and keeps the rest as bytes - mpls - stops a few headers earlier on the
        # packet-in route, which starts a few frames deeper: chains of more than HEADROOM/4 links are not compared)
        if shape is not None and shape2 != shape and max(len(shape[0]), len(shape2[0])) <= HEADROOM // 4:
          self.fail("packetin:chain-differs", "PacketIn.parsed gives %r, ethernet(raw=) gives %r" % (shape2, shape))
        self.check_unparsed(chain2, term2, "packetin")
        okall2, same2 = self.render(top2, chain2, full=False)
        self.sig.append(("pi", okall2, same2))
    # one finding per key and case
    seen = set(); out = []
    for k, w in self.bad:
      if k not in seen:
        seen.add(k); out.append((k, w))
    self.bad = out
    return self


def stack_depth ():
  f = sys._getframe(1); n = 0
  while f is not None:
    n += 1; f = f.f_back
  return n


def _parse (P, data):
  return P.ethernet(raw=data)

def _packet_in (P, data):
  of = P.of
  msg = of.ofp_packet_in(data=data, in_port=3, reason=of.OFPR_NO_MATCH, total_len=len(data), xid=7)
  wire = msg.pack()
  got = of.ofp_packet_in()
  got.unpack(wire, 0)
  return P.PacketIn(P.conn, got)

def _parsed (ev):
  return ev.parsed


def shape_of (chain, term):
  return (tuple((type(h).__name__, getattr(h, "parsed", MISSING)) for h in chain),
          None if term is None else "bytes" if len(term) else "empty")


# ---------------------------------------------------------------------------------------------
# workers
# ---------------------------------------------------------------------------------------------

FAMILY_ORDER = {"valid": 0, "trunc": 1, "byte": 2, "byte255": 3, "pair": 4, "fix-trunc": 5, "fix-byte": 6, "fix-byte255": 7, "fix-pair": 8}

def describe (name, family, L, p, v, frame, mode):
  d = dict(frame=name, family=family, length=L, full_length=len(frame), logging=mode)
  if p is not None:
    d["pos"] = p; d["value"] = v; d["was"] = frame[p]
  return d


def order_key (replay):
  """Total order on counterexamples: shortest input first, then simplest family, then bytes."""
  return (replay["length"], FAMILY_ORDER.get(replay.get("family"), 9), replay.get("pos") is not None,
          replay.get("hex", ""), replay.get("frame", ""), LOG_MODES.index(replay.get("logging", LOG_REPLAY_DEFAULT)))


def describe_g (group, label, data, thorough, mode):
  """Replay descriptor of a grammar frame: by value when short, else by name (regenerated from mc/refs/pktgrammar)."""
  d = dict(frame=label, family=group, length=len(data), full_length=len(data), logging=mode)
  if len(data) <= HEX_MAX: d["hex"] = data.hex()
  else: d["regenerate"] = dict(group=group, label=label, thorough=bool(thorough))
  return d


def replay_bytes (data):
  if "hex" in data: return bytes.fromhex(data["hex"])
  r = data["regenerate"]
  for label, frame in G.cases(r["group"], r["thorough"]):
    if label == r["label"]: return frame
  raise KeyError("no frame %r in group %r" % (r["label"], r["group"]))


def _gworker (item):
  """Grammar frames (mc/refs/pktgrammar.py): each frame of the group is examined as it is."""
  _, group, i, n, thorough, mode = item
  P = pox_namespace()
  rep = Report(PID, "exploration")
  best = {}
  maxlines = 0
  for j, (label, data) in enumerate(G.cases(group, thorough)):
    if j % n != i: continue
    c = Case(P, data, mode=mode).run()
    rep.evaluations += 1
    rep.transitions += c.calls
    if c.maxlines > maxlines: maxlines = c.maxlines
    rep.outcome((label.split(":")[0], tuple(c.sig)))
    if c.bad:
      replay = describe_g(group, label, data, thorough, mode)
      ok = order_key(replay)
      for k, what in c.bad:
        key = "%s:%s" % (PID, k)
        what = "%s (logging=%s)" % (what, mode)
        cur = best.get(key)
        if cur is None:
          best[key] = [ok, what, replay, 1]
        else:
          cur[3] += 1
          if ok < cur[0]: cur[0], cur[1], cur[2] = ok, what, replay
    elif j % 997 == 0 and len(data) <= 200 and len(rep.samples) < 1:
      rep.sample(dict(case=dict(frame=label, family=group, length=len(data), hex=data.hex(), logging=mode), path=group,
                      chain=jsonable_shape(c.sig), dump=c.text))
  rep.extra["_best"] = best
  rep.extra["_maxlines"] = maxlines
  return rep


def _worker (item):
  if item[0] == "g": return _gworker(item)
  family, name, i, n, mode = item
  P = pox_namespace()
  frame = frames()[name]
  rep = Report(PID, "exploration")
  best = {}
  maxlines = 0
  for j, (L, p, v) in enumerate(cases(family, frame)):
    if j % n != i: continue
    data = mutant(family, frame, L, p, v)
    c = Case(P, data, mode=mode).run()
    rep.evaluations += 1
    rep.transitions += c.calls
    if c.maxlines > maxlines: maxlines = c.maxlines
    rep.outcome((name, tuple(c.sig)))
    if c.bad:
      replay = describe(name, family, L, p, v, frame, mode); replay["hex"] = data.hex(); replay["length"] = len(data)
      ok = order_key(replay)
      for k, what in c.bad:
        key = "%s:%s" % (PID, k)
        what = "%s (logging=%s)" % (what, mode)
        cur = best.get(key)
        if cur is None:
          best[key] = [ok, what, replay, 1]
        else:
          cur[3] += 1
          if ok < cur[0]: cur[0], cur[1], cur[2] = ok, what, replay
    elif family == "valid" or (family == "trunc" and L == len(frame) // 2) or (family == "byte" and p == 12 and j % 5 == 0):
      if len(rep.samples) < 2:
        rep.sample(dict(case=describe(name, family, L, p, v, frame, mode), path=PATHS.get(name),
                        chain=jsonable_shape(c.sig), dump=c.text))
  rep.extra["_best"] = best
  rep.extra["_maxlines"] = maxlines
  return rep


def jsonable_shape (sig):
  return repr(sig[0]) if sig else None


GROUP_SLICES = {"deep.": 16, "tlv.tcp": 12, "sel.ethertype": 8}     # work items per grammar group (default 4)

def group_items (cfg):
  """The deep.* groups first: their largest frames take longest, so they should not be the last items started."""
  names = sorted(G.GROUPS, key=lambda g: (not g.startswith("deep."), g))
  if cfg.only:
    names = [g for g in names if cfg.only in g]
  items = []
  for g in names:
    n = 4
    for pre, k in GROUP_SLICES.items():
      if g.startswith(pre): n = k
    if not cfg.quick: n *= 2
    if g == "deep.quote": n = 8             # (building its checksummed nestings costs more than examining a slice of them)
    for mode in modes_for(cfg, g):
      for i in range(n):
        items.append(("g", g, i, n, not cfg.quick, mode))
  return items


SECONDARY_Q = ("valid", "trunc")                                            # quick: families also run in the other logging configurations
SECONDARY_T = ("valid", "trunc", "byte", "fix-trunc", "fix-byte")           # thorough: ... plus every grammar group but deep.*

def modes_for (cfg, fam):
  """Logging configurations a family / grammar group is run in: LOG_MODES[0] (everything formatted) always; the
  others for the families above."""
  if cfg.quick: more = fam in SECONDARY_Q
  else: more = fam in SECONDARY_T or (fam in G.GROUPS and not fam.startswith("deep."))
  return LOG_MODES if more else LOG_MODES[:1]


def work_items (cfg):
  C = frames()
  names = sorted(C)
  if cfg.only:
    names = [x for x in names if cfg.only in x] or ([] if any(cfg.only in g for g in G.GROUPS) else names)
  items = group_items(cfg)
  for fam in families(cfg):
    for name in names:
      if fam.startswith("fix-") and not is_icmp6(C[name]): continue
      if fam in ("valid", "trunc"): n = 1
      elif fam == "byte": n = SLICES_Q if len(C[name]) > 150 else 1
      elif fam in ("byte255", "fix-byte255"): n = 4
      elif fam in ("fix-trunc", "fix-byte"): n = 1
      else: n = max(1, min(SLICES_T * 4, (len(C[name]) ** 2) // 1500))
      for mode in modes_for(cfg, fam):
        for i in range(n):
          items.append((fam, name, i, n, mode))
  return items


def run (cfg):
  P = pox_namespace()
  C = frames()
  rep = Report(PID, "exploration")
  fams = families(cfg)
  rep.rule = ("for each of the %d valid frames (%d bytes in total; mc/refs/pktcorpus.py, one or more per parser "
              "path, plus IGMPv3 reports in POX's host-byte-order dialect): the frame itself; every truncation length 0..len-1; every byte position x replacement values "
              "{0x00,0xff,b^0x01,b^0x80,b+1,b-1,b+2,b-2}%s; for the %d eth/ipv6/icmpv6 frames the same families once more from the "
              "IPv6 addresses on, with IPv6 payload length and ICMPv6 checksum repaired (the ICMPv6 parser drops bodies "
              "with a wrong checksum). Each mutant is parsed by ethernet(raw=) and via ofp_packet_in pack/unpack -> "
              "PacketIn.parsed, walked along .next, printed (str of every header, dump), re-packed and measured (len of every header), every phase "
              "under a budget of %d %s (frames of more than 1024 bytes: + n*(16+n/64)) and with %d interpreter stack frames of headroom. "
              "Logging configuration is a dimension: every case runs with the root logger at DEBUG and a formatting handler, the families "
              "%s also with logging disabled, root at WARNING and root at INFO. "
              "PLUS the structure-aware frames of mc/refs/pktgrammar.py and pktgrammar_val.py, each examined as it is in the same way (%s tier): %s. "
              "distinct = distinct (frame or grammar family, header chain with parsed flags, raising sites, "
              "pack()==input) digests; cases = distinct (family, frame, length, position, value) descriptors resp. distinct grammar labels"
              % (len(C), sum(len(f) for f in C.values()),
                 "" if cfg.quick else "; all 255 alternative values for each of the first %d bytes; for frames of <= %d "
                 "bytes every truncation length x every corrupted position below it x {0x00,0xff,b^0x01}" % (FIRST, PAIR_MAX_LEN),
                 sum(1 for f in C.values() if is_icmp6(f)),
                 LINE_BUDGET if GUARD == "line" else JUMP_BUDGET,
                 "traced lines of pox/lib/packet" if GUARD == "line" else "loop iterations (backward jumps) inside the POX tree",
                 HEADROOM, ", ".join(SECONDARY_Q if cfg.quick else SECONDARY_T + ("and every grammar group but deep.*",)), cfg.tier,
                 "; ".join("[%s] %s" % (g, G.GROUPS[g][1]) for g in sorted(G.GROUPS))))
  rep.bound = dict(frames=len(C), families=fams, first_bytes_all_values=(0 if cfg.quick else FIRST),
                   guard=GUARD, budget=(LINE_BUDGET if GUARD == "line" else JUMP_BUDGET), max_chain=MAX_CHAIN,
                   logging_modes=list(LOG_MODES), grammar_groups=sorted(G.GROUPS), max_frame=G.MAX_FRAME, stack_headroom=HEADROOM,
                   quick_level_cap_of_checksummed_nestings=(G.QUAD_CAP if cfg.quick else None))
  rep.assumptions = ["single-byte corruption (and truncation x single-byte corruption in the thorough tier) of the corpus "
                     "frames, plus the structure-aware frames of the grammar groups (stated type sets x length sets, element "
                     "placed alone / before / after one well-formed sibling; repetition counts on a ladder, not every count); "
                     "multi-byte corruption outside those families, combinations of two malformed elements (quick tier) and "
                     "frames longer than an ofp_packet_in can carry (%d bytes) are outside the bound" % G.MAX_FRAME,
                     "POX gets %d interpreter stack frames below the harness (Python's default recursion limit; a "
                     "PacketIn handler in a running controller has a little less), so a RecursionError reported here "
                     "also happens in a controller" % HEADROOM,
                     "on chains of more than %d headers str() and len() are called on a subset of the headers (first and last 8, "
                     "depths on the ladder 8,12,16,24,...); dump() and pack() of the top header still visit all of them" % LONG_CHAIN,
                     "the statement does not say what a corrupted frame parses to: only totality, preservation of "
                     "unparsed bytes and printability / re-serialisability are checked",
                     "logging: every case with the root logger at DEBUG and a handler that formats every record (pox.boot's "
                     "BASIC_FORMAT) and drops the text; the families %s also with logging disabled, root at WARNING and root at "
                     "INFO; the text of the parsers' warnings is not examined, and an error inside a handler's formatting is "
                     "swallowed as logging.Handler.handleError does" % (", ".join(SECONDARY_Q if cfg.quick else SECONDARY_T + ("every grammar group but deep.*",)),)]
  best = {}
  maxlines = 0
  samples = []
  for r in pmap(_worker, work_items(cfg), cfg.workers, seed=cfg.seed):
    b = r.extra.pop("_best"); maxlines = max(maxlines, r.extra.pop("_maxlines"))
    samples.extend(r.samples); r.samples = []
    rep.merge(r)
    for key, (ok, what, replay, cnt) in b.items():
      cur = best.get(key)
      if cur is None:
        best[key] = [tuple(ok), what, replay, cnt]
      else:
        cur[3] += cnt
        if tuple(ok) < cur[0]: cur[0], cur[1], cur[2] = tuple(ok), what, replay
  samples.sort(key=repr)                      # worker completion order must not show in the evidence
  step = max(1, len(samples) // 5)
  for x in samples[::step][:5]: rep.sample(x)
  rep.state_count = rep.evaluations
  rep.extra["max_steps_in_one_phase"] = maxlines
  for key in sorted(best):
    ok, what, replay, cnt = best[key]
    rep.violations[key] = dict(what="%s [frame %s, %d bytes]" % (what, replay["frame"], replay["length"]),
                               replay=replay, count=cnt)
  return rep


def explains (known_key, key):
  """Exact match; a listed key that ends in '*' explains every key with that prefix (e.g. all raising sites of one
  parser whose caller lacks a try/except: 'C15:raises:parse:lldp.py:*')."""
  if known_key.endswith("*"):
    return key.startswith(known_key[:-1])
  return known_key == key


def replay (cfg, data):
  P = pox_namespace()
  raw = replay_bytes(data)
  mode = data.get("logging", LOG_REPLAY_DEFAULT)
  c = Case(P, raw, mode=mode).run()
  lines = ["frame %s  family=%s  length=%s/%s  pos=%s value=%s (was %s)  logging=%s"
           % (data.get("frame"), data.get("family"), data.get("length"), data.get("full_length"),
              data.get("pos"), data.get("value"), data.get("was"), mode),
           "input  %s" % (raw.hex() if len(raw) <= HEX_MAX else "%s... (%d bytes, regenerated from mc/refs/pktgrammar.py)" % (raw[:64].hex(), len(raw))),
           "chain  %r" % (c.sig[0] if c.sig else None,),
           "dump   %r" % (c.text,)]
  for k, w in c.bad:
    lines.append("FAILS  %s:%s -- %s" % (PID, k, w))
  return bool(c.bad), "\n".join(lines)
