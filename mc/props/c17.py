"""C17 - the controller's picture of switch ports and multipart statistics is exact.

A real of_01.Connection (mc.env.ControllerStack) is taken through the handshake with spec-encoded
BYTES (hello, features reply with ports {1,2,3}, barrier reply); everything afterwards is delivered
through Connection.read() as bytes as well.

Part 1 (port view): explicit-state BFS (mc.engine.bfs, replay based) over port-status histories
{add, modify} x 4 port numbers x DESCRIPTIONS + delete x 4 port numbers + "read the whole view" (reads
may populate caches, so they are operations), delivered after the handshake, deferred during it, or in
the same read() as the barrier reply that completes it; in a further search LATER features replies
(same / fewer / more / other ports) are operations too - the view after one is exactly its port list.
Canonical state = every attribute of the real
PortCollection objects (sets, masks, any index or cache, aliasing between them) and the reference dict.
The search runs until the frontier is EMPTY (closure), so the verdict covers histories of any
length.  In every state the whole mapping API of connection.ports and connection.original_ports
is compared with a plain dict.  Read-only oracle failures do not stop the expansion (they cannot
change the state), so the closure is that of the real object even where a defect is present.

Part 2 (multipart statistics): every weak composition of n entries into 1..6 parts for the four
multipart-capable stats types, alone, coalesced into one read, sharing a read with the barrier reply
that completes the handshake, interleaved with other message
types, preceded / followed by a second request's reply, with a second request's complete reply in
the middle (aborted shape A1 B A2) and with a never-finished first reply (A1.. B).  Reference:
the entry dicts the wire bytes were encoded from (mc/refs/ofwire_stats.py).
"""
import json, os, struct
from mc.engine import bfs, pmap, split
from mc.report import Report, digest
from mc.refs import ofwire as W
from mc.refs import ofwire_stats as S

PID = "C17"
DPID = 0x42

# ======================================================================================
# Part 1: port view
# ======================================================================================
ORIG = (1, 2, 3)
NUMS = (1, 2, 3, 4)
N_DESC = 4

def _mac (n, v): return bytes([2, 0, 0, v, 0, n])

def desc_fields (n, v):
  """Description v of port n as a plain tuple (port_no, name, hw, config, state)."""
  if v == 0: return (n, b"eth%d" % n, _mac(n, 0), 0, 0)                      # as first reported
  if v == 1: return (n, b"port%db" % n, _mac(n, 0), 0, 0)                    # renamed
  if v == 2: return (n, b"eth%d" % n, _mac(n, 1), 0, 0)                      # new hardware address
  if v == 3: return (n, b"eth%d" % n, _mac(n, 0), W.OFPPC_PORT_DOWN, W.OFPPS_LINK_DOWN)   # same identity, link down
  raise ValueError(v)

def expected (f):
  """What a description sent as f must read as: the 16-byte name field is a C string (it ends at its first NUL)."""
  return (f[0], f[1].split(b"\x00", 1)[0], f[2], f[3], f[4])

def desc_wire (f):
  return W.phy_port(f[0], f[2], f[1], config=f[3], state=f[4], curr=0x82, advertised=0, supported=0xbf, peer=0)

ALL_NAMES = sorted(set(desc_fields(n, v)[1] for n in NUMS for v in range(N_DESC))) + [b"nosuch", b""]
ALL_HW = sorted(set(desc_fields(n, v)[2] for n in NUMS for v in range(N_DESC))) + [bytes([2, 0, 0, 9, 9, 9])]
ALL_NUMS = [0, 1, 2, 3, 4, 5, W.OFPP_LOCAL]


def port_ops (ndesc, mode="up", phase=3, feats=()):
  o = []
  for n in NUMS:
    for v in range(ndesc):
      o.append(("add", n, v)); o.append(("mod", n, v))
    o.append(("del", n))
  if mode == "hs":
    # the handshake's own messages are operations: notifications can arrive at EVERY point of it (before the hello,
    # before the features reply, before a repeated features reply, before the barrier reply, afterwards)
    if phase == 0: return [("hello",)] + o
    if phase == 1: return [("feat", f) for f in feats] + o
    if phase == 2: return [("feat", f) for f in feats] + [("barrier",)] + o
    return o + [("read",)]
  # reading the whole view is an operation of its own: an implementation may keep caches that reads populate, so
  # "notification, read, notification" and "notification, notification" can be different histories
  if mode in ("up", "refeat"): o.append(("read",))
  # a switch answers every features request, not only the one of the handshake: a later features reply replaces
  # the reported port list and discards the deltas collected so far
  if mode == "refeat": o.extend(("feat", f) for f in sorted(FEATURE_SETS))
  return o


# later features replies: port number -> description index
FEATURE_SETS = {"same": {1: 0, 2: 0, 3: 0}, "minus3": {1: 0, 2: 0}, "plus4": {1: 0, 2: 0, 3: 0, 4: 0},
                "other": {2: 1, 4: 0}}


def _canon (x, memo, depth=0):
  """Canonical rendering of EVERYTHING reachable from a PortCollection's attributes (whatever they are called),
  including aliasing between containers (ordinal of first visit), so that hidden state such as an index or a
  cache is part of the state key."""
  if x is None or isinstance(x, (int, str, bytes, bool, float)): return x
  if hasattr(x, "port_no") and hasattr(x, "hw_addr"): return ("port",) + _real_port(x)
  if hasattr(x, "reason") and hasattr(x, "desc") and hasattr(x.desc, "port_no"):
    return ("port-status", x.reason, ("port",) + _real_port(x.desc))
  if hasattr(x, "toRaw"): return ("addr", x.toRaw())
  if depth > 8: return ("deep", type(x).__name__)
  if isinstance(x, tuple): return ("tuple", [_canon(e, memo, depth + 1) for e in x])
  if isinstance(x, frozenset): return ("frozenset", sorted((_canon(e, memo, depth + 1) for e in x), key=repr))
  oid = id(x)
  if oid in memo: return ("ref", memo[oid])
  memo[oid] = n = len(memo)
  if isinstance(x, dict):
    return ("dict", n, sorted(((_canon(k, memo, depth + 1), _canon(v, memo, depth + 1)) for k, v in x.items()), key=repr))
  if isinstance(x, set): return ("set", n, sorted((_canon(e, memo, depth + 1) for e in x), key=repr))
  if isinstance(x, list): return ("list", n, [_canon(e, memo, depth + 1) for e in x])
  if type(x).__name__ == "PortCollection":
    return ("coll", n, [(k, _canon(v, memo, depth + 1)) for k, v in sorted(vars(x).items())])
  if getattr(x, "__self__", None) is not None and callable(x):           # bound method: its object may hold state
    return ("method", getattr(x, "__name__", "?"), _canon(x.__self__, memo, depth + 1))
  if type(x).__module__ == "pox.openflow.of_01" and hasattr(x, "__dict__") and type(x).__name__ != "Connection":
    return ("of01", type(x).__name__, n, [(k, _canon(v, memo, depth + 1)) for k, v in sorted(vars(x).items())])
  return ("obj", type(x).__name__)


def _mentions_port (c):
  if isinstance(c, (tuple, list)):
    if c and c[0] in ("port", "port-status"): return True
    return any(_mentions_port(e) for e in c)
  return False


def hidden_port_state (con):
  """Every attribute of the connection (and of the handler object behind con.handlers), whatever it is called,
  that holds port descriptions or port-status messages - other than the two collections themselves.  Part of the
  state key while the handshake is still running: a buffer that survives a later handshake step is hidden state."""
  out = []
  for name, v in sorted(vars(con).items()):
    if name in ("ports", "original_ports", "features"): continue
    c = _canon(v, {})
    if _mentions_port(c): out.append((name, c))
  return out


def _site (exc):
  """file basename : function : exception type of the innermost pox frame."""
  tb = exc.__traceback__; best = None
  while tb is not None:
    fn = tb.tb_frame.f_code.co_filename
    if "/pox/" in fn: best = (os.path.basename(fn), tb.tb_frame.f_code.co_name)
    tb = tb.tb_next
  if best is None: best = ("?", "?")
  return "%s:%s:%s" % (best[0], best[1], type(exc).__name__)


def _real_port (p):
  hw = p.hw_addr
  hw = hw if isinstance(hw, bytes) else hw.toRaw()
  name = p.name
  name = name if isinstance(name, bytes) else name.encode("latin-1")
  return (p.port_no, name, hw, p.config, p.state)


# ---- listeners with faults (halting / raising) at every event ----------------------------------
PORT_EVENTS = ("PortStatus", "ConnectionUp", "FeaturesReceived", "BarrierIn", "ConnectionHandshakeComplete")
FAULTS = ("halt", "halt-attr", "raise")

def _faulty (fault, log, tag, occ=0):
  """A listener that halts the event (by return value / by setting event.halt) or raises, on every invocation
  (occ=0) or only on its occ-th one."""
  from pox.lib.revent import EventHalt
  n = [0]
  def h (e):
    n[0] += 1
    if occ and n[0] != occ: return None
    log.append(tag + (type(e).__name__,))
    if fault == "halt": return EventHalt
    if fault == "halt-attr":
      e.halt = True; return None
    if fault == "raise": raise RuntimeError("listener fault")
    return None
  return h

def install_listeners (cs, con, spec, log):
  """spec: iterable of (level 'nexus'|'con', event class name, fault[, occurrence]).  Installed AFTER the recording
  listeners, so those still see an event that a faulty listener halts."""
  for t in spec:
    level, name, fault = t[0], t[1], t[2]
    occ = t[3] if len(t) > 3 else 0
    src = cs.nexus if level == "nexus" else con
    ev = getattr(cs.ofm, name)
    if src._eventMixin_events is not True and ev not in src._eventMixin_events: continue
    src.addListener(ev, _faulty(fault, log, (level, name, fault), occ))

def port_listener_configs (cfg):
  """name -> spec.  Combined configurations (every event at once) in both tiers, every single
  (level, event, fault) on its own in the thorough tier."""
  ev_n = PORT_EVENTS; ev_c = tuple(e for e in PORT_EVENTS if e != "ConnectionHandshakeComplete")
  out = [("nexus-halt-all", tuple(("nexus", e, "halt") for e in ev_n)),
         ("nexus-raise+con-halt-all", tuple(("nexus", e, "raise") for e in ev_n) + tuple(("con", e, "halt-attr") for e in ev_c)),
         ("con-raise-all", tuple(("con", e, "raise") for e in ev_c))]
  if not cfg.quick:
    for level, evs in (("nexus", ev_n), ("con", ev_c)):
      for e in evs:
        for f in FAULTS: out.append(("%s-%s-%s" % (level, e, f), ((level, e, f),)))
  return out


class PortWorld (object):
  """mode 'up': notifications arrive after the handshake completed.
     mode 'early': notifications arrive between the features reply and the barrier reply (POX defers
     them and applies them when the handshake completes); the view is examined after the handshake.
     mode 'same-read': the notifications follow the barrier reply that completes the handshake in the SAME
     recv() chunk (TCP cuts the stream, not the switch): one Connection.read() sees them all.
     mode 'hs': nothing has been received yet; hello, features replies (also repeated ones) and the barrier reply
     are operations of the history like the notifications.  Reference: the view is the port list of the LAST
     features reply with the notifications that FOLLOWED it applied; whatever preceded it is superseded."""
  def __init__ (self, mode, lst=()):
    from mc.env import ControllerStack
    self.mode = mode
    self.cs = ControllerStack()
    self.i = self.cs.connect()
    self.con = self.cs.cons[self.i]
    self.xid = 0x500
    self.bad = []
    self.n_msgs = 0
    self.up = False
    self.pending = []
    self.lst_log = []
    self.cs.take_tx(self.i)
    install_listeners(self.cs, self.con, lst, self.lst_log)
    if mode == "hs":
      self.phase = 0; self.ref = None; self.orig = None; self.barrier_xid = None
      return
    self.phase = 2
    self.ref = dict((n, desc_fields(n, 0)) for n in ORIG)
    self.orig = dict(self.ref)
    self.cs.feed(self.i, W.hello(1))
    self.cs.feed(self.i, S.features_reply(2, DPID, [desc_wire(self.orig[n]) for n in ORIG]))
    msgs, _ = W.split(self.cs.take_tx(self.i))
    bx = [W.parse_hdr(m)[3] for m in msgs if m[1] == W.BARRIER_REQUEST]
    if len(bx) != 1: raise RuntimeError("handshake: expected one barrier request, got %r" % (bx,))
    self.barrier_xid = bx[0]
    if mode in ("up", "refeat"): self.finish()

  def _feed (self, data, what):
    try:
      self.cs.feed(self.i, data)
    except Exception as e:
      self.bad.append(("%s:ports:read-raises:%s" % (PID, _site(e)), "Connection.read raised %r on %s" % (e, what)))

  def hs_step (self, what, arg=None):
    """One message of the handshake (mode 'hs')."""
    if what == "hello":
      self._feed(W.hello(1), "the hello"); self.phase = max(self.phase, 1)
    elif what == "feat":
      self.xid += 1
      raw = dict(arg) if isinstance(arg, dict) else dict((n, desc_fields(n, v)) for n, v in FEATURE_SETS[arg].items())
      self.orig = dict((n, expected(f)) for n, f in raw.items())
      self.ref = dict(self.orig)
      self.n_msgs += 1
      self._feed(S.features_reply(self.xid, DPID, [desc_wire(raw[n]) for n in sorted(raw)]), "a features reply")
      if not self.up:
        msgs, _ = W.split(self.cs.take_tx(self.i))
        bx = [W.parse_hdr(m)[3] for m in msgs if m[1] == W.BARRIER_REQUEST]
        if bx: self.barrier_xid = bx[-1]          # a repeated features reply is answered with a new barrier request
        self.phase = 2
    elif what == "barrier":
      if self.barrier_xid is None: raise RuntimeError("handshake: no barrier request seen")
      self._feed(S.barrier_reply(self.barrier_xid), "the barrier reply")
      self.up = True; self.phase = 3
      if self.con.connect_time is None: raise RuntimeError("handshake did not complete")
    else:
      raise ValueError(what)

  def finish (self):
    if self.up: return
    if self.mode == "hs":
      if self.phase < 1: self.hs_step("hello")
      if self.phase < 2: self.hs_step("feat", "same")
      if self.phase < 3: self.hs_step("barrier")
      return
    self._feed(S.barrier_reply(self.barrier_xid) + b"".join(self.pending), "the barrier reply (+ coalesced notifications)")
    self.pending = []
    self.up = True; self.phase = 3
    if self.con.connect_time is None:
      raise RuntimeError("handshake did not complete")

  def apply (self, op):
    if self.mode == "hs" and op[0] in ("hello", "feat", "barrier"):
      self.hs_step(op[0], op[1] if len(op) > 1 else None); return
    if op[0] == "read":
      self.finish(); self.check(); return
    if op[0] == "feat":
      self.finish()
      self.hs_step("feat", op[1])
      return
    self.xid += 1
    n = op[1]
    known = self.ref is not None              # before the first features reply there is no view to apply anything to
    if op[0] == "del":
      f = (self.ref or {}).get(n) or desc_fields(n, 0)
      m = S.port_status(self.xid, W.OFPPR_DELETE, desc_wire(f))
      if known: self.ref.pop(n, None)
    else:
      f = tuple(op[2]) if isinstance(op[2], (tuple, list)) else desc_fields(n, op[2])
      m = S.port_status(self.xid, W.OFPPR_ADD if op[0] == "add" else W.OFPPR_MODIFY, desc_wire(f))
      if known: self.ref[n] = expected(f)
    self.n_msgs += 1
    if self.mode == "same-read" and not self.up:
      self.pending.append(m); return
    self._feed(m, "a port-status message")

  def prekey (self):
    """Hidden state while the handshake has not reached the (first) features reply."""
    if self.mode != "hs" or self.phase >= 2: return None
    return (hidden_port_state(self.con), _canon(self.con.ports, {}), _canon(self.con.original_ports, {}))

  def key (self):
    """Whole mutable state: every attribute of both real collections (caches included) + the reference."""
    memo = {}
    c = self.con
    return (self.mode, _canon(c.ports, memo), _canon(c.original_ports, memo), sorted(self.ref.items()), sorted(self.orig.items()))

  def content_key (self):
    c = self.con
    return (self.mode,
            sorted(_real_port(p) for p in c.ports._ports), sorted(c.ports._masks),
            sorted(_real_port(p) for p in c.original_ports._ports), sorted(c.original_ports._masks),
            c.ports._chain is c.original_ports, c.original_ports._chain is None,
            sorted(self.ref.items()))

  # ---- oracle ---------------------------------------------------------------
  def check (self, memo=None, key=None, extra=((), (), ())):
    """Compare both collections with the reference; returns (soft violations, observation).
    memo/key: the verdict on the two collections is a function of the canonical state (every attribute of both real
    collections + the reference), which is what the state matching of the search relies on anyway; a worker
    that meets the same canonical state again (by another history) reuses its verdict instead of repeating ~250 lookups."""
    hit = memo.get(key) if memo is not None else None
    if hit is not None:
      soft, obs = list(hit[0]), list(hit[1])
    else:
      soft = []; obs = []
      for label, coll, ref in (("ports", self.con.ports, self.ref), ("original_ports", self.con.original_ports, self.orig)):
        o = check_collection(label, coll, ref, soft, extra)
        obs.append(o)
      if memo is not None: memo[key] = (tuple(soft), tuple(obs))
    ev = [(e[0], e[2].port, e[2].added, e[2].modified, e[2].deleted) for e in self.cs.events if e[0] == "PortStatus"]
    obs.append(("events", len(ev), ev[-1] if ev else None))
    return soft, obs


def _try (f):
  try: return ("ok", f())
  except Exception as e: return ("exc", e)


def check_collection (label, coll, ref, soft, extra=((), (), ())):
  """The whole mapping API of a PortCollection against a dict port_no -> description tuple.
  extra: further (numbers, names, hardware addresses) to look up besides the universe's."""
  from pox.lib.addresses import EthAddr
  def fail (clause, what): soft.append(("%s:%s:%s" % (PID, label, clause), "%s: %s (reference: %s)" % (label, what, _fmt_ref(ref))))
  want_keys = sorted(ref)
  obs = []
  # -- collection-level API: report the first failing one (they are all derived from keys())
  apis = [
    ("keys", lambda: list(coll.keys()), "k"), ("len", lambda: len(coll), "n"),
    ("iter", lambda: list(iter(coll)), "k"), ("iterkeys", lambda: list(coll.iterkeys()), "k"),
    ("values", lambda: [_real_port(p) for p in coll.values()], "v"),
    ("itervalues", lambda: [_real_port(p) for p in coll.itervalues()], "v"),
    ("items", lambda: [(k, _real_port(p)) for k, p in coll.items()], "i"),
    ("iteritems", lambda: [(k, _real_port(p)) for k, p in coll.iteritems()], "i"),
  ]
  failed = False
  for name, f, kind in apis:
    st, r = _try(f)
    if st == "exc":
      obs.append((name, "raises", type(r).__name__))
      if not failed: fail("%s:raises:%s" % (name, _site(r)), "%s raised %r" % (name, r)); failed = True
      continue
    if kind == "n":
      obs.append((name, r))
      if r != len(ref) and not failed:
        fail("len:%s" % ("too-large" if r > len(ref) else "too-small"), "len() is %r" % (r,)); failed = True
      continue
    nums = r if kind == "k" else [x[0] for x in r]
    obs.append((name, sorted(r)))
    if failed: continue
    cls = None
    if len(nums) != len(set(nums)): cls = "duplicate-port"
    elif set(nums) - set(want_keys): cls = "lists-absent-port"
    elif set(want_keys) - set(nums): cls = "misses-present-port"
    elif kind == "v" and sorted(r) != sorted(ref.values()): cls = "wrong-description"
    elif kind == "i" and sorted(r) != sorted(ref.items()): cls = "wrong-description"
    if cls:
      fail("%s:%s" % (name, cls), "%s() gives %r" % (name, sorted(r))); failed = True
  # -- lookups
  def lookups (kind, keys, conv, expected_of):
    for k in keys:
      idx = conv(k)
      e = expected_of(k)
      st, g = _try(lambda: coll[idx])
      kk = k.hex(":") if kind == "hw" else k
      if st == "ok":
        try: gp = _real_port(g)
        except Exception: gp = ("?", repr(g))
        obs.append((kind, kk, gp))
      else:
        gp = None
        obs.append((kind, kk, type(g).__name__))
      if st == "exc" and not isinstance(g, LookupError):
        fail("lookup-by-%s:raises:%s" % (kind, _site(g)), "[%r] raised %r" % (kk, g))
      elif e is None and gp is not None:
        n = gp[0]
        if n in ref and gp != ref[n]: cls = "finds-stale-description-of-live-port"
        elif n not in ref: cls = "finds-absent-port"
        else: cls = "finds-port-not-having-this-key"
        fail("lookup-by-%s:%s" % (kind, cls), "[%r] returns port %r, but no current port has this %s" % (kk, gp, kind))
      elif e is not None and gp is None:
        fail("lookup-by-%s:misses-present-port" % kind, "[%r] raised %s, expected port %r" % (kk, type(g).__name__, e))
      elif e is not None and gp != e:
        cls = "returns-stale-description" if gp[0] == e[0] else "returns-other-port"
        fail("lookup-by-%s:%s" % (kind, cls), "[%r] returns %r, expected %r" % (kk, gp, e))
      # the other three spellings of a lookup must agree with []
      found = gp is not None
      st2, c = _try(lambda: idx in coll)
      if st2 == "exc" or c is not found:
        fail("lookup-by-%s:in-disagrees-with-getitem" % kind, "(%r in ports) gives %r while [%r] %s" % (kk, c, kk, "finds a port" if found else "raises"))
      st3, h = _try(lambda: coll.has_key(idx))
      if st3 == "exc" or h is not found:
        fail("lookup-by-%s:has_key-disagrees-with-getitem" % kind, "has_key(%r) gives %r while [%r] %s" % (kk, h, kk, "finds a port" if found else "raises"))
      st4, d = _try(lambda: coll.get(idx))
      if st == "exc" and not isinstance(g, LookupError): pass     # reported above
      elif st4 == "exc":
        fail("lookup-by-%s:get-raises:%s" % (kind, _site(d)), "get(%r) raised %r" % (kk, d))
      elif (d is None) is found or (found and _real_port(d) != gp):
        fail("lookup-by-%s:get-disagrees-with-getitem" % kind, "get(%r) gives %r while [%r] %s" % (kk, d, kk, "finds a port" if found else "raises"))
  by = lambda pos: (lambda k: next((f for f in ref.values() if f[pos] == k), None))
  lookups("number", ALL_NUMS + [k for k in extra[0] if k not in ALL_NUMS], lambda k: k, lambda k: ref.get(k))
  lookups("name", ALL_NAMES + [k for k in extra[1] if k not in ALL_NAMES], lambda k: k.decode("latin-1"), by(1))
  lookups("hw", ALL_HW + [k for k in extra[2] if k not in ALL_HW], lambda k: EthAddr(k), by(2))
  # -- a copy of the view is the view
  st, r = _try(lambda: coll.copy())
  if st == "exc":
    obs.append(("copy", "raises", type(r).__name__))
    soft.append(("%s:port-collection:copy:raises:%s" % (PID, _site(r)), "%s.copy() raised %r" % (label, r)))
  elif r is None:
    obs.append(("copy", None))
    soft.append(("%s:port-collection:copy:returns-none" % PID, "%s.copy() returns None instead of a collection holding %s" % (label, _fmt_ref(ref))))
  else:
    st, it = _try(lambda: sorted((k, _real_port(v)) for k, v in r.items()))
    obs.append(("copy", st, it if st == "ok" else type(it).__name__))
    if st == "exc" or it != sorted(ref.items()):
      soft.append(("%s:port-collection:copy:wrong-content" % PID, "%s.copy() holds %r (reference: %s)" % (label, it, _fmt_ref(ref))))
  return (label, obs)


def _fmt_ref (ref):
  return "{" + ", ".join("%d: %s/%s%s" % (n, f[1].decode("ascii", "backslashreplace"), f[2].hex(":"), "/down" if f[4] else "") for n, f in sorted(ref.items())) + "}"


def make_port_expand (ent):
  mode, ndesc, feats, lst = ent["mode"], ent["ndesc"], tuple(ent.get("feats") or ()), tuple(ent.get("lst") or ())
  label = ent["label"]
  extra = dict(part="ports", mode=mode)
  if lst: extra["lst"] = [list(t) for t in lst]
  memo = {}
  def expand (h):
    w = PortWorld(mode, lst)
    for op in h: w.apply(op)
    phase = w.phase
    pre = w.prekey()              # hidden state of a handshake that has not seen its features reply yet
    w.finish()
    wk = w.key()
    key = (label, phase, pre, wk)   # the state the history leads to, BEFORE this expansion's own reads
    k0 = w.content_key()
    soft, obs = w.check(memo, digest(wk))
    k1 = w.content_key()
    bad = list(w.bad)
    if k1 != k0:
      bad.append(("%s:ports:query-changes-collection" % PID, "reading the collections changed their content: %r -> %r" % (k0, k1)))
    out = dict(obs=digest(obs), soft=soft, history=list(h), mode=label, extra=extra)
    return dict(key=key, ops=port_ops(ndesc, mode, phase, feats), bad=bad, out=out, replay_extra=extra)
  return expand


class _Collector (Report):
  """Report handed to mc.engine.bfs: oracle failures that do not change the state travel inside the
  `out` summary, are recorded here, and the state is still expanded (bfs itself stops at `bad`)."""
  def outcome (self, obj):
    op, out = obj
    if isinstance(out, dict) and "soft" in out:
      for k, what in out["soft"]:
        self.violation(k, "after port-status history %r [%s]: %s" % (out["history"], out["mode"], what),
                       dict(history=out["history"], **out["extra"]))
      out = out["obs"]
    Report.outcome(self, (op, out))


HS_FEATS = ("same", "other", "minus3", "plus4")

def port_plan (cfg):
  """Searches: label, delivery mode, number of descriptions per port number [, feature sets, faulty listeners]"""
  plan = [dict(label="up", mode="up", ndesc=cfg.pick(3, N_DESC)), dict(label="early", mode="early", ndesc=cfg.pick(2, N_DESC)),
          dict(label="same-read", mode="same-read", ndesc=cfg.pick(2, N_DESC)), dict(label="refeat", mode="refeat", ndesc=cfg.pick(1, 2)),
          dict(label="hs", mode="hs", ndesc=cfg.pick(1, 2), feats=HS_FEATS[:cfg.pick(2, 4)])]
  for name, spec in port_listener_configs(cfg):
    plan.append(dict(label="hs+" + name, mode="hs", ndesc=1, feats=HS_FEATS[:1], lst=spec))
  return plan


def run_ports (cfg, rep):
  depth = 12
  closure = {}
  for ent in port_plan(cfg):
    label, mode, ndesc = ent["label"], ent["mode"], ent["ndesc"]
    col = _Collector(PID, rep.level)
    exp = make_port_expand(ent)
    r0 = exp(())
    for k, what in r0["out"]["soft"]:
      col.violation(k, "right after the handshake [%s]: %s" % (label, what), dict(history=[], **r0["replay_extra"]))
    for k, what in r0["bad"]:
      col.violation(k, what, dict(history=[], **r0["replay_extra"]))
    # a correct collection has at most (descriptions + deleted + untouched)^4 states; a defect that keeps
    # several versions of a port explodes the space - stop at 4x that bound and report the cap
    mult = len(FEATURE_SETS) if mode == "refeat" else 3 * len(ent["feats"]) if mode == "hs" else 1
    n = bfs(exp, depth, col, workers=cfg.workers, seed=cfg.seed, max_states=4 * (ndesc + 2) ** len(NUMS) * mult)
    closed = col.extra.pop("frontier_at_bound", None) == 0 and not col.caps
    d = col.extra.pop("bfs_depth_completed", None)
    closure[label] = dict(states=n, closed=closed, levels=d, descriptions=ndesc)
    if not closed and not col.caps:
      col.caps.append("port view [%s]: reachable set not closed at depth %d" % (label, depth))
    col.sample(dict(part="ports", mode=label, reachable_states=n, closed=closed, bfs_levels=d))
    rep.merge(col)
  rep.extra["port_view_closure"] = closure
  return closure


def replay_ports (data):
  mode = data.get("mode", "up")
  lst = tuple(tuple(t) for t in data.get("lst", ()))
  w = PortWorld(mode, lst)
  lines = ["mode=%s%s" % (mode, " features reply reports %s" % _fmt_ref(w.orig) if w.orig is not None else " (nothing received yet)")]
  if lst: lines.append("faulty listeners: %r" % (lst,))
  for op in data["history"]:
    op = tuple(op); w.apply(op)
    rf = _fmt_ref(w.ref) if w.ref is not None else "none yet (no features reply so far)"
    lines.append(("read the whole view%.0s%.0s" if op[0] == "read" else "%r%.0s" if op[0] in ("hello", "barrier")
                  else "features reply %r -> reference %s" if op[0] == "feat"
                  else "port-status %r -> reference %s") % (op, rf))
  w.finish()
  k0 = w.content_key()
  soft, obs = w.check()
  if w.content_key() != k0:
    w.bad.append(("%s:ports:query-changes-collection" % PID, "reading the collections changed them"))
  c = w.con
  lines.append("real ports._ports=%r _masks=%r" % (sorted(_real_port(p) for p in c.ports._ports), sorted(c.ports._masks)))
  for k, what in list(w.bad) + soft: lines.append("  %s: %s" % (k, what))
  return bool(w.bad or soft), "\n".join(lines)


# ======================================================================================
# Part 1b: boundary values of the description fields (inputs)
# ======================================================================================
# the 16-byte name field as sent (struct pads it with NULs)
NAME_FIELDS = (b"", b"a", b"fifteen-chars-xx", b"sixteen-chars-xxx"[:16], b"eth9\x00junk", b"\x00junk", b"eth9" + b"\x00" * 11 + b"x",
               b"\xe9th\xff", b"br 0:1", b"2")
HW_FIELDS = (bytes(6), b"\xff" * 6, bytes([1, 0, 0, 0, 0, 1]), bytes([0xfe, 0xff, 0xff, 0xff, 0xff, 0xff]))
NO_FIELDS = (0, 255, 256, 0x7fff, 0x8000, W.OFPP_MAX, W.OFPP_LOCAL, 0xffff)
FIELD_CARRIERS = ("feat0", "refeat", "add", "mod")
FIELD_FOLLOWS = ("none", "replace", "delete")

def field_cases (cfg):
  sp = [("name", (4, nm[:16], _mac(4, 0), 0, 0)) for nm in NAME_FIELDS]
  sp += [("hw", (4, b"eth4", hw, 0, 0)) for hw in HW_FIELDS]
  sp += [("number", (no, b"ethx", _mac(9, 0), 0, 0)) for no in NO_FIELDS]
  return [("field", kind, f, c, fo) for kind, f in sp for c in FIELD_CARRIERS for fo in FIELD_FOLLOWS]


def run_field_case (case):
  """The special description arrives in the handshake's features reply / a later features reply / an add / a modify
  (of port 2 for name and hardware address values), optionally followed by an ordinary description for the same
  port number or by its deletion; then the whole view is compared, looking up the special values as well."""
  _, kind, f, carrier, follow = case
  f = tuple(f)
  if carrier == "mod" and kind != "number": f = (2,) + f[1:]
  n = f[0]
  base = dict((k, desc_fields(k, 0)) for k in ORIG)
  listed = dict(base); listed[n] = f
  if carrier == "feat0":
    w = PortWorld("hs"); w.hs_step("hello"); w.hs_step("feat", listed)
    if not w.bad: w.hs_step("barrier")
  else:
    w = PortWorld("up")
    if carrier == "refeat": w.apply(("feat", listed))
    else: w.apply((carrier, n, f))
  if not w.bad:
    if follow == "replace": w.apply(("mod", n, (n, b"plain", _mac(8, 0), 0, 0)))
    elif follow == "delete": w.apply(("del", n))
  raw_name = f[1]
  names = [expected(f)[1], raw_name.replace(b"\x00", b" ")] + [x for x in raw_name.split(b"\x00") if x]
  extra = ([n], sorted(set(names)), [f[2]])
  soft = []; obs = None
  if not w.bad:           # a message that made read() raise is reported as that; the connection is gone then
    soft, obs = w.check(extra=extra)
  return list(w.bad) + soft, digest(obs), w.n_msgs


def _fields_worker (items):
  from mc.env import boot
  boot()
  rep = Report(PID, "model_checking")
  for idx, case in items:
    bad, obs, n = run_field_case(case)
    rep.evaluations += 1; rep.transitions += n
    rep.outcome((case[1], case[3], case[4], obs))
    for k, what in bad:
      rep.violation(k, "%s: %s" % (describe_field(case), what), dict(part="fields", case=jsonable_case(case), idx=idx))
      v = rep.violations[k]
      if v["replay"].get("part") == "fields" and idx < v["replay"]["idx"]:
        v["what"] = "%s: %s" % (describe_field(case), what); v["replay"] = dict(part="fields", case=jsonable_case(case), idx=idx)
  return rep

def jsonable_case (case):
  _, kind, f, carrier, follow = case
  return ["field", kind, [f[0], f[1].hex(), f[2].hex(), f[3], f[4]], carrier, follow]

def case_from_json (c):
  f = c[2]
  return ("field", c[1], (f[0], bytes.fromhex(f[1]), bytes.fromhex(f[2]), f[3], f[4]), c[3], c[4])

def describe_field (case):
  _, kind, f, carrier, follow = case
  how = {"feat0": "listed in the handshake's features reply", "refeat": "listed in a later features reply",
         "add": "added by a port-status", "mod": "set by a port-status modify"}[carrier]
  then = {"none": "", "replace": ", then given an ordinary description", "delete": ", then deleted"}[follow]
  return "port %d with name field %r and hardware address %s %s%s" % (f[0], f[1], f[2].hex(":"), how, then)


def run_fields (cfg, rep):
  items = list(enumerate(field_cases(cfg)))
  best = {}
  for r in pmap(_fields_worker, split(items, max(1, cfg.workers) * 2), cfg.workers, seed=cfg.seed):
    for k, v in r.violations.items():       # first failing case in enumeration order, independent of worker order
      if v["replay"].get("part") == "fields" and (k not in best or v["replay"]["idx"] < best[k][0]):
        best[k] = (v["replay"]["idx"], v["what"], v["replay"])
    rep.merge(r)
  for k, (idx, what, rp) in best.items():
    if rep.violations[k]["replay"].get("part") == "fields":
      rep.violations[k]["what"] = what; rep.violations[k]["replay"] = rp
  rep.extra["field_cases"] = len(items)
  rep.sample(dict(part="fields", case=describe_field(items[4 * len(FIELD_CARRIERS) * len(FIELD_FOLLOWS)][1])))
  return len(items)


def replay_fields (data):
  case = case_from_json(data["case"])
  bad, obs, n = run_field_case(case)
  lines = [describe_field(case)] + ["  %s: %s" % (k, what) for k, what in bad]
  return bool(bad), "\n".join(lines)


# ======================================================================================
# Part 2: multipart statistics
# ======================================================================================
LIST_TYPES = (W.OFPST_FLOW, W.OFPST_TABLE, W.OFPST_PORT, W.OFPST_QUEUE)
TNAME = {W.OFPST_DESC: "DESC", W.OFPST_FLOW: "FLOW", W.OFPST_AGGREGATE: "AGGREGATE", W.OFPST_TABLE: "TABLE",
         W.OFPST_PORT: "PORT", W.OFPST_QUEUE: "QUEUE"}
EVENT_OF = {W.OFPST_DESC: "SwitchDescReceived", W.OFPST_FLOW: "FlowStatsReceived",
            W.OFPST_AGGREGATE: "AggregateFlowStatsReceived", W.OFPST_TABLE: "TableStatsReceived",
            W.OFPST_PORT: "PortStatsReceived", W.OFPST_QUEUE: "QueueStatsReceived"}
STATS_EVENTS = tuple(sorted(EVENT_OF.values()))
XID_A = 0x1000; XID_B = 0x2000
MAX_PARTS = 6


def entry (typ, fp):
  """Reference entry with fingerprint fp (unique over a scenario) spread over every field."""
  if typ == W.OFPST_FLOW:
    return dict(table_id=fp & 0xff, in_port=fp, duration_sec=fp + 1, duration_nsec=fp + 2, priority=fp + 3,
                idle_timeout=fp + 4, hard_timeout=fp + 5, cookie=(0xc0 << 56) | fp, packet_count=(fp << 33) | 1,
                byte_count=(fp << 34) | 2, actions=b"".join(W.a_output(fp + i, 0x40 + i) for i in range(fp % 3)),
                out_ports=[fp + i for i in range(fp % 3)])
  if typ == W.OFPST_TABLE:
    return dict(table_id=fp & 0xff, name=b"tbl%d" % fp, wildcards=fp + 1, max_entries=fp + 2, active_count=fp + 3,
                lookup_count=(fp << 33) | 4, matched_count=(fp << 34) | 5)
  if typ == W.OFPST_PORT:
    d = dict(port_no=fp)
    for i, k in enumerate(S.PORT_COUNTERS): d[k] = (fp << 32) | (i + 1)
    return d
  if typ == W.OFPST_QUEUE:
    return dict(port_no=fp & 0xff, queue_id=fp, tx_bytes=(fp << 33) | 1, tx_packets=(fp << 34) | 2, tx_errors=fp + 3)
  raise ValueError(typ)

DESC_REF = dict(mfr_desc=b"Acme %d", hw_desc=b"hw", sw_desc=b"sw 1.0", serial_num=b"SN%d", dp_desc=b"dp")

def view (typ, o):
  """The same fields read from a POX stats object (attribute reads only)."""
  b = lambda s: s if isinstance(s, bytes) else s.encode("latin-1")
  if typ == W.OFPST_FLOW:
    return dict(table_id=o.table_id, in_port=o.match.in_port, duration_sec=o.duration_sec, duration_nsec=o.duration_nsec,
                priority=o.priority, idle_timeout=o.idle_timeout, hard_timeout=o.hard_timeout, cookie=o.cookie,
                packet_count=o.packet_count, byte_count=o.byte_count, out_ports=[a.port for a in o.actions])
  if typ == W.OFPST_TABLE:
    return dict(table_id=o.table_id, name=b(o.name), wildcards=o.wildcards, max_entries=o.max_entries,
                active_count=o.active_count, lookup_count=o.lookup_count, matched_count=o.matched_count)
  if typ == W.OFPST_PORT:
    d = dict(port_no=o.port_no)
    for k in S.PORT_COUNTERS: d[k] = getattr(o, k)
    return d
  if typ == W.OFPST_QUEUE:
    return dict(port_no=o.port_no, queue_id=o.queue_id, tx_bytes=o.tx_bytes, tx_packets=o.tx_packets, tx_errors=o.tx_errors)
  if typ == W.OFPST_DESC:
    return dict((k, b(getattr(o, k))) for k in DESC_REF)
  if typ == W.OFPST_AGGREGATE:
    return dict(packet_count=o.packet_count, byte_count=o.byte_count, flow_count=o.flow_count)
  raise ValueError(typ)

def _cmp_entry (e):
  return dict((k, v) for k, v in e.items() if k != "actions")


def weak_compositions (n, k):
  """All ways to put n entries, in order, into k parts (parts may be empty)."""
  if k == 1: yield (n,); return
  for first in range(n + 1):
    for rest in weak_compositions(n - first, k - 1): yield (first,) + rest


class Req (object):
  """One request's reply: stats type, xid, entries, cut into parts."""
  def __init__ (self, rid, typ, xid, comp, fp0):
    self.rid, self.typ, self.xid, self.comp = rid, typ, xid, tuple(comp)
    if typ in LIST_TYPES:
      self.entries = [entry(typ, fp0 + j) for j in range(sum(comp))]
    elif typ == W.OFPST_DESC:
      self.entries = [dict((k, (v % fp0) if b"%d" in v else v) for k, v in DESC_REF.items())]
    else:
      self.entries = [dict(packet_count=(fp0 << 33) | 1, byte_count=(fp0 << 34) | 2, flow_count=fp0)]

  def parts (self):
    """[(wire bytes, is_last)]"""
    if self.typ == W.OFPST_DESC: return [(S.stats_reply(self.xid, self.typ, S.desc_body(self.entries[0])), True)]
    if self.typ == W.OFPST_AGGREGATE: return [(S.stats_reply(self.xid, self.typ, S.aggregate_body(self.entries[0])), True)]
    out = []; o = 0; enc = S.ENTRY_ENCODER[self.typ]
    for i, c in enumerate(self.comp):
      body = b"".join(enc(e) for e in self.entries[o:o + c]); o += c
      last = i == len(self.comp) - 1
      out.append((S.stats_reply(self.xid, self.typ, body, more=not last), last))
    return out


OTHERS = ("echo", "port-status", "barrier")
def other_msg (kind, k):
  if kind == "echo": return W.echo_request(0x3000 + k, b"ping")
  if kind == "port-status": return S.port_status(0x3100 + k, W.OFPPR_MODIFY, desc_wire(desc_fields(1, 3)))
  if kind == "barrier": return S.barrier_reply(0x3200 + k)
  raise ValueError(kind)

# second request B, relative to A of list type T
B_VARIANTS = ("same-type", "same-type-2parts", "other-type", "other-type-same-xid", "desc", "aggregate",
              "other-type-2parts")
B_SEQ_ONLY = ("same-type-same-xid",)

def make_b (variant, typ_a):
  other = LIST_TYPES[(LIST_TYPES.index(typ_a) + 1) % len(LIST_TYPES)]
  fp = 0x80
  if variant == "same-type": return Req("B", typ_a, XID_B, (2,), fp)
  if variant == "same-type-2parts": return Req("B", typ_a, XID_B, (1, 1), fp)
  if variant == "other-type": return Req("B", other, XID_B, (2,), fp)
  if variant == "other-type-same-xid": return Req("B", other, XID_A, (2,), fp)
  if variant == "other-type-2parts": return Req("B", other, XID_B, (1, 1), fp)
  if variant == "desc": return Req("B", W.OFPST_DESC, XID_B, (1,), fp)
  if variant == "aggregate": return Req("B", W.OFPST_AGGREGATE, XID_B, (1,), fp)
  if variant == "same-type-same-xid": return Req("B", typ_a, XID_A, (2,), fp)
  raise ValueError(variant)


def base_of (sc):
  """("lst", typ, comp, listener spec, base family, base args...) -> (base family, typ, comp, base args...)"""
  return (sc[4], sc[1], sc[2]) + tuple(sc[5:]) if sc[0] == "lst" else sc

STATS_LEVELS = ("nexus", "con")
STATS_EVKINDS = ("raw", "agg")

def build (sc):
  """Scenario descriptor -> (steps, requests).  A step is (list of wire messages delivered by ONE read,
  tags) with tags = [("S", rid, is_last) | ("O", kind)], one per message."""
  sc = base_of(sc)
  fam, typ, comp = sc[0], sc[1], tuple(sc[2])
  a = Req("A", typ, XID_A, comp, 0x10)
  ap = [([m], [("S", "A", last)]) for m, last in a.parts()]
  reqs = {"A": a}
  if fam == "single":
    steps = ap
  elif fam == "hs":               # the handshake-completing barrier reply and A's first j parts arrive in ONE read
    j = sc[3]
    steps = [([None] + [m for ms, _ in ap[:j] for m in ms], [("O", "handshake-barrier")] + [t for _, ts in ap[:j] for t in ts])] + ap[j:]
  elif fam == "coalesced":
    steps = [([m for ms, _ in ap for m in ms], [t for _, ts in ap for t in ts])]
  elif fam == "inter":            # one other message at position pos (0 = before the first part)
    pos, kind = sc[3], sc[4]
    steps = ap[:pos] + [([other_msg(kind, 0)], [("O", kind)])] + ap[pos:]
  elif fam == "inter-all":        # another message in every gap, kinds rotating
    steps = []
    for i in range(len(ap) + 1):
      kind = OTHERS[(i + sc[3]) % len(OTHERS)]
      steps.append(([other_msg(kind, i)], [("O", kind)]))
      if i < len(ap): steps.append(ap[i])
  else:
    b = make_b(sc[3], typ); reqs["B"] = b
    bp = [([m], [("S", "B", last)]) for m, last in b.parts()]
    if fam == "seq":
      steps = bp + ap if sc[4] == "before" else ap + bp
    elif fam == "abort":          # A's first `gap` parts, B complete, the rest of A
      steps = ap[:sc[4]] + bp + ap[sc[4]:]
    elif fam == "trunc":          # A's first `cut` parts (all flagged MORE), A never finishes, B complete
      steps = ap[:sc[4]] + bp
    else:
      raise ValueError(fam)
  return steps, reqs


def expectations (steps, reqs):
  """Reference reassembly: for every request, where its final part is and whether its reply is
  complete and contiguous (no part of another request between its first and its final part)."""
  seq = [t for _, tags in steps for t in tags]
  exp = {}
  for rid in reqs:
    pos = [i for i, t in enumerate(seq) if t[0] == "S" and t[1] == rid]
    complete = bool(pos) and seq[pos[-1]][2] and len(pos) == len(reqs[rid].parts())
    # parts of ANOTHER request between the first and the final part do not excuse anything as long as that request
    # has its own transaction id (the quantifier of C17 includes "interleaved ... with a second request's reply");
    # only parts that carry the same xid and type are indistinguishable from the reply's own parts
    foreign = [i for i, t in enumerate(seq) if t[0] == "S" and t[1] != rid and pos and pos[0] < i < pos[-1]
               and (reqs[t[1]].xid, reqs[t[1]].typ) == (reqs[rid].xid, reqs[rid].typ)]
    exp[rid] = dict(complete=complete, contiguous=complete and not foreign)
  return exp


def run_scenario (sc):
  """Execute one scenario on a fresh connection.  Returns (violations [(key, what)], observation, n messages)."""
  from mc.env import ControllerStack
  steps, reqs = build(sc)
  exp = expectations(steps, reqs)
  cs = ControllerStack()
  i = cs.connect(); con = cs.cons[i]
  cs.take_tx(i)
  cs.feed(i, W.hello(1))
  cs.feed(i, S.features_reply(2, DPID, [desc_wire(desc_fields(n, 0)) for n in ORIG]))
  msgs, _ = W.split(cs.take_tx(i))
  bx = [W.parse_hdr(m)[3] for m in msgs if m[1] == W.BARRIER_REQUEST]
  hs = base_of(sc)[0] == "hs"     # the barrier reply that completes the handshake travels with the first step
  if not hs:
    cs.feed(i, S.barrier_reply(bx[0]))
    if con.connect_time is None: raise RuntimeError("handshake did not complete")
  # connection-level listeners (the nexus-level ones are ControllerStack's)
  conev = []
  for name in STATS_EVENTS:
    con.addListener(getattr(cs.ofm, name), (lambda nm: (lambda e: conev.append((nm, e))))(name))
  # a faulty listener (halting / raising) for the raw or the aggregated events, on the nexus or on the connection;
  # registered after the recording listeners, which therefore still see an event it halts
  llog = []
  if sc[0] == "lst":
    level, evkind, fault, occ = sc[3]
    names = ("RawStatsReply",) if evkind == "raw" else STATS_EVENTS
    install_listeners(cs, con, [(level, nm, fault, occ) for nm in names], llog)
  # note exceptions raised inside the reassembly (Connection.read swallows and logs them)
  raised = []
  real = con._incoming_stats_reply
  def spy (ofp):
    try: return real(ofp)
    except Exception as e:
      raised.append(_site(e)); raise
  con._incoming_stats_reply = spy

  bad = []; obs = []; n_msgs = 0
  fired = dict((rid, 0) for rid in reqs)
  owner_of_fp = {}
  for rid, r in reqs.items():
    for e in r.entries: owner_of_fp[digest(sorted(_cmp_entry(e).items()))] = rid
  def fail (clause, what): bad.append(("%s:stats:%s" % (PID, clause), what))

  for msgs, tags in steps:
    n0 = len(cs.events); c0 = len(conev); r0 = len(raised); l0 = len(llog)
    msgs = [S.barrier_reply(bx[0]) if m is None else m for m in msgs]
    try:
      cs.feed(i, b"".join(msgs))
    except Exception as e:
      fail("read-raises:%s" % _site(e), "Connection.read raised %r" % (e,))
      break
    if con.connect_time is None: raise RuntimeError("handshake did not complete")
    n_msgs += len(msgs)
    new = [(nm, e) for nm, idx, e in cs.events[n0:] if nm in STATS_EVENTS]
    newc = conev[c0:]
    cause = ("handler-raised:" + raised[r0]) if len(raised) > r0 else "no-exception"
    finals = [t[1] for t in tags if t[0] == "S" and t[2]]
    obs.append((tuple(t[:2] for t in tags), [nm for nm, e in new], len(newc), cause))
    # POX does not raise an event on the connection when a nexus-level listener halted it: the statement is silent there
    halted = [t[3] for t in llog[l0:] if t[0] == "nexus" and t[2] in ("halt", "halt-attr") and t[3] in STATS_EVENTS]
    want_c = [nm for nm, e in new if nm not in halted]
    if [nm for nm, e in newc] != want_c:
      fail("connection-level-events-differ", "nexus raised %r, the connection raised %r%s"
           % ([nm for nm, e in new], [nm for nm, e in newc], " (a nexus-level listener halted %r)" % halted if halted else ""))
    else:
      byname = dict((nm, e) for nm, e in new)
      for nm, e in newc:
        if _stats_digest(nm, e) != _stats_digest(nm, byname[nm]):
          fail("connection-level-event-content-differs", "%s on the connection carries other entries than on the nexus" % nm)
    if not finals:
      if new:
        anyS = any(t[0] == "S" for t in tags)
        what = "a non-final part (MORE set)" if anyS else "a %s message" % tags[0][1]
        fail("fires-before-final-part" if anyS else "fires-on-unrelated-message",
             "%s raised after %s" % ([nm for nm, e in new], what))
      continue
    rid = finals[0]; r = reqs[rid]; x = exp[rid]
    tn = TNAME[r.typ]
    if len(new) > 1:
      fail("fires-more-than-once", "%d events %r after the final part of reply %s (%s)" % (len(new), [nm for nm, e in new], rid, tn))
    if not new:
      if x["contiguous"]:
        fail("complete-reply-lost:%s" % cause, "no %s after the final part of reply %s (%s xid %#x, parts %r); %s"
             % (EVENT_OF[r.typ], rid, tn, r.xid, r.comp, cause))
      continue
    fired[rid] += len(new)
    nm, ev = new[0]
    if nm != EVENT_OF[r.typ]:
      fail("wrong-event-class", "%s raised after the final part of a %s reply" % (nm, tn)); continue
    try:
      got = [view(r.typ, o) for o in ev.stats] if r.typ in LIST_TYPES else [view(r.typ, ev.stats)]
    except Exception as e:
      fail("event-stats-unreadable:%s:%s" % (tn, type(e).__name__), "cannot read the %s entries: %r" % (tn, e)); continue
    want = [_cmp_entry(e) for e in r.entries]
    owners = [owner_of_fp.get(digest(sorted(g.items()))) for g in got]
    cls = None
    if got == want: pass
    elif any(o is not None and o != rid for o in owners): cls = "merged-with-other-request"
    elif any(o is None for o in owners): cls = "entry-fields-differ:" + tn
    elif x["contiguous"]:
      if sorted(map(repr, got)) == sorted(map(repr, want)): cls = "entries-reordered"
      elif len(got) > len(want): cls = "entries-duplicated"
      else: cls = "entries-missing"
    else:
      # aborted reply: the specification gives no reassembly rule; require only own entries in order
      it = iter(want)
      if not all(any(g == w for w in it) for g in got): cls = "entries-reordered"
    if cls:
      fail("wrong-entries:%s" % cls, "%s for reply %s (%s parts %r) carries %d entries %r, reply has %d; %s"
           % (nm, rid, tn, r.comp, len(got), [_short(r.typ, g) for g in got], len(want), cause))
    # the raw parts handed to the event
    if r.typ in LIST_TYPES and x["contiguous"]:
      px = [(p.xid, p.type) for p in ev.ofp] if isinstance(ev.ofp, list) else None
      if px != [(r.xid, r.typ)] * len(r.comp):
        fail("event-parts-differ", "%s.ofp lists parts %r, the reply had %d parts of xid %#x" % (nm, px, len(r.comp), r.xid))
  for rid, r in reqs.items():
    if not exp[rid]["complete"] and fired[rid]:
      fail("fires-for-unfinished-reply", "event raised for reply %s whose final part never arrived" % rid)
  return bad, obs, n_msgs


TYPE_OF_EVENT = dict((v, k) for k, v in EVENT_OF.items())

def _stats_digest (nm, ev):
  """Content of an aggregated event: its entries by field values, in order, and the parts it lists."""
  typ = TYPE_OF_EVENT[nm]
  try:
    body = [view(typ, o) for o in ev.stats] if typ in LIST_TYPES else [view(typ, ev.stats)]
  except Exception as e:
    body = ("unreadable", type(e).__name__)
  parts = [(p.xid, p.type) for p in ev.ofp] if isinstance(ev.ofp, list) else (ev.ofp.xid, ev.ofp.type)
  return digest((body, parts))


def _short (typ, g):
  return g.get("cookie", g.get("queue_id", g.get("port_no", g.get("table_id", g.get("flow_count", "desc"))))) if isinstance(g, dict) else g


def scenarios (cfg):
  nmax = cfg.pick(3, 4)
  out = []
  for typ in LIST_TYPES:
    for n in range(nmax + 1):
      for k in range(1, MAX_PARTS + 1):
        for comp in weak_compositions(n, k):
          out.append(("single", typ, comp))
          if k > 1: out.append(("coalesced", typ, comp))
          for j in (range(1, k + 1) if not cfg.quick else sorted(set((1, k)))):
            out.append(("hs", typ, comp, j))
          for pos in range(k + 1):
            for kind in OTHERS: out.append(("inter", typ, comp, pos, kind))
          for rot in range(len(OTHERS)): out.append(("inter-all", typ, comp, rot))
          for v in B_VARIANTS + B_SEQ_ONLY:
            out.append(("seq", typ, comp, v, "before")); out.append(("seq", typ, comp, v, "after"))
          for gap in range(1, k):
            for v in B_VARIANTS:
              out.append(("abort", typ, comp, v, gap)); out.append(("trunc", typ, comp, v, gap))
  # faulty listeners: {nexus, connection} x {raw stats event, aggregated events} x {halts, raises} - on every invocation, and
  # (raw events: one per part) on the i-th invocation only; part by part, and with a complete reply B in the middle of A
  faults = FAULTS if not cfg.quick else ("halt", "raise")
  kocc = cfg.pick(3, MAX_PARTS); kab = cfg.pick(3, 4); nab = cfg.pick(2, 3)
  for typ in LIST_TYPES:
    for n in range(nmax + 1):
      for k in range(1, MAX_PARTS + 1):
        for comp in weak_compositions(n, k):
          for level in STATS_LEVELS:
            for fault in faults:
              for evkind in STATS_EVKINDS:
                out.append(("lst", typ, comp, (level, evkind, fault, 0), "single"))
                if 1 < k <= kab and n <= nab:
                  for v in ("same-type", "other-type-2parts"):
                    for gap in range(1, k):
                      for occ in (0, 1):
                        out.append(("lst", typ, comp, (level, evkind, fault, occ), "abort", v, gap))
              if 1 < k <= kocc:
                for occ in range(1, k + 1): out.append(("lst", typ, comp, (level, "raw", fault, occ), "single"))
  # DESC and AGGREGATE replies are always a single part: alone and with another message around them
  for typ in (W.OFPST_DESC, W.OFPST_AGGREGATE):
    out.append(("single", typ, (1,))); out.append(("hs", typ, (1,), 1))
    for level in STATS_LEVELS:
      for fault in faults:
        for evkind in STATS_EVKINDS: out.append(("lst", typ, (1,), (level, evkind, fault, 0), "single"))
    for pos in range(2):
      for kind in OTHERS: out.append(("inter", typ, (1,), pos, kind))
  return out


def _stats_worker (items):
  from mc.env import boot
  boot()
  rep = Report(PID, "model_checking")
  for sc in items:
    bad, obs, n = run_scenario(sc)
    rep.evaluations += 1; rep.transitions += n
    rep.outcome((sc[0], sc[1], sc[3] if sc[0] == "lst" else None, obs))
    for k, what in bad:
      rep.violation(k, "scenario %r: %s" % (describe(sc), what), dict(part="stats", scenario=list(sc)))
      v = rep.violations[k]
      if _rank(dict(scenario=list(sc))) < _rank(v["replay"]):      # keep the simplest counterexample, not the first
        v["what"] = "scenario %r: %s" % (describe(sc), what); v["replay"] = dict(part="stats", scenario=list(sc))
  return rep


def _rank (replay):
  sc = replay["scenario"]; comp = sc[2]
  return (len(comp), 0 if all(comp) else 1, sum(comp), len(sc), json.dumps(sc))


def describe (sc):
  if sc[0] == "lst":
    level, evkind, fault, occ = sc[3]
    return describe(base_of(sc)) + "; a listener on the %s for the %s that %s %s" % (
      "nexus" if level == "nexus" else "connection", "raw stats event" if evkind == "raw" else "aggregated events",
      {"halt": "halts the event (EventHalt)", "halt-attr": "sets event.halt", "raise": "raises"}[fault],
      "every time" if not occ else "on its invocation no. %d" % occ)
  fam, typ, comp = sc[0], sc[1], tuple(sc[2])
  s = "%s %s reply A cut into parts of %r entries" % (fam, TNAME[typ], comp)
  if fam == "hs": s += ", the first %d part(s) in the same read as the barrier reply that completes the handshake" % sc[3]
  elif fam == "inter": s += ", one %s message at position %d" % (sc[4], sc[3])
  elif fam == "inter-all": s += ", another message before, between and after all parts"
  elif fam == "seq": s += ", second reply B (%s) %s it" % (sc[3], sc[4])
  elif fam == "abort": s += ", complete reply B (%s) after part %d of A, then the rest of A" % (sc[3], sc[4])
  elif fam == "trunc": s += ", A stops after part %d (MORE still set), then complete reply B (%s)" % (sc[4], sc[3])
  return s


def run_stats (cfg, rep):
  items = scenarios(cfg)
  chunks = split(items, max(1, cfg.workers) * 6)
  best = {}
  for r in pmap(_stats_worker, chunks, cfg.workers, seed=cfg.seed):
    for k, v in r.violations.items():       # simplest counterexample per key, independent of worker order
      rank = _rank(v["replay"])
      if k not in best or rank < best[k][0]: best[k] = (rank, v["what"], v["replay"])
    rep.merge(r)
  for k, (rank, what, rp) in best.items():
    rep.violations[k]["what"] = what; rep.violations[k]["replay"] = rp
  fams = {}
  for sc in items: fams[sc[0]] = fams.get(sc[0], 0) + 1
  rep.extra["stats_scenarios"] = fams
  for sc in (("single", W.OFPST_FLOW, (1, 0, 2)), ("abort", W.OFPST_PORT, (1, 1), "same-type", 1)):
    bad, obs, n = run_scenario(sc)
    rep.sample(dict(part="stats", scenario=describe(sc), observed=[list(map(str, o)) for o in obs], violations=[k for k, w in bad]))
  return len(items)


def replay_stats (data):
  sc = data["scenario"]
  sc = tuple(tuple(x) if isinstance(x, list) else x for x in sc)
  bad, obs, n = run_scenario(sc)
  lines = [describe(sc)]
  for tags, names, ncon, cause in obs:
    lines.append("  deliver %r -> nexus events %r, connection events %d, %s" % (list(tags), names, ncon, cause))
  for k, what in bad: lines.append("  %s: %s" % (k, what))
  return bool(bad), "\n".join(lines)


# ======================================================================================
def run (cfg):
  from mc.env import boot
  boot()
  rep = Report(PID, "model_checking")
  nmax = cfg.pick(3, 4)
  plan = dict((e["label"], e["ndesc"]) for e in port_plan(cfg))
  only = getattr(cfg, "only", None)
  if only in (None, "ports"): run_ports(cfg, rep)
  if only in (None, "fields"): run_fields(cfg, rep)
  if only in (None, "stats"): run_stats(cfg, rep)
  rep.rule = (
    "PORT VIEW: breadth-first search with state matching to CLOSURE (empty frontier) over port-status histories on a real "
    "of_01.Connection after a byte-level handshake reporting ports {1,2,3}: {add, modify} x port {1,2,3,4} x the first k of the "
    "descriptions {original, renamed, new hw address, link-down} and delete x port {1,2,3,4}, delivered after the handshake (k=%d) "
    "with 'read the whole view' as an operation of its own (reads may populate caches), and, separately, between features reply and "
    "barrier reply (deferred by POX, k=%d) and in the SAME read() as the barrier reply that completes the handshake (k=%d) "
    "and, with k=%d, together with later features replies {same ports, port 3 gone, port 4 new, ports {2 renamed, 4}} as operations "
    "(reference: the view after a features reply is exactly its port list); and with the HANDSHAKE's own messages as operations "
    "(mode hs, k=%d: from a connection that has received nothing, {hello, features reply with one of %d port sets - also repeated -, "
    "barrier reply} and the notifications in every phase; reference: the last features reply's ports with the notifications that "
    "FOLLOWED it; before the first features reply every attribute of the connection / handshake handler that holds port descriptions "
    "or port-status messages is part of the state key), the latter repeated with faulty listeners installed (%s: listeners on "
    "{nexus, connection} for PortStatus/ConnectionUp/FeaturesReceived/BarrierIn/ConnectionHandshakeComplete that halt the event or raise); canonical "
    "state = every attribute of the real connection.ports and original_ports objects (sets, masks, any index/cache, aliasing) + "
    "reference dict; in every state len/keys/iter/iterkeys/values/itervalues/items/iteritems and "
    "[] / in / has_key / get by 7 numbers, 10 names and 9 hardware addresses (stale ones included) on ports and original_ports "
    "are compared with a dict, and copy() must hold the same items.  FIELD VALUES: %d cases = {10 name fields (empty, 1, 15, 16 bytes "
    "without NUL, bytes after the first NUL, high bytes, ...), 4 hardware addresses (all-zero, broadcast, multicast, ...), 8 port numbers "
    "(0, 255, 256, 2^15-1, 2^15, OFPP_MAX, OFPP_LOCAL, 0xffff)} x carried by {handshake features reply, later features reply, add, modify} "
    "x followed by {nothing, an ordinary description for that port, its deletion}.  STATISTICS: for FLOW/TABLE/PORT/QUEUE every weak composition of n<=%d fingerprinted entries "
    "into 1..6 parts (MORE on all but the last), delivered part by part, in one read, and with the first j parts in the same read as the handshake-completing barrier reply; one echo/port-status/barrier message at "
    "every position and one in every gap; a second reply B (same/other type, same/other xid, 1-2 parts, DESC, AGGREGATE) before "
    "and after; B complete after part i of A for every i (A1 B A2) and after an A that never finishes; and (family lst) with a faulty "
    "listener installed: {nexus, connection} x {RawStatsReply, the aggregated events} x {%s} x {every invocation, only the i-th} "
    "for the part-by-part delivery of every composition and for A1 B A2 (<=%d parts, n<=%d): the nexus-level aggregated event must "
    "still fire exactly once with all entries; distinct = (family, stats type, listener, per-delivery event trace)"
    % (plan["up"], plan["early"], plan["same-read"], plan["refeat"], plan["hs"], len(HS_FEATS[:cfg.pick(2, 4)]),
       ", ".join(n for n, _ in port_listener_configs(cfg)) if cfg.quick else "3 combined configurations and each (level, event, fault) alone",
       len(field_cases(cfg)), nmax, "halts, raises" if cfg.quick else "halts by return value, sets event.halt, raises", cfg.pick(3, 4), cfg.pick(2, 3)))
  rep.bound = dict(port_numbers=list(NUMS), descriptions=plan, port_history_length="unbounded (closure)",
                   stats_entries_max=nmax, stats_parts_max=MAX_PARTS)
  rep.assumptions = [
    "port descriptions of different ports never share a name or hardware address (lookups would be ambiguous)",
    "add of a known port / modify of an unknown port are applied as 'set description' in the reference",
    "queries are checked not to change the content of the PortCollection, so states with failed queries are still expanded; "
    "hidden state that reads create (caches) is part of the state key and reached through the explicit read operation",
    "notifications deferred during the handshake / coalesced with the barrier reply are applied one after the other by the same "
    "handler, so the state they lead to is keyed after the handshake completed (modes are separate searches)",
    "for a reply interrupted by another request's reply the specification gives no reassembly rule: its event may fire "
    "at most once, at its final part, with its own entries in order; the interrupting complete reply must be delivered exactly",
    "every scenario runs on a fresh connection; each message is its own read() except in the coalesced and hs families",
    "a name field is a C string: it ends at its first NUL byte (OpenFlow 1.0: 'Null-terminated'), whatever follows",
    "port-status messages that PRECEDE a features reply are superseded by it (the reply is the newer, complete report)",
    "when a nexus-level listener halts an aggregated event POX does not raise it on the connection; the oracle then demands "
    "nothing of the connection-level event (the statement is silent), the nexus-level event is still demanded exactly once",
    "the verdict on the two collections is computed once per canonical state and worker (it is a function of the state key)",
  ]
  return rep


def replay (cfg, data):
  from mc.env import boot
  boot()
  if data.get("part") == "stats": return replay_stats(data)
  if data.get("part") == "fields": return replay_fields(data)
  return replay_ports(data)
