"""C01 - OpenFlow 1.0 wire codec is lossless and matches the specified layout.

E-enum: every field vector within k deviations of a per-field fingerprint base vector over
{0, 1, max, sign-bit, fingerprint}, every list shape / payload length / action sequence /
prerequisite-consistent match in the stated finite sets, each run through the REAL
libopenflow_01 / nicira codecs and compared with the independent layout tables and
reference encoder in mc/refs/ofspec.py.

Oracle clauses (violation key = C01:<clause>:...):
  raises        pack / len / decode raised (key: innermost non-generic pox frame + exception)
  length        len(obj) != len(bytes)   (the header length field is part of `layout`)
  layout        bytes differ from the specification layout (key names the first field)
  limit         an encoding that does not fit its 16-bit length field was not rejected
  consumed      decode did not consume exactly the encoded length
  class         decode returned an object of another class
  equal         decoded object != original (library __eq__), or public fields differ
  reencode      decoded object does not pack to the same bytes
"""
import contextlib, io, logging, os, re, struct, sys, traceback, zlib
from mc.engine import pmap
from mc.report import Report, digest
import mc.refs.ofspec as S

PID = "C01"
PRE, POST = b'\x5a\x5a\x5a', b'\xa5\xa5\xa5\xa5\xa5'

# ---------------------------------------------------------------------------------------
# loading pox (no threads, no output)
# ---------------------------------------------------------------------------------------
class _NS (object): pass
_P = None

def pox ():
  global _P
  if _P is not None: return _P
  buf = io.StringIO()
  with contextlib.redirect_stdout(buf), contextlib.redirect_stderr(buf):
    import pox.lib.recoco.recoco as rc
    rc.Scheduler.runThreaded = lambda self, daemon=False: None
    import pox.core
    if pox.core.core is None:
      pox.core.initialize(threaded_selecthub=False, handle_signals=False)
    import pox.openflow.libopenflow_01 as of
    import pox.openflow.nicira as nx
    import pox.openflow.util as ofutil
    import pox.lib.addresses as addr
  logging.disable(logging.CRITICAL)
  P = _NS()
  P.of, P.nx, P.ofutil = of, nx, ofutil
  P.EthAddr, P.IPAddr, P.IPAddr6 = addr.EthAddr, addr.IPAddr, addr.IPAddr6
  P.unpackers = ofutil.make_type_to_unpacker_table()
  P.src = os.path.realpath(os.environ.get("POX_SRC", "/repo"))
  _P = P
  return P


# ---------------------------------------------------------------------------------------
# field domains: base (= fingerprint, unique per field index) + boundary alternatives
# ---------------------------------------------------------------------------------------
WIDTH = dict(u8=1, u16=2, u32=4, u64=8, ip=4)

def fpbytes (i, w):
  return bytes(((0x21 + 0x1d * i + 0x35 * j) & 0xff) for j in range(w))

def dom (typ, i):
  """-> (base, [alternatives]) ; all values JSON-safe"""
  if isinstance(typ, tuple):          # ('enum', base, alts)
    return typ[1], list(typ[2])
  if typ in WIDTH:
    w = WIDTH[typ]
    return int.from_bytes(fpbytes(i, w), 'big'), [0, 1, (1 << 8 * w) - 1, 1 << (8 * w - 1)]
  if typ == 'mac':
    return fpbytes(i, 6).hex(), ['000000000000', '000000000001', 'ffffffffffff', '800000000000']
  if typ == 'ip6':
    return fpbytes(i, 16).hex(), ['00' * 16, '00' * 15 + '01', 'ff' * 16, '80' + '00' * 15]
  if typ[0] == 's':                   # NUL padded character array of N bytes
    n = int(typ[1:])
    return 'f%d-%s' % (i, 'xyz'[:1 + i % 3]), ['', 'a', 'Z' * n, '\xe9\xff']
  raise ValueError(typ)

def base_vector (fields, overrides=None):
  v = {}
  for i, (f, typ) in enumerate(fields):
    v[f] = dom(typ, i)[0]
  if overrides: v.update(overrides)
  return v

def lattice (fields, k, overrides=None, fixed=()):
  """All vectors within k deviations of the base vector (base first, then 1 deviation ...)."""
  base = base_vector(fields, overrides)
  yield dict(base)
  free = [(f, dom(typ, i)[1]) for i, (f, typ) in enumerate(fields) if f not in fixed]
  free = [(f, [a for a in alts if a != base[f]]) for f, alts in free]
  if k >= 1:
    for f, alts in free:
      for a in alts:
        v = dict(base); v[f] = a; yield v
  if k >= 2:
    for x in range(len(free)):
      for y in range(x + 1, len(free)):
        for a in free[x][1]:
          for b in free[y][1]:
            v = dict(base); v[free[x][0]] = a; v[free[y][0]] = b; yield v
  if k >= 3:
    for x in range(len(free)):
      for y in range(x + 1, len(free)):
        for z in range(y + 1, len(free)):
          for a in free[x][1]:
            for b in free[y][1]:
              for c in free[z][1]:
                v = dict(base); v[free[x][0]] = a; v[free[y][0]] = b; v[free[z][0]] = c; yield v

def payload (n):
  """Deterministic payload of n bytes (never all zero, position dependent)."""
  return bytes(((i * 7 + 3 + (i >> 8)) & 0xff) for i in range(n))


# ---------------------------------------------------------------------------------------
# kinds
# ---------------------------------------------------------------------------------------
class OutOfScope (Exception):
  """The vector is outside the property's scope (caller contract of the library)."""

KINDS = {}

class Kind (object):
  """name    unique name (class name, or class/variant)
  cat        decode category: msg | action | struct | stats | qprop | nxaction | nxmsg | nxm | nxmatch
  fields     [(field, type)] ; vector = dict field -> value
  build      (P, v) -> (object, expected pieces | None)  ; may raise OutOfScope / S.SpecError
  cls        (P) -> class the decoders must return
  opts       eq=False: do not require library == / field equality (generic re-decode)
  """
  def __init__ (self, name, cat, fields, build, cls, **opts):
    self.name, self.cat, self.fields, self.build, self.cls = name, cat, fields, build, cls
    self.opts = opts
    self.fixed = opts.get('fixed', ())
    self.base = opts.get('base', None)
    assert name not in KINDS, name
    KINDS[name] = self

  def basev (self, **over):
    o = dict(self.base or {}); o.update(over)
    return base_vector(self.fields, o)

  def lattice (self, k):
    return lattice(self.fields, k, self.base, self.fixed)


# ---------------------------------------------------------------------------------------
# observation helpers
# ---------------------------------------------------------------------------------------
GENERIC_FRAMES = set("""ofp_base.unpack_new ofp_action_base.unpack_new _unpack_actions
  _unpack_queue_props _read _unpack _skip _unpad _readzs _readether _readip _packzs
  ofp_base._assert ofp_header.pack ofp_header.unpack ofp_header._unpack_header
  ofp_action_vendor_base.pack ofp_action_vendor_base.unpack ofp_action_vendor_base.__len__
  ofp_action_vendor_base._body_length nicira_base.pack nicira_base.unpack nicira_base.__len__
  nicira_base._body_length _ofp_meta.__len__ nxm_entry.pack nxm_entry.unpack_new
  nxm_entry.unpack_body nxm_entry.__len__ nxm_entry.get_length nxm_entry.__init__
  nx_match.pack nx_match.unpack nx_match.__len__ init_helper""".split())

def exc_site (P, e):
  """file:qualname of the innermost non-generic pox frame (falls back to the innermost)."""
  frames = []
  tb = e.__traceback__
  while tb is not None:
    co = tb.tb_frame.f_code
    fn = os.path.realpath(co.co_filename)
    if fn.startswith(P.src + os.sep):
      q = getattr(co, 'co_qualname', co.co_name)
      q = q.replace('.<locals>', '').replace('<genexpr>', 'genexpr').replace('<lambda>', 'lambda')
      frames.append((os.path.basename(fn), q))
    tb = tb.tb_next
  if not frames: return "harness:%s" % type(e).__name__, False
  for f, q in reversed(frames):
    if q not in GENERIC_FRAMES and not q.endswith('.genexpr'):
      return "%s:%s:%s" % (f, q, type(e).__name__), True
  f, q = frames[-1]
  return "%s:%s:%s" % (f, q, type(e).__name__), True

_VIEW_PROPS = ('xid', 'buffer_id', 'data', 'total_len', 'body', 'match')

def view (P, x, depth=0):
  """Public state of a codec object as plain data (for field-wise comparison)."""
  if depth > 6: return repr(x)
  if x is None or isinstance(x, (bool, int, str)): return x
  if isinstance(x, (bytes, bytearray)): return 'hex:' + bytes(x).hex()
  if isinstance(x, P.EthAddr): return 'hex:' + x.toRaw().hex()
  if isinstance(x, P.IPAddr): return 'ip:' + x.toRaw().hex()
  if isinstance(x, P.IPAddr6): return 'ip6:' + x.raw.hex()
  if isinstance(x, (list, tuple)): return [view(P, y, depth + 1) for y in x]
  if isinstance(x, type): return 'class:' + x.__name__
  if isinstance(x, P.of.ofp_match):
    d = dict((f, view(P, getattr(x, f), depth + 1)) for f in S.MATCH_FIELDS)
    d['wildcards'] = x.wildcards
    d['nw_src_bits'] = x.get_nw_src()[1]; d['nw_dst_bits'] = x.get_nw_dst()[1]
    return d
  if isinstance(x, P.nx.nxm_entry):
    m = x._mask
    if m is not None and m == b'\xff' * len(m): m = None
    return dict(cls=type(x).__name__, value=view(P, x._value), mask=view(P, m))
  if isinstance(x, P.nx.nx_match):
    return [view(P, y, depth + 1) for y in x._parts]
  if isinstance(x, P.nx.flow_mod_spec):
    return dict(n_bits=x.n_bits, src=type(x.src).__name__, srcdata=view(P, x.src.data),
                dst=type(x.dst).__name__, dstdata=view(P, x.dst.data))
  names = set(k for k in vars(x) if not k.startswith('_'))
  for p in _VIEW_PROPS:
    if isinstance(getattr(type(x), p, None), property): names.add(p)
  d = {'<class>': type(x).__name__}
  for k in sorted(names):
    if k == 'raw': continue
    try: d[k] = view(P, getattr(x, k), depth + 1)
    except Exception as e: d[k] = 'raises:' + type(e).__name__
  return d

def view_diff (a, b, path=''):
  if type(a) != type(b): return path or '<type>'
  if isinstance(a, dict):
    for k in sorted(set(a) | set(b)):
      if k not in a or k not in b: return path + '.' + k
      r = view_diff(a[k], b[k], path + '.' + k)
      if r: return r
    return None
  if isinstance(a, list):
    if len(a) != len(b): return path + '.<len>'
    for i, (x, y) in enumerate(zip(a, b)):
      r = view_diff(x, y, path + '[]')
      if r: return r
    return None
  return None if a == b else (path or '<value>')

def strip_idx (p):
  return re.sub(r'\[\d+\]', '[]', p)


class Verdict (object):
  __slots__ = ("fails", "calls", "raw", "note")
  def __init__ (self):
    self.fails = []     # (key suffix, text)
    self.calls = 0
    self.raw = None
    self.note = None
  def fail (self, suffix, text):
    self.fails.append((suffix, text))


def layout_diff (exp, b, dont_care):
  """first_diff with the semantic comparison of ofp_match.wildcards (nw prefix counts >= 32
  are equivalent; for a flow-mod the bits of non-applicable fields carry no meaning)."""
  off = 0
  for p, e in exp:
    a = b[off:off + len(e)]
    if a != e:
      ok = False
      if p.endswith('match.wildcards') or p == 'wildcards':
        if len(a) == 4:
          ok = S.wildcards_equiv(struct.unpack('!L', e)[0], struct.unpack('!L', a)[0],
                                 dont_care if p.endswith('match.wildcards') else 0)
      if not ok: return (p, e, a)
    off += len(e)
  if len(b) != off: return ('<end>', b'', b[off:off + 16])
  return None
