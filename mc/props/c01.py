"""C01 - OpenFlow 1.0 wire codec is lossless and matches the specified layout.

E-enum: every field vector within k deviations of a per-field fingerprint base vector over
{0, 1, max, sign-bit, fingerprint}, every list shape / payload length / action sequence /
prerequisite-consistent match in the stated finite sets, each run through the REAL
libopenflow_01 / nicira codecs and compared with the independent layout tables and
reference encoder in mc/refs/ofspec.py.

Oracle clauses (violation key = C01:<clause>:...):
  raises        pack / len / decode raised (key: file:qualname of the innermost non-generic pox
                frame + exception type, so one broken function is one key whatever contains it)
  length        len(obj) != len(bytes)   (key: kind; the header length field is written from len())
  layout        bytes differ from the specification layout (key: owning structure + first field)
  limit         an encoding that does not fit its 16-bit length field was not rejected
  consumed      decode did not consume exactly the encoded length (alone, and embedded at an offset
                with trailing bytes)
  class         decode returned an object of another class
  equal         decoded object != original (library __eq__), or public fields differ
                (key: kind + entry point, or kind + first component of the differing field)
  reencode      decoded object does not pack to the same bytes
  used          an object that was len()'d / compared / shown / hashed encodes differently, cannot be
                encoded (module logger installed), or its clone is wrong / not independent
  reused        an object that was encoded before and then unpack()s other bytes / has its public
                fields assigned does not end up == a fresh object, or encodes stale bytes
  dispatch      the decoder reached through a dispatch table / a real receive loop is not the decoder
                of that type: a registered type code without a slot in make_type_to_unpacker_table()
                or of_01.unpackers, or a message that a real of_01.Connection.read() (controller
                side) / switch OFConnection.read() does not hand to its handler
  edited        encode -> in-place edit of a list member (same number of elements: reorder, replace,
                mutate, replace by an element of another size) or of an NXM entry of a carried nx_match
                (mask added / removed) -> encode is not the encoding of the edited value (stale cache)
  wire          a legal encoding produced by the reference encoder (e.g. NXM entry with an explicit
                all-ones mask) does not decode -> re-encode to itself / len() disagrees
  composite     ofp_flow_mod(data=<unbuffered complete packet_in>).pack() is documented to return the
                flow_mod followed by a barrier request and a packet_out: what follows the flow_mod is
                not exactly these two well-framed messages / the packet_out is not the unbuffered
                re-send of the packet_in / they do not decode and re-encode
  form          a documented secondary way of building an object (nx_match routes) does not yield the object
  failed        an operation on the object FAILED earlier: (a) len()/pack() while one member (own public
                field, field of an owned object, list element) held a value that cannot be encoded yet
                (None / an integer wider than any field / an object whose pack() raises) - the value is
                put back (optionally another field is then given another value) and the object must
                encode like a fresh one, len() agree, the decoded bytes == it, and another object of
                the same value must not be affected; (b) unpack() of a truncated encoding, then of the
                complete one; (c) pack() rejected at the 64 KiB limit, object shrunk in place to the size
                that fits.  Exceptions in the operation that FOLLOWS the failed one are keyed
                raises:<site>:after-failed-pack / after-failed-unpack / after-rejected-pack.  When
                pack() accepts the value (None is legal for some fields) the history is an in-place
                edit of a member between two encodings: edited:<kind>:pack-after-member-edit
Secondary forms (data=<packet_in>, data=<packet object>, data/body=<object with pack()>, raw-bytes
addresses, action= synonyms) are kinds of their own ("<class>/<form>") checked against the same layout
tables; the dispatch clauses are also run with the decoder table of_01 has after the Nicira component
was initialised.  A second pack() of every object must repeat the first (reused:...:pack-twice).
A case stops at the first length/layout failure (decoding a wrong encoding proves nothing); a
decode clause that failed through one entry point is not reported again for the next one.
Exceptions without any pox frame are harness errors, never violations.
"""
import contextlib, io, json, logging, os, re, struct, sys, traceback, zlib
from mc.engine import pmap
from mc.report import Report, digest
import mc.refs.ofspec as S

PID = "C01"
PRE, POST = b'\x5a\x5a\x5a', b'\xa5\xa5\xa5\xa5\xa5'

# ---------------------------------------------------------------------------------------
# loading pox (no threads, no output)
# ---------------------------------------------------------------------------------------
class _NS (object): pass
_P = None

def pox ():
  global _P
  if _P is not None: return _P
  buf = io.StringIO()
  with contextlib.redirect_stdout(buf), contextlib.redirect_stderr(buf):
    import pox.lib.recoco.recoco as rc
    rc.Scheduler.runThreaded = lambda self, daemon=False: None
    import pox.core
    if pox.core.core is None:
      pox.core.initialize(threaded_selecthub=False, handle_signals=False)
    import pox.openflow.libopenflow_01 as of
    import pox.openflow.nicira as nx
    import pox.openflow.util as ofutil
    import pox.lib.addresses as addr
  logging.disable(logging.CRITICAL)
  P = _NS()
  P.of, P.nx, P.ofutil = of, nx, ofutil
  P.EthAddr, P.IPAddr, P.IPAddr6 = addr.EthAddr, addr.IPAddr, addr.IPAddr6
  P.unpackers = ofutil.make_type_to_unpacker_table()
  P.paths = None
  # libopenflow's module logger as of_01.launch() installs it (only switched on for the
  # "used object" phase; logging itself stays disabled, the code path behind it does not)
  P.logger = logging.getLogger("c01.libopenflow")
  P.logger.addHandler(logging.NullHandler())
  P.logger.propagate = False
  P.src = os.path.realpath(os.environ.get("POX_SRC", "/repo"))
  _P = P
  return P


# ---------------------------------------------------------------------------------------
# field domains: base (= fingerprint, unique per field index) + boundary alternatives
# ---------------------------------------------------------------------------------------
WIDTH = dict(u8=1, u16=2, u32=4, u64=8, ip=4)

def fpbytes (i, w):
  return bytes(((0x21 + 0x1d * i + 0x35 * j) & 0xff) for j in range(w))

def dom (typ, i):
  """-> (base, [alternatives]) ; all values JSON-safe"""
  if isinstance(typ, tuple):          # ('enum', base, alts)
    return typ[1], list(typ[2])
  if typ in WIDTH:
    w = WIDTH[typ]
    return int.from_bytes(fpbytes(i, w), 'big'), [0, 1, (1 << 8 * w) - 1, 1 << (8 * w - 1)]
  if typ == 'mac':
    return fpbytes(i, 6).hex(), ['000000000000', '000000000001', 'ffffffffffff', '800000000000']
  if typ == 'ip6':
    return fpbytes(i, 16).hex(), ['00' * 16, '00' * 15 + '01', 'ff' * 16, '80' + '00' * 15]
  if typ[0] == 's':                   # NUL padded character array of N bytes
    n = int(typ[1:])
    return 'f%d-%s' % (i, 'xyz'[:1 + i % 3]), ['', 'a', 'Z' * n, '\xe9\xff']
  raise ValueError(typ)

def base_vector (fields, overrides=None):
  v = {}
  for i, (f, typ) in enumerate(fields):
    v[f] = dom(typ, i)[0]
  if overrides: v.update(overrides)
  return v

def lattice (fields, k, overrides=None, fixed=()):
  """All vectors within k deviations of the base vector (base first, then 1 deviation ...)."""
  base = base_vector(fields, overrides)
  yield dict(base)
  free = [(f, dom(typ, i)[1]) for i, (f, typ) in enumerate(fields) if f not in fixed]
  free = [(f, [a for a in alts if a != base[f]]) for f, alts in free]
  if k >= 1:
    for f, alts in free:
      for a in alts:
        v = dict(base); v[f] = a; yield v
  if k >= 2:
    for x in range(len(free)):
      for y in range(x + 1, len(free)):
        for a in free[x][1]:
          for b in free[y][1]:
            v = dict(base); v[free[x][0]] = a; v[free[y][0]] = b; yield v
  if k >= 3:
    for x in range(len(free)):
      for y in range(x + 1, len(free)):
        for z in range(y + 1, len(free)):
          for a in free[x][1]:
            for b in free[y][1]:
              for c in free[z][1]:
                v = dict(base); v[free[x][0]] = a; v[free[y][0]] = b; v[free[z][0]] = c; yield v

def payload (n):
  """Deterministic payload of n bytes (never all zero, position dependent)."""
  return bytes(((i * 7 + 3 + (i >> 8)) & 0xff) for i in range(n))


# ---------------------------------------------------------------------------------------
# kinds
# ---------------------------------------------------------------------------------------
class OutOfScope (Exception):
  """The vector is outside the property's scope (caller contract of the library)."""

KINDS = {}

class Kind (object):
  """name    unique name (class name, or class/variant)
  cat        decode category: msg | action | struct | stats | qprop | nxaction | nxmsg | nxm | nxmatch
  fields     [(field, type)] ; vector = dict field -> value
  build      (P, v) -> (object, expected pieces | None)  ; may raise OutOfScope / S.SpecError
  cls        (P) -> class the decoders must return
  opts       eq=False: do not require library == / field equality (generic re-decode)
  """
  def __init__ (self, name, cat, fields, build, cls, **opts):
    self.name, self.cat, self.fields, self.build, self.cls = name, cat, fields, build, cls
    self.opts = opts
    self.fixed = opts.get('fixed', ())
    self.base = opts.get('base', None)
    assert name not in KINDS, name
    KINDS[name] = self

  def basev (self, **over):
    o = dict(self.base or {}); o.update(over)
    return base_vector(self.fields, o)

  def lattice (self, k):
    return lattice(self.fields, k, self.base, self.fixed)


# ---------------------------------------------------------------------------------------
# observation helpers
# ---------------------------------------------------------------------------------------
GENERIC_FRAMES = set("""ofp_base.unpack_new ofp_action_base.unpack_new _unpack_actions
  _unpack_queue_props _read _unpack _skip _unpad _readzs _readether _readip _packzs
  ofp_base._assert ofp_header.pack ofp_header.unpack ofp_header._unpack_header
  ofp_action_vendor_base.pack ofp_action_vendor_base.unpack ofp_action_vendor_base.__len__
  ofp_action_vendor_base._body_length nicira_base.pack nicira_base.unpack nicira_base.__len__
  nicira_base._body_length _ofp_meta.__len__ nxm_entry.pack nxm_entry.unpack_new
  nxm_entry.unpack_body nxm_entry.__len__ nxm_entry.get_length nxm_entry.__init__
  nx_match.pack nx_match.unpack nx_match.__len__ init_helper""".split())

def exc_site (P, e):
  """file:qualname of the innermost non-generic pox frame (falls back to the innermost)."""
  frames = []
  tb = e.__traceback__
  while tb is not None:
    co = tb.tb_frame.f_code
    fn = os.path.realpath(co.co_filename)
    if fn.startswith(P.src + os.sep):
      q = getattr(co, 'co_qualname', co.co_name)
      q = q.replace('.<locals>', '').replace('<genexpr>', 'genexpr').replace('<lambda>', 'lambda')
      frames.append((os.path.basename(fn), q))
    tb = tb.tb_next
  if not frames: return "harness:%s" % type(e).__name__, False
  for f, q in reversed(frames):
    if q not in GENERIC_FRAMES and not q.endswith('.genexpr'):
      return "%s:%s:%s" % (f, q, type(e).__name__), True
  f, q = frames[-1]
  return "%s:%s:%s@" % (f, q, type(e).__name__), True

_VIEW_PROPS = ('xid', 'buffer_id', 'data', 'total_len', 'body', 'match')

def view (P, x, depth=0):
  """Public state of a codec object as plain data (for field-wise comparison)."""
  if depth > 6: return repr(x)
  if x is None or isinstance(x, (bool, int, str)): return x
  if isinstance(x, (bytes, bytearray)): return 'hex:' + bytes(x).hex()
  if isinstance(x, P.EthAddr): return 'hex:' + x.toRaw().hex()
  if isinstance(x, P.IPAddr): return 'ip:' + x.toRaw().hex()
  if isinstance(x, P.IPAddr6): return 'ip6:' + x.raw.hex()
  if isinstance(x, (list, tuple)): return [view(P, y, depth + 1) for y in x]
  if isinstance(x, type): return 'class:' + x.__name__
  if isinstance(x, P.of.ofp_match):
    d = dict((f, view(P, getattr(x, f), depth + 1)) for f in S.MATCH_FIELDS)
    d['wildcards'] = x.wildcards
    d['nw_src_bits'] = x.get_nw_src()[1]; d['nw_dst_bits'] = x.get_nw_dst()[1]
    return d
  if isinstance(x, P.nx.nxm_entry):
    m = x._mask
    if m is not None and m == b'\xff' * len(m): m = None
    return dict(cls=type(x).__name__, value=view(P, x._value), mask=view(P, m))
  if isinstance(x, P.nx.nx_match):
    return [view(P, y, depth + 1) for y in x._parts]
  if isinstance(x, P.nx.flow_mod_spec):
    return dict(n_bits=x.n_bits, src=type(x.src).__name__, srcdata=view(P, x.src.data),
                dst=type(x.dst).__name__, dstdata=view(P, x.dst.data))
  names = set(k for k in vars(x) if not k.startswith('_'))
  for p in _VIEW_PROPS:
    if isinstance(getattr(type(x), p, None), property): names.add(p)
  for p in ('header_type', 'type', 'property', 'vendor', 'subtype'):
    if hasattr(x, p): names.add(p)
  d = {'<class>': type(x).__name__}
  for k in sorted(names):
    if k == 'raw': continue
    try: d[k] = view(P, getattr(x, k), depth + 1)
    except Exception as e: d[k] = 'raises:' + type(e).__name__
  return d

def view_diff (a, b, path=''):
  if type(a) != type(b): return path or '<type>'
  if isinstance(a, dict):
    for k in sorted(set(a) | set(b)):
      if k not in a or k not in b: return path + '.' + k
      r = view_diff(a[k], b[k], path + '.' + k)
      if r: return r
    return None
  if isinstance(a, list):
    if len(a) != len(b): return path + '.<len>'
    for i, (x, y) in enumerate(zip(a, b)):
      r = view_diff(x, y, path + '[]')
      if r: return r
    return None
  return None if a == b else (path or '<value>')

def strip_idx (p):
  return re.sub(r'\[\d+\]', '[]', p)


class Verdict (object):
  __slots__ = ("fails", "calls", "raw", "note", "at", "now")
  def __init__ (self):
    self.fails = []     # (key suffix, text)
    self.calls = 0
    self.raw = None
    self.note = None
    self.at = {}        # key suffix -> the history (phase, failing site, value, prior state ...) that failed
    self.now = None     # the history being executed (set by the phases that enumerate histories)
  def fail (self, suffix, text):
    if any(x == suffix for x, _ in self.fails): return      # the same clause at the same site: one defect
    self.fails.append((suffix, text))
    if self.now is not None: self.at[suffix] = dict(self.now)


def layout_diff (exp, b, dont_care):
  """first_diff with the semantic comparison of ofp_match.wildcards (nw prefix counts >= 32
  are equivalent; for a flow-mod the bits of non-applicable fields carry no meaning)."""
  off = 0
  for p, e in exp:
    a = b[off:off + len(e)]
    if a != e:
      ok = False
      if p.endswith('match.wildcards') or p == 'wildcards':
        if len(a) == 4:
          ok = S.wildcards_equiv(struct.unpack('!L', e)[0], struct.unpack('!L', a)[0],
                                 dont_care if p.endswith('match.wildcards') else 0)
      if not ok: return (p, e, a, off)
    off += len(e)
  if len(b) != off: return ('<end>', b'', b[off:off + 16], off)
  return None


# ---------------------------------------------------------------------------------------
# the oracle for one case
# ---------------------------------------------------------------------------------------
def layout_owner (K, path):
  p = strip_idx(path)
  owner, rest = K.opts.get('owner', K.name.split('/')[0]), p
  if K.opts.get('owner_fixed'): return owner, '*'
  ms = list(re.finditer(r'\[\]:([\w/]+)\.', p))
  if ms:
    owner, rest = ms[-1].group(1), p[ms[-1].end():]
  if rest.startswith('match.'): owner, rest = 'ofp_match', rest[6:]
  elif rest.startswith('desc.'): owner, rest = 'ofp_phy_port', rest[5:]
  return owner, rest


def _one (xs):
  if len(xs) != 1: raise AssertionError("list decoder returned %d elements" % len(xs))
  return xs[0]


VARF = set(('actions', 'ports', 'queues', 'properties', 'spec', 'slaves', 'body', 'data', 'match', 'parts'))
PADS = (1, 8, 16, 24, 64)
def _front (mtype, n):
  return S.join(S.message('ofp_echo', dict(header=dict(xid=0x0f0e0d0c, type=mtype)), S.raw('body', payload(n - 8))))
FRONTS = (_front(S.OFPT['HELLO'], 8), _front(S.OFPT['ECHO_REQUEST'], 21), _front(S.OFPT['ECHO_REQUEST'], 64))
BACKS = (_front(S.OFPT['HELLO'], 8), _front(S.OFPT['ECHO_REQUEST'], 21))

def variants (P, K, b, stream, state, label=''):
  """[(buffer, offset of the encoding in it)].
  Stream entry points (real receive loops, which decode in place in their receive buffer): alone;
  LAST in the read behind another complete message (hello / 21-byte echo request / 64-byte echo
  request); FIRST in the read in front of another complete message (hello / 21-byte echo request);
  in the MIDDLE between two.  Quick tier, kinds without variable-length members: one front, one
  back, one middle, rotating with a checksum of the encoding; otherwise every front, every back and
  one middle (thorough: every front x back).
  Other entry points: alone; embedded behind 3, 1, 8, 16, 24, 64 bytes and behind a full other
  encoding of the same kind WITH trailing bytes; and as the LAST thing in the buffer (nothing
  after it) behind 8 bytes (+ one more prefix by checksum for kinds with variable-length members;
  thorough: behind every prefix).  Quick tier, kinds without variable-length members: 3 bytes plus
  two of the other prefixes with trailing bytes, rotating with a checksum of the encoding."""
  out = [(b, 0)]
  crc = zlib.crc32(b)
  variable = K.name in ('nx_match', 'nx_match/wire') or any(f in VARF for f, t in K.fields)
  every = state >= 2 or variable
  if stream:
    fr = FRONTS if every else (FRONTS[crc % 3],)
    bk = BACKS if every else (BACKS[(crc >> 5) % 2],)
    out += [(f + b, len(f)) for f in fr]
    out += [(b + k, 0) for k in bk]
    if state >= 2: out += [(f + b + k, len(f)) for f in fr for k in bk]
    else: out.append((FRONTS[(crc >> 7) % 3] + b + BACKS[(crc >> 9) % 2], len(FRONTS[(crc >> 7) % 3])))
    return out
  ref = ref_of(P, K) if K.cat != 'wire' else None
  full = ref[2] if ref is not None else b
  pres = [bytes(((0x5b + 7 * i) & 0xff) for i in range(n)) for n in PADS] + [full]
  last = [pres[1]]                                       # behind 8 bytes, nothing after
  if state >= 2: last = pres
  elif every: last.append(pres[(0, 2, 3, 4)[(crc >> 11) % 4]])
  if not every: pres = [pres[crc % 6], pres[(crc // 6 + 1 + crc % 6) % 6]]
  out.append((PRE + b + POST, len(PRE)))
  if label == 'dispatch' and state < 2:                  # the table entry is the callable already decoded with above
    return out + [(last[0] + b, len(last[0]))]
  out.extend((p + b + POST, len(p)) for p in pres if len(p) != len(PRE))
  out.extend((p + b, len(p)) for p in last)
  return out


def where_text (raw, off, n, stream):
  """how the encoding sits in the buffer handed to the decoder (for messages)"""
  after = len(raw) - off - n
  if not off and not after: return ""
  if stream:
    return " (%s in the same read)" % " and ".join(
      x for x in ("behind another %d-byte message" % off if off else "", "in front of another %d-byte message" % after if after else "") if x)
  return " (embedded at offset %d %s)" % (off, "with %d trailing bytes" % after if after else "as the last thing in the buffer")


def n_messages (raw):
  """reference framing (header length fields): number of messages in raw, [start offsets]"""
  offs, o = [], 0
  while len(raw) - o >= 8:
    l = struct.unpack_from('!H', raw, o + 2)[0]
    if l < 8 or o + l > len(raw): break
    offs.append(o); o += l
  return offs


class DispatchFailure (Exception):
  """A real receive path did not hand the message to its handler."""

def real_paths (P):
  """Real receive loops, each with a recording handler: bytes in -> the object the handler was
  given.  (1) a real of_01.Connection (controller side) with of_01's decoder table as it is after
  import; (2) a real switch-side OFConnection; (3) a real of_01.Connection whose decoder table is
  the one of_01 has AFTER the Nicira component was initialised (pox.openflow.nicira._init_unpacker(),
  what nicira.launch() runs: it wraps the OFPT_VENDOR entry).  of_01.unpackers is a process-wide
  list, so the real initialiser is run once on it, the resulting table is copied for (3) and the
  wrapped entries are put back for (1)."""
  if getattr(P, 'paths', None) is not None: return P.paths
  import mc.env as env
  buf = io.StringIO()
  with contextlib.redirect_stdout(buf), contextlib.redirect_stderr(buf):
    cs = env.ControllerStack()
    import pox.openflow.of_01 as of01
    plain = list(of01.unpackers)
    try:
      P.nx._init_unpacker()
      P.nxtab = list(of01.unpackers)
      P.nx.__dict__['print'] = lambda *a, **k: None      # its "NO UNPACKER FOR <subtype>" note (print nothing per case)
    finally:
      of01.unpackers[:] = plain
    P.plaintab = plain
    con = cs.cons[cs.connect()]
    con.unpackers = plain
    con_nx = cs.cons[cs.connect()]
    con_nx.unpackers = P.nxtab
    import pox.datapaths.switch as sw
    from pox.lib.ioworker import RecocoIOWorker
    worker = RecocoIOWorker(env.FakeSock())
    worker.pinger = env.FakePinger()
    worker.on_close = lambda w: None
    sc = sw.OFConnection(worker)
    sgot = []
    sc.set_message_handler(lambda c, m: sgot.append(m))
  def mk_controller (con):
    got = []
    con.handlers = [lambda c, m: got.append(m)] * 256
    def controller (raw, off):
      del got[:]
      offs = n_messages(raw)
      con.buf = b''; con.sock.rx[:] = [bytes(raw)]; con.sock.tx = b''
      try:
        guard = 0
        while con.sock.rx:
          guard += 1
          if con.read() is False or guard > 100:
            raise DispatchFailure("Connection.read() gave the connection up (returned False)")
        if len(got) != len(offs):
          raise DispatchFailure("the message handler was invoked %d times for %d message(s) in the buffer; %d bytes left in the receive buffer"
                                % (len(got), len(offs), len(con.buf)))
        if con.buf:
          raise DispatchFailure("%d bytes left in the receive buffer" % len(con.buf))
        if off not in offs: raise DispatchFailure("the header length fields do not frame the buffer")
        i = offs.index(off)
        return (offs[i + 1] if i + 1 < len(offs) else len(raw)), got[i]
      finally:
        con.buf = b''; del con.sock.rx[:]
    return controller
  def switch (raw, off):
    del sgot[:]
    offs = n_messages(raw)
    worker.receive_buf = b''; worker.send_buf = b''
    try:
      worker._push_receive_data(bytes(raw))
      if len(sgot) != len(offs):
        reply = worker.send_buf
        what = ""
        if len(reply) >= 12 and reply[1] == 1:
          what = "; the switch answered with OFPT_ERROR type %d code %d" % struct.unpack('!HH', reply[8:12])
        raise DispatchFailure("the message handler was invoked %d times for %d message(s) in the buffer%s" % (len(sgot), len(offs), what))
      if worker.receive_buf:
        raise DispatchFailure("%d bytes left in the receive buffer" % len(worker.receive_buf))
      if off not in offs: raise DispatchFailure("the header length fields do not frame the buffer")
      i = offs.index(off)
      return (offs[i + 1] if i + 1 < len(offs) else len(raw)), sgot[i]
    finally:
      worker.receive_buf = b''; worker.send_buf = b''
  P.paths = (mk_controller(con), switch, mk_controller(con_nx))
  return P.paths


def table_cases (P):
  """The decoder reached through a dispatch table is the decoder of that type: every type code
  of the registry, in a freshly built table, in of_01's table and in a switch connection's."""
  import pox.openflow.of_01 as of01
  out = []
  tables = [('pox.openflow.util.make_type_to_unpacker_table()', P.ofutil.make_type_to_unpacker_table()),
            ('pox.openflow.of_01.unpackers', of01.unpackers)]
  for t, c in sorted(P.of._message_type_to_class.items()):
    for tname, tab in tables:
      e = tab[t] if 0 <= t < len(tab) else None
      if e is None:
        out.append(("dispatch:%s:no-decoder" % c.__name__, "%s has no decoder for type %d (%s); the table has %d slots"
                    % (tname, t, c.__name__, len(tab))))
      elif getattr(e, '__self__', c) is not c and tname.endswith('()'):
        out.append(("dispatch:%s:wrong-decoder" % c.__name__, "%s[%d] decodes with %s, the registry says %s"
                    % (tname, t, getattr(e.__self__, '__name__', e.__self__), c.__name__)))
  return out


def decoders (P, K, n):
  """[(label, fn(raw, off) -> (new offset, object), strict[, 'stream'])]"""
  of, nx = P.of, P.nx
  cls = K.cls(P)
  cat = K.cat
  if cat == 'wire': cat = K.opts['carrier']
  if cat in ('msg', 'msg1', 'nxmsg'):
    def table (raw, off):
      t, tab = raw[off + 1], P.unpackers       # built by pox.openflow.util.make_type_to_unpacker_table()
      e = tab[t] if t < len(tab) else None
      if e is None:
        raise DispatchFailure("make_type_to_unpacker_table() has no decoder for type %d (%d slots)" % (t, len(tab)))
      return e(raw, off)
    controller, switch, controller_nx = real_paths(P)
    real = [('of_01.Connection.read', controller, cat == 'msg', 'stream'),
            ('switch.OFConnection.read', switch, cat == 'msg', 'stream')]
    # prior state: the Nicira component was initialised (it re-wires of_01's decoder table).  Only for
    # types whose table entry it replaced - for the others the entry is the very same callable as above.
    t = getattr(cls, 'header_type', None)
    if t is None or not (0 <= t < len(P.nxtab) and t < len(P.plaintab)) or P.nxtab[t] is not P.plaintab[t]:
      nxstrict = (cat == 'msg') or bool(K.opts.get('nx_dispatch'))
      def table_nx (raw, off):
        t, tab = raw[off + 1], P.nxtab
        e = tab[t] if t < len(tab) else None
        if e is None:
          raise DispatchFailure("of_01.unpackers has no decoder for type %d after nicira._init_unpacker() (%d slots)" % (t, len(tab)))
        return e(raw, off)
      real += [('of_01.unpackers(nicira initialised)', table_nx, nxstrict),
               ('of_01.Connection.read(nicira initialised)', controller_nx, nxstrict, 'stream')]
  if cat == 'msg':
    return [('unpack_new', cls.unpack_new, True), ('dispatch', table, True)] + real
  if cat == 'msg1':
    return [('unpack_new', cls.unpack_new, True), ('dispatch', table, False)] + real
  if cat == 'action':
    def lst (raw, off):
      o, xs = of._unpack_actions(raw, n, off); return o, _one(xs)
    return [('unpack_new', cls.unpack_new, True), ('_unpack_actions', lst, True)]
  if cat == 'struct':
    def st (raw, off):
      o = cls(); return o.unpack(raw, off), o
    return [('unpack', st, True)]
  if cat == 'stats':
    def sb (raw, off):
      o = cls(); return o.unpack(raw, off, n), o
    return [('unpack', sb, True)]
  if cat == 'qprop':
    def qp (raw, off):
      o = cls(); return o.unpack(raw, off), o
    def ql (raw, off):
      o, xs = of._unpack_queue_props(raw, n, off); return o, _one(xs)
    return [('unpack', qp, True), ('_unpack_queue_props', ql, True)]
  if cat == 'nxaction':
    def gl (raw, off):
      o, xs = of._unpack_actions(raw, n, off); return o, _one(xs)
    return [('unpack_new', cls.unpack_new, True), ('_unpack_actions(generic)', gl, False)]
  if cat == 'nxmsg':
    return [('unpack_new', cls.unpack_new, True),
            ('ofp_vendor_generic', of.ofp_vendor_generic.unpack_new, False), ('dispatch', table, False)] + real
  if cat == 'nxm':
    return [('nxm_entry.unpack_new', nx.nxm_entry.unpack_new, True)]
  if cat == 'nxmatch':
    def nm (raw, off):
      o = nx.nx_match(); return o.unpack(raw, off, n), o
    return [('unpack', nm, True)]
  raise ValueError(cat)


def run_wire (P, K, v):
  """Wire-origin case: the bytes come from the reference encoder (a legal encoding that the
  library itself may never produce); decoding must consume exactly them and the decoded object
  must report that length and re-encode to the very same bytes."""
  V = Verdict()
  own = K.opts.get('owner', K.name.split('/')[0])
  def raised (phase, e):
    site, inpox = exc_site(P, e)
    if not inpox: raise e
    if site.endswith('@'): site += own
    V.fail("raises:" + site, "%s of %s raised %s: %s" % (phase, K.name, type(e).__name__, str(e)[:120]))
  try:
    pieces = K.build(P, v)
  except OutOfScope:
    V.note = 'out-of-scope'; return V
  raw = S.join(pieces)
  V.raw = raw
  n = len(raw)
  for ent in decoders(P, K, n):
    label, fn, strict = ent[:3]
    stream = len(ent) > 3
    if stream and raw[0] != S.OFP_VERSION: continue
    for data, off in variants(P, K, raw, stream, 2, label):
      emb = where_text(data, off, n, stream)
      try:
        V.calls += 1; off2, o = fn(data, off)
      except DispatchFailure as e:
        V.fail("dispatch:%s:%s" % (own, label), "%s: %s: %s" % (K.name, label, e)); return V
      except Exception as e:
        raised("decoding a wire-origin encoding via %s%s" % (label, emb), e); return V
      if off2 != off + n:
        V.fail("wire:%s:consumed" % own, "%s: decode via %s%s consumed %s of %d bytes" % (K.name, label, emb, off2 - off, n)); return V
      try:
        V.calls += 2; b2 = o.pack(); l2 = len(o)
      except Exception as e:
        raised("re-encoding a decoded wire-origin encoding (via %s)" % label, e); return V
      if b2 != raw:
        i = next((j for j in range(min(n, len(b2))) if raw[j] != b2[j]), min(n, len(b2)))
        d = S.first_diff(pieces, b2)
        if d is not None: own = layout_owner(K, d[0])[0]
        V.fail("wire:%s:reencode" % own, "%s: %s decoded via %s%s re-encodes to %d bytes differing at offset %d (%s...)"
               % (K.name, raw[:24].hex(), label, emb, len(b2), i, b2[:24].hex())); return V
      if l2 != n:
        V.fail("wire:%s:len" % own, "%s: len() of the decoded object is %d for %d wire bytes" % (K.name, l2, n)); return V
  return V


def run_case (P, K, v, state=True, focus=None):
  """state: 0 = the stateless clauses only, 1 = + the object-history phases at the quick tier's density,
  2 = at the thorough tier's.  focus: one recorded history of a failed-operation phase (Verdict.at):
  only that history is executed in its phase (replay of a recorded violation)."""
  if K.cat == 'wire': return run_wire(P, K, v)
  V = Verdict()
  own = K.opts.get('owner', K.name.split('/')[0])
  def raised (phase, e):
    site, inpox = exc_site(P, e)
    if not inpox: raise e
    if site.endswith('@'): site += own      # raised in a shared helper: name the kind
    if K.opts.get('tag'): site += ':' + K.opts['tag']      # an input class with a path of its own
    V.fail("raises:" + site, "%s of %s raised %s: %s" % (phase, K.name, type(e).__name__, str(e)[:120]))
  # -- construct ----------------------------------------------------------------------
  try:
    r = K.build(P, v)
  except OutOfScope:
    V.note = 'out-of-scope'; return V
  except Misbuilt as e:
    V.fail("form:%s:%s" % (own, e.what), "%s: %s" % (K.name, e)); V.note = 'misbuilt'; return V
  except Exception as e:
    site, inpox = exc_site(P, e)
    if not inpox: raise
    if site.endswith('@'): site += own
    if K.cat in ('nxm', 'nxmatch'):
      # an NXM entry encodes its value and mask when they are assigned: this is the codec
      if K.opts.get('tag'): site += ':' + K.opts['tag']      # the form / route through which it was given
      V.fail("raises:" + site, "constructing %s raised %s: %s" % (K.name, type(e).__name__, str(e)[:120]))
    V.note = 'unconstructible:' + site; return V
  obj, expfn = r[0], r[1]
  flags = r[2] if len(r) > 2 else {}
  V.calls += 1
  exp, over = None, False
  if expfn is not None:
    try: exp = expfn()
    except S.SpecError: over = True
  # -- encode -------------------------------------------------------------------------
  n0 = None
  try:
    V.calls += 1; n0 = len(obj)
  except Exception as e:
    if not over: raised("len()", e)
  try:
    V.calls += 1; b = obj.pack()
  except Exception as e:
    if over:
      V.note = 'rejected:' + type(e).__name__
      if state and isinstance(v.get('<fits>'), dict):
        V.now = dict(phase='rejected-pack')
        try: rejected_pack_phase(P, K, v, obj, V)
        finally: V.now = None
    else: raised("pack()", e)
    return V
  if over:
    V.fail("limit:" + own, "%s does not fit its 16-bit length field but pack() returned %d bytes "
           "(length field wrapped) instead of rejecting it" % (K.name, len(b)))
    V.raw = b; return V
  if not isinstance(b, bytes):
    V.fail("layout:%s:<type>" % own, "pack() returned %s" % type(b).__name__); return V
  V.raw = b
  if K.opts.get('first_only') and len(b) >= 8 and 8 <= struct.unpack('!H', b[2:4])[0] <= len(b):
    V.raw = b[:struct.unpack('!H', b[2:4])[0]]      # recorded outcome: the message itself (what may follow it carries generated xids)
  whole, tail = b, None
  if flags.get('tail') is not None and len(b) >= 8:
    # pack() is documented to return the message FOLLOWED BY further messages for this input: every
    # clause below applies to the message itself, the rest is checked against what is documented
    hl = struct.unpack('!H', b[2:4])[0]
    if 8 <= hl <= len(b): b, tail = b[:hl], b[hl:]
  n = len(b)
  if n0 is not None and n0 != n:
    V.fail("length:" + own, "%s: len(obj) = %d but pack() produced %d bytes (the length field is written from len())" % (K.name, n0, n))
    return V                  # the encoding is already wrong; decoding it proves nothing more
  if exp is not None:
    d = layout_diff(exp, b, flags.get('dont_care', 0))
    if d is not None:
      o, f = layout_owner(K, d[0])
      V.fail("layout:%s:%s" % (o, f), "%s: field %s is %s on the wire, specification layout gives %s (offset %d)"
             % (K.name, d[0], d[2].hex() or '<missing>', d[1].hex() or '<nothing>', d[3]))
      return V                # the encoding is already wrong; decoding it proves nothing more
  elif K.cat in ('msg', 'msg1', 'nxmsg', 'action', 'nxaction') and n >= 4:
    if struct.unpack('!H', b[2:4])[0] != n:
      V.fail("layout:%s:length" % own, "length field %d, %d bytes" % (struct.unpack('!H', b[2:4])[0], n))
  try:
    V.calls += 1; n1 = len(obj)
    if n1 != n: V.fail("length:" + own, "len(obj) = %d after pack() produced %d bytes" % (n1, n))
  except Exception as e:
    if n0 is not None: raised("len()", e)
  if tail is not None:
    t = flags['tail'](tail)
    if t is not None:
      V.fail("composite:%s:%s" % (own, t[0]), "%s: %s" % (K.name, t[1])); return V
    for o in n_messages(tail):
      try:
        V.calls += 2
        e = P.unpackers[tail[o + 1]]
        o2, x = e(tail, o)
        l = struct.unpack_from('!H', tail, o + 2)[0]
        if o2 != o + l or x.pack() != tail[o:o + l]:
          V.fail("composite:%s:decode" % own, "%s: the %d-byte message of type %d that pack() put behind the message decodes consuming %d bytes / re-encodes differently"
                 % (K.name, l, tail[o + 1], o2 - o)); return V
      except Exception as e:
        raised("decoding the messages pack() put behind the message", e); return V
  # -- decode -------------------------------------------------------------------------
  want = K.cls(P)
  ov = None
  seen = set()
  dec = None                  # the object decoded from the bytes alone through the first strict entry point
  def dfail (clause, suffix, text):
    # a clause that already failed through an earlier entry point is the same defect
    if clause in seen: return
    seen.add(clause); V.fail(suffix, text)
  for ent in decoders(P, K, n):
    label, fn, strict = ent[:3]
    stream = len(ent) > 3
    if stream and b[0] != S.OFP_VERSION: continue      # both receive loops refuse other versions by design
    strict_eq = strict and flags.get('eq', True) and K.opts.get('eq', True)
    for raw, off in variants(P, K, b, stream, int(state), label):
      emb = where_text(raw, off, n, stream)
      try:
        V.calls += 1; off2, o2 = fn(raw, off)
      except DispatchFailure as e:
        dfail("dispatch", "dispatch:%s:%s" % (own, label), "%s: %s: %s" % (K.name, label, e)); break
      except Exception as e:
        raised("decode via %s%s" % (label, emb), e); break
      if off2 != off + n:
        dfail("consumed", "consumed:%s:%s" % (own, label), "%s: decode via %s%s consumed %s bytes of a %d-byte encoding"
               % (K.name, label, emb, off2 - off if isinstance(off2, int) else off2, n)); break
      if strict and want is not None and type(o2) is not want:
        dfail("class", "class:%s:%s" % (own, label), "%s: decode via %s returned %s" % (K.name, label, type(o2).__name__)); break
      if strict_eq:
        try:
          V.calls += 1
          same = (not flags.get('libeq', True)) or ((o2 == obj) and not (o2 != obj))
        except Exception as e:
          raised("== after decode via %s" % label, e); break
        if not same:
          if ov is None: ov = view(P, obj)
          dfail("equal", "equal:%s:%s" % (own, label), "%s: object decoded via %s%s is not == the original (first differing public field: %s)"
                % (K.name, label, emb, view_diff(ov, view(P, o2)))); break
        if flags.get('view', True) and off in (0, len(PRE)):
          if ov is None: ov = view(P, obj)
          vd = view_diff(ov, view(P, o2))
          if vd:
            dfail("equal", "equal:%s:field%s" % (own, re.match(r'\.?[^.\[]*', vd).group(0)), "%s: decoded object differs from the original in public field %s (decode via %s%s)"
                   % (K.name, vd, label, emb)); break
      try:
        V.calls += 1; b2 = o2.pack()
      except Exception as e:
        raised("re-encode after decode via %s" % label, e); break
      if b2 != b and flags.get('reencode', True):
        i = next((j for j in range(min(len(b), len(b2))) if b[j] != b2[j]), min(len(b), len(b2)))
        dfail("reencode", "reencode:%s:%s" % (own, label), "%s: re-encoding the object decoded via %s%s differs from the original bytes at offset %d"
               % (K.name, label, emb, i)); break
      if dec is None and strict and off == 0 and len(raw) == n: dec = o2
  if state and not V.fails:
    # every encoding of the object is its encoding, not only the first
    try:
      V.calls += 2; b3 = obj.pack(); l3 = len(obj)
    except Exception as e:
      raised("second pack()/len() of the same object", e); return V
    if b3[:n] != b or len(b3) != len(whole) or l3 != n:
      d = layout_diff(exp, b3[:n], flags.get('dont_care', 0)) if exp is not None and len(b3) >= n else None
      V.fail("reused:%s:pack-twice" % (layout_owner(K, d[0])[0] if d else own),
             "%s: a second pack() of the same object returned %d bytes (len() %d), the first %d bytes%s"
             % (K.name, len(b3), l3, len(whole), (", field %s differs" % d[0]) if d else "")); return V
  try:
    if state and not V.fails:
      failed_pack_phase(P, K, v, obj, b, whole, exp, flags, V, raised, dec, int(state), focus)
    if state and not V.fails and not K.opts.get('noreuse'):
      failed_unpack_phase(P, K, v, obj, b, flags, V, raised, int(state), focus)
  finally:
    V.now = None
  if state and not V.fails and not K.opts.get('noreuse') and focus is None:
    state_phases(P, K, v, obj, b, exp, flags, V, raised, ov, int(state))
  return V


# ---------------------------------------------------------------------------------------
# objects that are not in their initial state
#   used     an object (and everything it owns) that was hashed / compared / len()'d / shown /
#            cloned before it is encoded, with libopenflow's module logger installed
#   reused   an object that was already encoded once and is then the target of unpack() of
#            another encoding, or has its public fields assigned, and is encoded again
# ---------------------------------------------------------------------------------------
_REF = {}

def ref_of (P, K):
  """(vector, None, bytes, flags) of the kind's reference (base) vector, or None"""
  if K.name not in _REF:
    r = None
    rv = K.opts.get('refv')
    if rv is None and K.fields: rv = K.basev()
    if rv is not None:
      try:
        t = K.build(P, rv)
        r = (rv, None, t[0].pack(), t[2] if len(t) > 2 else {})      # the object itself is not kept: no case sees an object another case used
      except Exception:
        r = None
    _REF[K.name] = r
  return _REF[K.name]

def unpack_into (K, x, raw):
  """decode `raw` into the existing object x through its instance unpack(); -> consumed"""
  if K.cat in ('msg', 'msg1', 'nxmsg'): return x.unpack(raw, 0)[0]
  if K.cat in ('action', 'nxaction', 'struct', 'qprop'): return x.unpack(raw, 0)
  if K.cat in ('stats', 'nxmatch'): return x.unpack(raw, 0, len(raw))
  return None

def assign_from (P, x, src):
  """what a caller does who sets every public field of x to that of src"""
  if isinstance(x, P.of.ofp_match):
    for f in S.MATCH_FIELDS:
      if f in ('nw_src', 'nw_dst'):
        ip, bits = getattr(src, 'get_' + f)()
        setattr(x, f, None if ip is None else (ip, bits))
      else:
        setattr(x, f, getattr(src, f))
    return True
  names = [k for k in vars(src) if not k.startswith('_')]
  for p in _VIEW_PROPS:
    pr = getattr(type(src), p, None)
    if isinstance(pr, property) and pr.fset is not None: names.append(p)
  for k in names: setattr(x, k, getattr(src, k))
  return bool(names)

def owned (P, x, depth=0):
  """x and every codec object it owns (matches, actions, ports, queues, bodies, entries)"""
  out = [x]
  if depth > 3: return out
  d = getattr(x, '__dict__', {})
  vals = list(d.values())
  for p in ('body', 'match'):
    if isinstance(getattr(type(x), p, None), property):
      try: vals.append(getattr(x, p))
      except Exception: pass
  for val in vals:
    ys = val if isinstance(val, (list, tuple)) else [val]
    for y in ys[:8]:
      if isinstance(y, (P.of.ofp_base, P.nx.nxm_entry, P.nx.nx_match)) and not any(y is z for z in out):
        out.extend(z for z in owned(P, y, depth + 1) if not any(z is w for w in out))
  return out

def use (P, y):
  """read-only use of an object; what these calls return or raise is not the codec's business"""
  n = 0
  for f in (len, lambda o: o == o, lambda o: o != o, lambda o: o.show(),
            lambda o: hash(o) if type(o).__hash__ is not None else None):
    try: f(y); n += 1
    except Exception: pass
  return n

LISTY = ('actions', 'ports', 'queues', 'properties', 'spec', 'slaves', 'body')
EDIT_MODES = ('reverse', 'replace', 'mutate', 'resize')
_SIZE = {}

def list_fields (v):
  """[(vector key, element list, wrap)] for the list-valued members with >= 2 elements"""
  out = []
  for f in LISTY:
    x = v.get(f)
    if not isinstance(x, list): continue
    if f == 'body':
      if len(x) != 2 or x[0] != 'list' or not isinstance(x[1], list): continue
      lst, wrap = x[1], (lambda l, x=x: [x[0], l])
    else:
      lst, wrap = x, (lambda l: l)
    if len(lst) < 2 or any(isinstance(a, dict) and 'rep' in a for a in lst): continue
    out.append((f, lst, wrap))
  return out

def elem_size (P, f, e):
  """encoded size of one list element (None: unknown)"""
  if f == 'spec':
    try: return len(sp_learn_spec(e))
    except Exception: return None
  if not (isinstance(e, list) and len(e) == 2 and e[0] in KINDS): return None
  key = repr(e)
  if key not in _SIZE:
    try: _SIZE[key] = len(sub(P, e)[0].pack())
    except Exception: _SIZE[key] = None
  return _SIZE[key]

def resize_candidate (P, f, cur):
  """an element to put in place of cur[0] whose encoding has another size"""
  s0 = elem_size(P, f, cur[0])
  if s0 is None: return None
  cands = list(cur[1:])
  if f == 'actions': cands += [atom('ofp_action_enqueue'), atom('ofp_action_output')]
  if f == 'spec': cands += LEARN_SPECS
  e = cur[0]
  if isinstance(e, list) and len(e) == 2 and isinstance(e[1], dict):
    for g, extra in (('actions', atom('ofp_action_enqueue')), ('properties', ['ofp_queue_prop_min_rate', {'rate': 77}])):
      if isinstance(e[1].get(g), list):
        cands.append([e[0], dict(e[1], **{g: e[1][g] + [extra]})])     # the same element, one nested member longer
  for c in cands:
    sc = elem_size(P, f, c)
    if sc is not None and sc != s0: return c
  return None

def edit_phase (P, K, v, b, flags, V, raised, own, state):
  """encode -> in-place edit of a list-valued member that keeps its number of elements (reverse
  it / replace an element / change the fields of an element / replace an element by one of
  another encoded size) -> encode: must be the encoding of the edited value.  Quick tier: one of
  the four edits per (case, list), chosen by a checksum of the vector (lists left at the kind's
  base value: every 4th case, also by checksum); thorough tier: all four, each on its own object,
  plus reverse-then-replace and resize-then-reverse on one object."""
  lf = list_fields(v)
  if not lf: return True
  crc = zlib.crc32(repr(v).encode())
  pick = crc % 4
  ref = ref_of(P, K)
  for f, lst, wrap in lf:
    if state < 2 and ref is not None and ref[0].get(f) == v[f] and (crc >> 4) % 4:
      continue      # quick tier: a list left at its base value is edited in every 4th case only
    plans = [[EDIT_MODES[pick]]] if state < 2 else [['reverse'], ['replace'], ['mutate'], ['resize'], ['reverse', 'replace'],
                                                     ['resize', 'reverse']]
    for plan in plans:
      try:
        x = K.build(P, v)[0]; x.pack(); V.calls += 2
      except Exception:
        return True
      cur = list(lst)
      for mode in plan:
        if mode == 'resize':
          c = resize_candidate(P, f, cur)
          if c is None: continue
          new = [c] + cur[1:]
        else:
          new = cur[::-1] if mode == 'reverse' else [cur[-1]] + cur[1:]
        if new == cur: continue
        v2 = dict(v); v2[f] = wrap(new)
        try:
          t = K.build(P, v2); y = t[0]; by = y.pack(); V.calls += 2
        except Exception:
          break                               # the edited value is not a case of its own
        try:
          V.calls += 3
          attr = getattr(x, f)
          if not isinstance(attr, list): break
          ny = getattr(y, f)
          if mode == 'reverse': attr.reverse()
          elif mode == 'mutate' and type(attr[0]) is type(ny[0]) and assign_from(P, attr[0], ny[0]): pass
          else: attr[0] = ny[0]
          bx = x.pack(); lx = len(x)
        except Exception as e:
          raised("in-place edit (%s %s) and pack() of an already encoded object" % (mode, f), e); return False
        if bx != by or lx != len(by):
          hl = struct.unpack('!H', bx[2:4])[0] if K.cat in ('msg', 'msg1', 'nxmsg') and len(bx) >= 4 else None
          V.fail("edited:%s:pack-after-inplace-edit" % own,
                 "%s: encoded, then %s changed in place (%s), encoded again: %d bytes%s, len() %d; a fresh object with the edited value encodes to %d bytes%s"
                 % (K.name, f, '+'.join(plan), len(bx), (", header length %d" % hl) if hl is not None else "", lx, len(by),
                    "" if len(bx) != len(by) else ", first difference at offset %d" % next((j for j in range(len(by)) if bx[j] != by[j]), -1)))
          return False
        cur = new
  return True


def nxm_toggle (P, e):
  """the same NXM entry with a mask added (if it has none) or removed: its encoded size changes"""
  cls = getattr(P.nx, e['cls'])
  n = len(e['value']) // 2
  if e.get('mask') is None:
    m = b'\x0f\x0f' if issubclass(cls, P.nx._nxm_tcp_flags) else b'\xff' * (n - 1) + b'\xf0'
    val = bytes(a & c for a, c in zip(bytes.fromhex(e['value']), m))
    return dict(cls=e['cls'], value=val.hex(), mask=m.hex())
  return dict(cls=e['cls'], value=e['value'], mask=None)

def nxm_edit_phase (P, K, v, V, raised, own, state):
  """encode -> change an NXM entry that is already in the object's nx_match IN PLACE so that its
  encoded size changes (mask added / removed), through attribute assignment on the nx_match
  (m.<field> = v; m.<field>_mask = k) or through the entry object (e.value, e.mask) -> encode:
  must be the encoding of the edited value.  Quick: one route per case (checksum), one toggle;
  thorough: both routes, toggle and toggle back on the same object."""
  f = 'match' if K.cat == 'nxmsg' and isinstance(v.get('match'), list) else 'parts' if K.cat == 'nxmatch' else None
  if f is None: return True
  parts = v[f]
  idx = next((i for i, e in enumerate(parts) if getattr(P.nx, e['cls'])().allow_mask), None)
  if idx is None: return True
  crc = zlib.crc32(repr(v).encode())
  routes = [('attr', 'entry')[(crc >> 7) & 1]] if state < 2 else ['attr', 'entry']
  for route in routes:
    try:
      x = K.build(P, v)[0]; x.pack(); V.calls += 2
    except Exception:
      return True
    cur = list(parts)
    for step in range(1 if state < 2 else 2):
      ne = nxm_toggle(P, cur[idx])
      new = list(cur); new[idx] = ne
      v2 = dict(v); v2[f] = new
      try:
        y = K.build(P, v2)[0]; by = y.pack(); V.calls += 2
      except Exception:
        break
      try:
        V.calls += 4
        m = x if K.cat == 'nxmatch' else x.match
        cls = getattr(P.nx, ne['cls'])
        fam = nxm_family(P, cls)
        val = nxm_val(P, fam, bytes.fromhex(ne['value']))
        mask = None if ne['mask'] is None else nxm_val(P, fam, bytes.fromhex(ne['mask']))
        tgt, vname, mname = (m, ne['cls'].lower(), ne['cls'].lower() + '_mask') if route == 'attr' else (m[idx], 'value', 'mask')
        if mask is None:
          setattr(tgt, mname, None); setattr(tgt, vname, val)
        else:
          setattr(tgt, vname, val); setattr(tgt, mname, mask)
        bx = x.pack(); lx = len(x)
      except Exception as e:
        raised("changing an NXM entry of the match in place (%s, mask %s) and pack() of an already encoded object"
               % (route, 'removed' if ne['mask'] is None else 'added'), e); return False
      if bx != by or lx != len(by):
        V.fail("edited:%s:pack-after-nxm-resize" % own,
               "%s: encoded, then %s of its nx_match %s a mask in place (via %s), encoded again: %d bytes, len() %d%s; a fresh object with the edited value encodes to %d bytes"
               % (K.name, ne['cls'], 'lost' if ne['mask'] is None else 'got', 'nx_match attribute assignment' if route == 'attr' else 'the entry object',
                  len(bx), lx, (", header length %d" % struct.unpack('!H', bx[2:4])[0]) if K.cat == 'nxmsg' and len(bx) >= 4 else "", len(by)))
        return False
      cur = new
  return True


CLONE_CATS = ('msg', 'msg1', 'nxmsg', 'action', 'nxaction', 'nxm', 'nxmatch')

def state_phases (P, K, v, obj, b, exp, flags, V, raised, ov=None, state=1):
  own = K.opts.get('owner', K.name.split('/')[0])
  n = len(b)
  strict_eq = flags.get('eq', True) and K.opts.get('eq', True)
  def where (actual):
    # name the structure that owns the first stale / wrong field
    if exp is not None:
      d = layout_diff(exp, actual, flags.get('dont_care', 0))
      if d is not None: return layout_owner(K, d[0])[0], d[0]
    return own, '?'
  # ---- used --------------------------------------------------------------------------
  try:
    xu = K.build(P, v)[0]
  except Exception:
    xu = None
  if xu is not None:
    P.of._logger = P.logger
    try:
      for y in owned(P, xu): V.calls += use(P, y)
      try:
        V.calls += 1; bu = xu.pack()
      except Exception as e:
        raised("pack() of a used (hashed / compared / shown) object, module logger installed,", e); return
      if bu != b:
        o, f = where(bu)
        V.fail("used:%s:pack" % o, "%s: after the object was hashed / compared / shown its encoding differs from a fresh object's (field %s)" % (K.name, f)); return
      try:
        if len(xu) != n: V.fail("used:%s:len" % own, "%s: len() of the used object is %d, %d bytes" % (K.name, len(xu), n)); return
      except Exception as e:
        raised("len() of a used object", e); return
      if isinstance(xu, P.of.ofp_match):
        try:
          V.calls += 1; xu.pack(flow_mod=True)
        except Exception as e:
          raised("pack(flow_mod=True) of a used match, module logger installed,", e); return
      if K.cat in CLONE_CATS or isinstance(xu, P.of.ofp_match):
        try:
          V.calls += 2; c = xu.clone(); bc = c.pack()
        except Exception as e:
          raised("clone() of a used object", e); return
        if bc != b:
          V.fail("used:%s:clone" % own, "%s: the clone of a used object encodes differently" % K.name); return
        if strict_eq and flags.get('libeq', True) and not (c == xu):
          V.fail("used:%s:clone" % own, "%s: the clone of a used object is not == it" % K.name); return
        if isinstance(c, P.of.ofp_match):
          # a clone is an independent object: it can be narrowed / fixed
          try: c.fix(); c.in_port = 1
          except Exception as e:
            raised("modifying the clone of a used match", e); return
    finally:
      P.of._logger = None
  # ---- edited after encoding ------------------------------------------------------------
  if not edit_phase(P, K, v, b, flags, V, raised, own, state): return
  if not nxm_edit_phase(P, K, v, V, raised, own, state): return
  # ---- reused ------------------------------------------------------------------------
  ref = ref_of(P, K)
  if ref is None or K.cat == 'nxm': return
  rv, _, rb, rflags = ref
  try:
    xa = K.build(P, rv)[0]; xa.pack(); V.calls += 2
    # a reference object of this case's own (parts of it end up shared with xa below), encoded once like xa:
    # pack() is documented to infer / normalise some fields (stats type, nx_reg_load.nbits)
    robj = K.build(P, rv)[0]; robj.pack(); V.calls += 2
  except Exception:
    return
  # A: unpack this case's bytes into an object that already encoded the reference vector
  try:
    V.calls += 1; used = unpack_into(K, xa, b)
  except Exception as e:
    raised("unpack() into an object that was encoded before", e); return
  if used != n:
    V.fail("reused:%s:consumed" % own, "%s: unpack() into an already encoded object consumed %s of %d bytes" % (K.name, used, n)); return
  try:
    V.calls += 3
    if strict_eq:
      if ov is None: ov = view(P, obj)
      if flags.get('libeq', True) and not (xa == obj):
        V.fail("reused:%s:equal-after-unpack" % own, "%s: an already encoded object that unpack()ed these bytes is not == a fresh object (first differing public field: %s)"
               % (K.name, view_diff(ov, view(P, xa)))); return
      if flags.get('view', True):
        vd = view_diff(ov, view(P, xa))
        if vd:
          V.fail("reused:%s:equal-after-unpack" % own, "%s: an already encoded object that unpack()ed these bytes differs from a fresh object in public field %s" % (K.name, vd)); return
    ba = xa.pack()
    la = len(xa)
  except Exception as e:
    raised("==/pack()/len() after unpack() into an already encoded object", e); return
  if ba != b and flags.get('reencode', True):
    o, f = where(ba)
    V.fail("reused:%s:pack-after-unpack" % o, "%s: an object that was encoded, then unpack()ed other bytes, encodes stale/wrong bytes (field %s)" % (K.name, f)); return
  if la != n:
    V.fail("reused:%s:len-after-unpack" % own, "%s: len() is %d after unpack() of %d bytes into an already encoded object" % (K.name, la, n)); return
  # C: assign every public field of the reference object onto xa (now encoded twice)
  try:
    V.calls += 2
    if assign_from(P, xa, robj):
      bc = xa.pack(); lc = len(xa)
      if bc != rb:
        V.fail("reused:%s:pack-after-assign" % own, "%s: after it was encoded, assigning the public fields of another object does not change the encoding accordingly" % K.name); return
      if lc != len(rb):
        V.fail("reused:%s:len-after-assign" % own, "%s: len() is %d after assigning fields that encode to %d bytes" % (K.name, lc, len(rb))); return
  except Exception as e:
    raised("assigning public fields / pack() of an already encoded object", e); return
  # B: unpack the reference bytes into this case's object (encoded, decoded against, compared)
  try:
    V.calls += 3
    used = unpack_into(K, obj, rb)
    if used != len(rb):
      V.fail("reused:%s:consumed" % own, "%s: unpack() of the reference encoding into the used object consumed %s of %d bytes" % (K.name, used, len(rb))); return
    bb = obj.pack()
    if bb != rb and rflags.get('reencode', True):
      V.fail("reused:%s:pack-after-unpack" % own, "%s: the case's object, after unpack() of the reference encoding, encodes other bytes" % K.name); return
    if rflags.get('eq', True) and K.opts.get('eq', True) and rflags.get('libeq', True) and not (obj == robj):
      V.fail("reused:%s:equal-after-unpack" % own, "%s: the case's object, after unpack() of the reference encoding, is not == the reference object" % K.name); return
  except Exception as e:
    raised("unpack()/pack()/== of the reference encoding on the case's object", e); return


# ---------------------------------------------------------------------------------------
# objects with a FAILED operation in their history
#   failed pack     a member of the object (one of its own public fields, a field of something it
#                   owns, an element of one of its lists) holds a value that cannot be encoded yet
#                   (None - the library's own "unset", e.g. ofp_action_output().port -, an integer
#                   wider than any field, an object whose pack() raises); len()/pack() are
#                   attempted (they raise part-way, or the value is accepted); the caller puts the
#                   old value back -> from here on it is an ordinary fully specified object: pack()
#                   must give the bytes of a fresh object, len() agree, the decoded object == it
#   failed unpack   an object unpack()s a truncated encoding (raises part-way), then the complete
#                   one: must consume it, == a fresh object, re-encode to the same bytes
#   rejected pack   pack() of an object over the 64 KiB limit was rejected; the caller shrinks it
#                   in place to the size that fits: must encode like a fresh object of that size
#   What the failing call itself raises or returns is not the codec's business here.
# ---------------------------------------------------------------------------------------
class Unencodable (object):
  """a member that cannot be encoded yet"""
  def pack (self): raise ValueError("this member cannot be encoded yet")
  def __len__ (self): return 8

POISONS = ('None', '2**70', 'unencodable-object')
PRIORS = ('fresh', 'encoded')

def poison_value (name):
  return None if name == 'None' else (1 << 70) if name == '2**70' else Unencodable()

def fail_sites (P, x):
  """[(index into owned(P, x), attribute, list index | None)]: every public field of the object
  and of everything it owns, and the first three elements of every list among them"""
  out = []
  for yi, y in enumerate(owned(P, x)):
    if isinstance(y, P.of.ofp_match):
      names = list(S.MATCH_FIELDS) + ['wildcards']
    elif isinstance(y, (P.nx.nxm_entry, P.nx.nx_match)):
      continue                # these encode a value when it is assigned, not in pack()
    else:
      names = sorted(k for k in vars(y) if not k.startswith('_'))
      for p in _VIEW_PROPS:
        pr = getattr(type(y), p, None)
        if isinstance(pr, property) and pr.fset is not None and p not in names: names.append(p)
    for k in names:
      out.append((yi, k, None))
      try: val = getattr(y, k)
      except Exception: continue
      if isinstance(val, list):
        out.extend((yi, k, i) for i in range(min(len(val), 3)))
  return out

def site_get (P, y, k, i):
  if isinstance(y, P.of.ofp_match) and k in ('nw_src', 'nw_dst'):
    ip, bits = getattr(y, 'get_' + k)()
    return None if ip is None else (ip, bits)
  old = getattr(y, k)
  return old[i] if i is not None else old

def site_set (y, k, i, val):
  if i is None: setattr(y, k, val)
  else: getattr(y, k)[i] = val

def raised_after (P, K, V, tag, phase, e):
  """an exception in an operation that follows a failed one: a key of its own per function"""
  site, inpox = exc_site(P, e)
  if not inpox: raise e
  if site.endswith('@'): site += K.opts.get('owner', K.name.split('/')[0])
  V.fail("raises:%s:%s" % (site, tag), "%s of %s raised %s: %s" % (phase, K.name, type(e).__name__, str(e)[:120]))

# fields that pack() is documented to normalise / infer from another field ("May normalize fields"):
# the caller who specifies the one specifies the other with it
COMPANIONS = {('ofp_action_output', 'port'): ('max_len',), ('nx_reg_load', 'offset'): ('nbits',), ('nx_reg_load', 'dst'): ('nbits',)}

def failed_pack_phase (P, K, v, obj, b, whole, exp, flags, V, raised, dec, state, focus=None):
  """Sites = fail_sites() of the case's object.  The kind's reference vector: every site x every
  unencodable value x {never encoded, encoded once before}; then, for every field of the kind, the
  same history followed by the assignment of another value to THAT field (failing site rotating over
  the sites that made pack() raise): must encode like a fresh object with that value.  Every other
  case: one site (thorough: three, evenly spread) chosen by a checksum of the vector, the unencodable
  values tried in order up to the first that makes pack() raise, prior state by checksum (thorough:
  both).  A value that pack() ACCEPTS (None is a legal value of some fields) makes the history an
  in-place edit of a member between two encodings: same demand, clause `edited`."""
  own = K.opts.get('owner', K.name.split('/')[0])
  try:
    sites = fail_sites(P, K.build(P, v)[0]); V.calls += 1
  except Exception:
    return
  if not sites: return
  crc = zlib.crc32(repr(v).encode())
  ref = ref_of(P, K)
  full = ref is not None and ref[0] == v
  # what the object must be like in the end: (bytes of the message itself, total length, an equal
  # object to compare with | None, flags, expected layout | None)
  T0 = (b, len(whole), dec, flags, exp)
  views = {}
  def attempt (site, pname, prior, bystander, change=None, T=T0):
    """-> 'raised' | 'accepted' | 'skip' | None (a clause failed)"""
    yi, k, i = site
    tb, tlen, tobj, tflags, texp = T
    n = len(tb)
    V.now = dict(phase='failed-pack', site=[yi, k, i], value=pname, prior=prior, then=change[0] if change is not None else None)
    try:
      x = K.build(P, v)[0]; V.calls += 1
      ys = owned(P, x)
      if prior == 'encoded': x.pack(); V.calls += 1
      y = ys[yi]
      old = site_get(P, y, k, i)
      also = [(k2, getattr(y, k2)) for k2 in COMPANIONS.get((type(y).__name__, k), ())]
    except Exception:
      return 'skip'
    try:
      site_set(y, k, i, poison_value(pname))
    except Exception:
      return 'skip'           # the library refuses the value when it is assigned: nothing to attempt
    what = "%s.%s%s = %s on a%s object" % (type(y).__name__, k, '' if i is None else '[%d]' % i, pname,
                                           'n already encoded' if prior == 'encoded' else ' fresh')
    failed = False
    V.calls += 2
    try: len(x)
    except Exception: pass
    try: x.pack()
    except Exception: failed = True
    if failed: clause, o0, tag = 'failed', own, 'after-failed-pack'
    else: clause, o0, tag = 'edited', K.name.split('/')[0], 'after-member-edit'
    hist = "%s, pack() attempted and %s, old value put back" % (what, "raised" if failed else "accepted it")
    if failed and bystander:
      try:
        V.calls += 1; bo = obj.pack()
      except Exception as e:
        raised_after(P, K, V, 'other-object-' + tag, "pack() of ANOTHER object after a pack() attempt on an object of the same class failed (%s)" % what, e); return None
      if bo[:len(b)] != b or len(bo) != len(whole):
        V.fail("failed:%s:other-object" % own, "%s: after a failed pack() attempt on one object (%s) ANOTHER, untouched object of the same value encodes differently"
               % (K.name, what)); return None
    try:
      site_set(y, k, i, old)
      for k2, o2 in also: setattr(y, k2, o2)
      if change is not None:
        setattr(x, change[0], change[1])
        for k2, o2 in change[2]: setattr(x, k2, o2)
        hist += ", then %s assigned another value" % change[0]
    except Exception:
      return 'skip'
    try:
      V.calls += 2; bx = x.pack(); lx = len(x)
    except Exception as e:
      raised_after(P, K, V, tag, "pack()/len() of a fully specified object with this history: %s;" % hist, e); return None
    if bx[:n] != tb or len(bx) != tlen:
      o, f = o0, '?'
      if texp is not None:
        d = layout_diff(texp, bx[:n], tflags.get('dont_care', 0))
        if d is not None: o, f = (layout_owner(K, d[0])[0] if failed else o0), d[0]
      V.fail("%s:%s:pack-%s" % (clause, o, tag), "%s: %s; now it encodes to %d bytes that are not the %d bytes of a fresh object with the same value (field %s)"
             % (K.name, hist, len(bx), tlen, f)); return None
    if lx != n:
      V.fail("%s:%s:len-%s" % (clause, o0, tag), "%s: %s; now len() is %d for %d bytes" % (K.name, hist, lx, n)); return None
    if tobj is not None and tflags.get('eq', True) and K.opts.get('eq', True):
      try:
        V.calls += 1
        same = (not tflags.get('libeq', True)) or ((tobj == x) and not (tobj != x))
        vd = None
        if tflags.get('view', True):
          if tobj is dec:
            if not views: views['dec'] = view(P, dec)
            vd = view_diff(views['dec'], view(P, x))
          else:
            vd = view_diff(view(P, tobj), view(P, x))
      except Exception as e:
        raised_after(P, K, V, tag, "== between an object with this history: %s; and the object decoded from its bytes / a fresh one" % hist, e); return None
      if not same or vd:
        V.fail("%s:%s:equal-%s" % (clause, o0, tag), "%s: %s; the object decoded from its bytes (or a fresh object of that value) is not == it (first differing public field: %s)"
               % (K.name, hist, vd)); return None
    return 'raised' if failed else 'accepted'
  def change_for (fi, f, t):
    """the history's last step `field f is assigned another value of its domain`: -> (change, T) | None"""
    if f in K.fixed: return None
    alt = next((a for a in dom(t, fi)[1] if a != v[f]), None)
    if alt is None and not (isinstance(t, tuple) and None in t[2]): return None
    try:
      V.calls += 2
      t2 = K.build(P, dict(v, **{f: alt})); y2 = t2[0]
      fl2 = t2[2] if len(t2) > 2 else {}
      if fl2.get('tail') is not None: return None
      new = getattr(y2, f)
      comp = [(k2, getattr(y2, k2)) for k2 in COMPANIONS.get((type(y2).__name__, f), ())]
      by = y2.pack()
      if isinstance(new, (list, P.of.ofp_base, P.nx.nx_match)): new = K.build(P, dict(v, **{f: alt}))[0].__getattribute__(f)   # not shared with y2
      if f not in vars(y2) and not isinstance(getattr(type(y2), f, None), property): return None
    except Exception:
      return None
    e2 = None
    if t2[1] is not None:
      try: e2 = t2[1]()
      except Exception: e2 = None
    return (f, new, comp), (by, len(by), y2, fl2, e2)
  if focus is not None:
    # replay of ONE recorded history: the site, the value, the prior state and the last step are given
    if focus.get('phase') != 'failed-pack': return
    site = tuple(focus['site'])
    if focus.get('then') is None:
      attempt(site, focus['value'], focus['prior'], True)
    else:
      ct = next((change_for(fi, f, t) for fi, (f, t) in enumerate(K.fields) if f == focus['then']), None)
      if ct is not None: attempt(site, focus['value'], focus['prior'], False, ct[0], ct[1])
    return
  if not full:
    k = 1 if state < 2 else 3
    picks = sorted(set((crc + j * max(1, len(sites) // k)) % len(sites) for j in range(k)))
    priors = PRIORS if state >= 2 else (PRIORS[(crc >> 9) & 1],)
    for si in picks:
      for prior in priors:
        for pname in POISONS:
          r = attempt(sites[si], pname, prior, True)
          if r is None: return
          if r == 'raised': break
    return
  raising = []
  for site in sites:
    first = True
    for pname in POISONS:
      for prior in PRIORS:
        r = attempt(site, pname, prior, first)
        if r is None: return
        if r == 'raised':
          if first: raising.append((site, pname))
          first = False
  if not raising or flags.get('tail') is not None: return
  # ... the failed attempt, the repair, and then ANOTHER field is given another value
  for fi, (f, t) in enumerate(K.fields):
    ct = change_for(fi, f, t)
    if ct is None: continue
    cands = [(s_, p_) for s_, p_ in raising if not (s_[0] == 0 and s_[1] == f)] or raising
    for prior in PRIORS:
      site, pname = cands[(fi + (prior == 'encoded')) % len(cands)]
      if attempt(site, pname, prior, False, ct[0], ct[1]) is None: return


def unpack_cuts (n, full, crc, state):
  """lengths of the truncated encodings handed to the first unpack()"""
  if n <= 0: return []
  if full:
    if n <= 160: return list(range(n))
    return sorted(set(range(64)) | set(range(0, n, 8)) | set(range(n - 32, n)))
  cuts = set((crc % n, n - 1 - ((crc >> 8) % min(n, 8))))
  if state >= 2: cuts |= set((min(8, n - 1), n // 2, n - 1, (crc >> 4) % n, 0))
  return sorted(cuts)

def failed_unpack_phase (P, K, v, obj, b, flags, V, raised, state, focus=None):
  """An object that holds the kind's reference value unpack()s the first k bytes of this case's
  encoding (which raises part-way or returns), then the complete encoding.  The kind's reference
  vector: every k < n (encodings over 160 bytes: every k < 64, every 8th, the last 32) x {never
  encoded, encoded once before}; every other case: two k by checksum (thorough: up to seven), prior
  state by checksum (thorough: both)."""
  if K.cat in ('nxm', 'wire'): return
  own = K.opts.get('owner', K.name.split('/')[0])
  ref = ref_of(P, K)
  if ref is None: return
  rv = ref[0]
  n = len(b)
  crc = zlib.crc32(repr(v).encode())
  full = rv == v
  strict_eq = flags.get('eq', True) and K.opts.get('eq', True)
  priors = PRIORS if (full or state >= 2) else (PRIORS[(crc >> 10) & 1],)
  cuts = unpack_cuts(n, full, crc, state)
  if focus is not None:
    if focus.get('phase') != 'failed-unpack': return
    cuts, priors = [focus['cut']], (focus['prior'],)
  ov = None
  for k in cuts:
    for prior in priors:
      V.now = dict(phase='failed-unpack', cut=k, prior=prior)
      try:
        xa = K.build(P, rv)[0]; V.calls += 1
        if prior == 'encoded': xa.pack(); V.calls += 1
      except Exception:
        return
      V.calls += 1
      try: unpack_into(K, xa, b[:k]); first = "returned"
      except Exception: first = "raised"
      hist = "a%s object unpack()ed the first %d of these %d bytes (which %s), then all of them" % (
        'n already encoded' if prior == 'encoded' else ' fresh', k, n, first)
      try:
        V.calls += 1; used = unpack_into(K, xa, b)
      except Exception as e:
        raised_after(P, K, V, 'after-failed-unpack', "unpack() of a complete encoding into an object whose unpack() of the first %d of its %d bytes %s" % (k, n, first), e); return
      if used != n:
        V.fail("failed:%s:consumed-after-failed-unpack" % own, "%s: %s: consumed %s bytes" % (K.name, hist, used)); return
      try:
        V.calls += 3
        if strict_eq:
          if flags.get('libeq', True) and not (xa == obj):
            if ov is None: ov = view(P, obj)
            V.fail("failed:%s:equal-after-failed-unpack" % own, "%s: %s: it is not == a fresh object (first differing public field: %s)"
                   % (K.name, hist, view_diff(ov, view(P, xa)))); return
          if flags.get('view', True):
            if ov is None: ov = view(P, obj)
            vd = view_diff(ov, view(P, xa))
            if vd:
              V.fail("failed:%s:equal-after-failed-unpack" % own, "%s: %s: it differs from a fresh object in public field %s" % (K.name, hist, vd)); return
        ba = xa.pack(); la = len(xa)
      except Exception as e:
        raised_after(P, K, V, 'after-failed-unpack', "==/pack()/len() after %s;" % hist, e); return
      if ba != b and flags.get('reencode', True):
        V.fail("failed:%s:pack-after-failed-unpack" % own, "%s: %s: it encodes other bytes" % (K.name, hist)); return
      if la != n:
        V.fail("failed:%s:len-after-failed-unpack" % own, "%s: %s: len() is %d" % (K.name, hist, la)); return


def rejected_pack_phase (P, K, v, obj, V):
  """obj does not fit its 16-bit length field and its pack() was rejected.  The caller shrinks it to
  the neighbouring size that fits (lists cut IN PLACE, byte strings re-assigned): it must encode
  exactly like a fresh object of that size."""
  own = K.opts.get('owner', K.name.split('/')[0])
  try:
    fo = K.build(P, v['<fits>'])[0]; fb = fo.pack(); V.calls += 2
  except Exception:
    return
  try:
    names = [k for k in vars(fo) if not k.startswith('_')]
    for p in _VIEW_PROPS:
      pr = getattr(type(fo), p, None)
      if isinstance(pr, property) and pr.fset is not None and p not in names: names.append(p)
    for k in names:
      new, cur = getattr(fo, k), getattr(obj, k)
      if isinstance(cur, list) and isinstance(new, list) and len(new) <= len(cur): del cur[len(new):]
      else: setattr(obj, k, new)
    V.calls += 2
    bo = obj.pack(); lo = len(obj)
  except Exception as e:
    raised_after(P, K, V, 'after-rejected-pack', "shrinking an object whose pack() was rejected for its size to the size that fits, then pack()/len()", e); return
  if bo != fb:
    V.fail("failed:%s:pack-after-rejected-pack" % own, "%s: pack() was rejected (over 64 KiB), the object was shrunk in place to the size that fits: it encodes to %d bytes, a fresh object of that size to %d%s"
           % (K.name, len(bo), len(fb), "" if len(bo) != len(fb) else ", first difference at offset %d" % next((j for j in range(len(fb)) if bo[j] != fb[j]), -1))); return
  if lo != len(fb):
    V.fail("failed:%s:len-after-rejected-pack" % own, "%s: after the rejected pack() and the shrink len() is %d for %d bytes" % (K.name, lo, len(fb)))


# ---------------------------------------------------------------------------------------
# value conversion: vector values (plain data) -> pox objects / specification values
# ---------------------------------------------------------------------------------------
def topox (P, t, x):
  if t == 'mac': return P.EthAddr(bytes.fromhex(x))
  if t == 'ip': return P.IPAddr(x)              # host-order int -> a.b.c.d
  return x

def tospec (t, x):
  if t == 'mac': return bytes.fromhex(x)
  return x

HDR = [('version', ('enum', 1, [0, 0xff, 0x80, 0x37])), ('xid', 'u32')]
LEN = lambda base, *alts: ('enum', base, list(alts))      # payload length domain
BUF = ('enum', 0x6d8aa7c4, [0, 1, 0xffffffff, 0x80000000, None])

def hkw (v): return dict(version=v['version'], xid=v['xid'])
def hsp (v, t): return dict(version=v['version'], xid=v['xid'], type=t)
def bufspec (x): return S.OFP_NO_BUFFER if x is None else x

def ofcls (name): return lambda P: getattr(P.of, name)
def nxcls (name): return lambda P: getattr(P.nx, name)

def simple (clsname, cat, sname, fields, wrap=None, mod='of', base=None, **opts):
  """A kind whose pox attribute names equal the specification's field names."""
  msg = cat in ('msg',)
  fl = (HDR if msg else []) + fields
  def build (P, v):
    kw = hkw(v) if msg else {}
    for f, t in fields: kw[f] = topox(P, t, v[f])
    obj = getattr(getattr(P, mod), clsname)(**kw)
    def exp ():
      sv = dict((f, tospec(t, v[f])) for f, t in fields)
      if wrap: return wrap(sv, v)
      return S.enc(sname, sv)
    return obj, exp
  return Kind(clsname, cat, fl, build, lambda P: getattr(getattr(P, mod), clsname), base=base, **opts)

def msgwrap (sname, mtype, tailf=None):
  def w (sv, v):
    sv['header'] = hsp(v, mtype)
    return S.message(sname, sv, tailf(v) if tailf else ())
  return w

# ---- sub-object builders ------------------------------------------------------------------
def sub (P, atom):
  """atom = [kind name, vector] -> (object, expected pieces fn, strict?)"""
  K = KINDS[atom[0]]
  r = K.build(P, atom[1])
  return r[0], r[1], (K.cat not in ('nxaction',) and (r[2] if len(r) > 2 else {}).get('eq', True))

def expand (lst):
  """action / element lists may contain {'rep': [atom, n]}"""
  out = []
  for a in lst:
    if isinstance(a, dict) and 'rep' in a: out.extend([a['rep'][0]] * a['rep'][1])
    else: out.append(a)
  return out

def sublist (P, atoms, path):
  atoms = expand(atoms)
  objs, exps, strict = [], [], True
  cache = {}
  for a in atoms:
    key = repr(a)
    o, e, s = sub(P, a)                 # a fresh object per element (equal elements are not shared)
    if key in cache: e = cache[key]     # ... the expectation of equal elements is computed once
    else: cache[key] = e
    objs.append(o); exps.append((a[0], e)); strict = strict and s
  def exp ():
    out = []
    memo = {}
    for i, (name, e) in enumerate(exps):
      if id(e) not in memo: memo[id(e)] = e()
      out.extend(S.prefixed('%s[%d]:%s.' % (path, i, name), memo[id(e)]))
    return out
  return objs, exp, strict

# ---- ofp_match ---------------------------------------------------------------------------
def mk_match (P, m):
  kw = {}
  for f, x in m.items():
    if x is None: continue
    if f in ('dl_src', 'dl_dst'): kw[f] = P.EthAddr(bytes.fromhex(x))
    elif f in ('nw_src', 'nw_dst'): kw[f] = (P.IPAddr(x[0]), x[1])
    else: kw[f] = x
  return P.of.ofp_match(**kw)

def sp_match (m):
  d = {}
  for f, x in m.items():
    if x is None: continue
    if f in ('dl_src', 'dl_dst'): d[f] = bytes.fromhex(x)
    elif f in ('nw_src', 'nw_dst'): d[f] = (x[0], x[1])
    else: d[f] = x
  if not S.match_prereq_consistent(d):
    raise OutOfScope("match is not prerequisite-consistent")
  return d

def _b_match (P, v):
  d = sp_match(v['m'])
  return mk_match(P, v['m']), (lambda: S.enc('ofp_match', S.match_vals(d)))
Kind('ofp_match', 'struct', [], _b_match, ofcls('ofp_match'))

M_FREE = [('in_port', 'u16'), ('dl_src', 'mac'), ('dl_dst', 'mac'), ('dl_vlan', 'u16'),
          ('dl_vlan_pcp', 'u8'), ('nw_tos', 'u8'), ('nw_src_ip', 'ip'), ('nw_src_bits', ('enum', 32, [0, 1, 16, 31])),
          ('nw_dst_ip', 'ip'), ('nw_dst_bits', ('enum', 32, [0, 1, 16, 31])), ('tp_src', 'u16'), ('tp_dst', 'u16')]
M_L2 = ('in_port', 'dl_src', 'dl_dst', 'dl_vlan', 'dl_vlan_pcp')
# context -> (dl_type values, nw_proto values, free logical fields)
M_CTX = [
  ('tcp', [0x0800], [6], M_L2 + ('nw_tos', 'nw_src', 'nw_dst', 'tp_src', 'tp_dst')),
  ('udp', [0x0800], [17], M_L2 + ('nw_tos', 'nw_src', 'nw_dst', 'tp_src', 'tp_dst')),
  ('icmp', [0x0800], [1], M_L2 + ('nw_tos', 'nw_src', 'nw_dst', 'tp_src', 'tp_dst')),
  ('ip', [0x0800], [0x59, 0, 255, 0x80, None], M_L2 + ('nw_tos', 'nw_src', 'nw_dst')),
  ('arp', [0x0806], [1, 2, 0x59, 255, None], M_L2 + ('nw_src', 'nw_dst')),
  ('l2', [0x88cc, 0, 0xffff, 0x8000, 0x86dd, 0x05ff, 1, None], [None], M_L2),
]

def m_from_flat (ctx_dl, ctx_proto, free, fv, absent=()):
  """flat vector over M_FREE -> logical match restricted to the context's free fields"""
  m = {}
  if ctx_dl is not None: m['dl_type'] = ctx_dl
  if ctx_proto is not None: m['nw_proto'] = ctx_proto
  for f in free:
    if f in absent: continue
    if f in ('nw_src', 'nw_dst'): m[f] = [fv[f + '_ip'], fv[f + '_bits']]
    else: m[f] = fv[f]
  return m

def match_contexts ():
  for name, dls, protos, free in M_CTX:
    for dl in dls:
      for pr in protos:
        yield name, dl, pr, free

def match_sweep (k, subsets=True, prefixes=True):
  """The ofp_match lattice: per context, (a) every subset of the free fields wildcarded,
  (b) every value vector within k deviations of the base, (c) every nw prefix pair."""
  fb = base_vector(M_FREE)
  for name, dl, pr, free in match_contexts():
    if subsets:
      n = len(free)
      for bits in range(1 << n):
        yield m_from_flat(dl, pr, free, fb, [free[i] for i in range(n) if bits >> i & 1])
    used = [(f, t) for f, t in M_FREE if f in free or f[:6] in free]
    first = True
    for fv in lattice(used, k):
      if first: first = False; continue      # the base is in (a)
      full = dict(fb); full.update(fv)
      yield m_from_flat(dl, pr, free, full)
  if prefixes:
    for a in range(33):
      for b in range(33):
        fv = dict(fb); fv['nw_src_bits'] = a; fv['nw_dst_bits'] = b
        yield m_from_flat(0x0800, 6, M_CTX[0][3], fv)

def match_variants ():
  """A small representative set used as the domain of a container's `match` field."""
  fb = base_vector(M_FREE)
  out = []
  free0 = M_CTX[0][3]
  out.append(m_from_flat(0x0800, 6, free0, fb))
  out.append({})
  for f in free0: out.append(m_from_flat(0x0800, 6, free0, fb, [f]))
  for name, dl, pr, free in match_contexts():
    out.append(m_from_flat(dl, pr, free, fb))
  fv = dict(fb); fv['nw_src_bits'] = 24; fv['nw_dst_bits'] = 1
  out.append(m_from_flat(0x0800, 17, free0, fv))
  fv = dict(fb); fv['nw_src_bits'] = 0
  out.append(m_from_flat(0x0806, 1, M_CTX[4][3], fv))
  seen, res = set(), []
  for m in out:
    if repr(sorted(m.items())) not in seen:
      seen.add(repr(sorted(m.items()))); res.append(m)
  return res

_MV = match_variants()
MATCH = ('enum', _MV[0], _MV[1:])
KINDS['ofp_match'].opts['refv'] = dict(m=_MV[0])

def inconsistent_matches ():
  """Matches naming fields whose prerequisite is absent (the library warns and ignores them):
  the only claim made for these is that encoding does not fail and the lengths agree."""
  fb = base_vector(M_FREE)
  allf = M_CTX[0][3]
  out = []
  for dl, pr in ((None, None), (None, 6), (0x88cc, None), (0x88cc, 6), (0, 17), (0x0806, 1), (0x0806, None),
                 (0x0800, None), (0x0800, 0x59), (0x0800, 0), (0x0800, 132)):      # 132 = SCTP: no transport fields in OpenFlow 1.0
    out.append(m_from_flat(dl, pr, allf, fb))
    for keep in ('nw_tos', 'nw_src', 'nw_dst', 'tp_src', 'tp_dst'):
      out.append(m_from_flat(dl, pr, M_L2 + (keep,), fb))
  res = []
  for m in out:
    d = {}
    for f, x in m.items():
      d[f] = tuple(x) if f in ('nw_src', 'nw_dst') else x
    if not S.match_prereq_consistent(d) and m not in res: res.append(m)
  return res

def match_pair (P, m, flow_mod=False):
  d = sp_match(m)
  return mk_match(P, m), S.match_vals(d), (S.match_dont_care(d) if flow_mod else 0)


# ---------------------------------------------------------------------------------------
# OpenFlow 1.0 actions
# ---------------------------------------------------------------------------------------
def _b_output (P, v):
  o = P.of.ofp_action_output(port=v['port'], max_len=v['max_len'])
  # max_len is only meaningful for OFPP_CONTROLLER; the library documents that pack() "may
  # normalize fields" and zeroes it for every other port (scoping decision, see assumptions)
  ml = v['max_len'] if v['port'] == S.OFPP_CONTROLLER else 0
  return o, (lambda: S.action('OUTPUT', dict(port=v['port'], max_len=ml)))
Kind('ofp_action_output', 'action',
     [('port', ('enum', S.OFPP_CONTROLLER, [0, 1, 0xffff, 0x8000, 0x3e5b])), ('max_len', 'u16')],
     _b_output, ofcls('ofp_action_output'))

simple('ofp_action_enqueue', 'action', None, [('port', 'u16'), ('queue_id', 'u32')],
       wrap=lambda sv, v: S.action('ENQUEUE', sv))
simple('ofp_action_vlan_vid', 'action', None, [('vlan_vid', 'u16')],
       wrap=lambda sv, v: S.action('SET_VLAN_VID', sv))
simple('ofp_action_vlan_pcp', 'action', None, [('vlan_pcp', 'u8')],
       wrap=lambda sv, v: S.action('SET_VLAN_PCP', sv))
simple('ofp_action_nw_tos', 'action', None, [('nw_tos', 'u8')],
       wrap=lambda sv, v: S.action('SET_NW_TOS', sv))
Kind('ofp_action_strip_vlan', 'action', [],
     lambda P, v: (P.of.ofp_action_strip_vlan(), lambda: S.action('STRIP_VLAN')),
     ofcls('ofp_action_strip_vlan'))

def _typed_action (clsname, types, field, ftype):
  names = dict((S.OFPAT[n], n) for n in types)
  def build (P, v):
    o = getattr(P.of, clsname)(v['type'], topox(P, ftype, v[field]))
    return o, (lambda: S.action(names[v['type']], {field: tospec(ftype, v[field])}))
  codes = sorted(names)
  Kind(clsname, 'action', [('type', ('enum', codes[0], codes[1:])), (field, ftype)], build, ofcls(clsname))
_typed_action('ofp_action_dl_addr', ('SET_DL_SRC', 'SET_DL_DST'), 'dl_addr', 'mac')
_typed_action('ofp_action_nw_addr', ('SET_NW_SRC', 'SET_NW_DST'), 'nw_addr', 'ip')
_typed_action('ofp_action_tp_port', ('SET_TP_SRC', 'SET_TP_DST'), 'tp_port', 'u16')

def _b_vendor_action (P, v):
  body = payload(v['body'])
  o = P.of.ofp_action_vendor_generic(vendor=v['vendor'], body=body)
  return o, (lambda: S.action('VENDOR', dict(vendor=v['vendor']), body))
Kind('ofp_action_vendor_generic', 'action', [('vendor', 'u32'), ('body', LEN(8, 0, 16, 24))],
     _b_vendor_action, ofcls('ofp_action_vendor_generic'))

def _b_generic_action (P, v):
  data = payload(v['data'])
  o = P.of.ofp_action_generic(type=v['type'], data=data)
  def exp ():
    if 4 + len(data) > 0xffff: raise S.SpecError("action too long")
    return [('type', struct.pack('!H', v['type'])), ('len', struct.pack('!H', 4 + len(data))), ('data', data)]
  return o, exp
Kind('ofp_action_generic', 'action', [('type', ('enum', 0x7777, [12, 0xfffe, 0x8000])), ('data', LEN(4, 12, 20))],
     _b_generic_action, ofcls('ofp_action_generic'))

# ---------------------------------------------------------------------------------------
# ports, queues
# ---------------------------------------------------------------------------------------
PHY = [('port_no', 'u16'), ('hw_addr', 'mac'), ('name', 's16'), ('config', 'u32'), ('state', 'u32'),
       ('curr', 'u32'), ('advertised', 'u32'), ('supported', 'u32'), ('peer', 'u32')]
simple('ofp_phy_port', 'struct', 'ofp_phy_port', PHY)

def phy_variants (n):
  """n distinct port vectors (deterministic: the first vectors of the 1-deviation lattice)"""
  out = []
  for i, v in enumerate(KINDS['ofp_phy_port'].lattice(1)):
    if i % 3 == 0: out.append(['ofp_phy_port', v])
    if len(out) == n: break
  return out

simple('ofp_queue_prop_min_rate', 'qprop', None, [('rate', 'u16')],
       wrap=lambda sv, v: S.queue_prop_min_rate(sv['rate']))
Kind('ofp_queue_prop_none', 'qprop', [],
     lambda P, v: (P.of.ofp_queue_prop_none(), lambda: S.queue_prop_none()), ofcls('ofp_queue_prop_none'))
def _b_qprop_generic (P, v):
  data = payload(v['data'])
  o = P.of.ofp_queue_prop_generic(property=v['property'], data=data)
  return o, (lambda: [('property', struct.pack('!H', v['property'])), ('len', struct.pack('!H', 4 + len(data))), ('data', data)])
Kind('ofp_queue_prop_generic', 'qprop', [('property', ('enum', 0x7777, [2, 0xffff])), ('data', LEN(4, 12))],
     _b_qprop_generic, ofcls('ofp_queue_prop_generic'))

def prop_lists ():
  mr = lambda r: ['ofp_queue_prop_min_rate', {'rate': r}]
  return [[mr(0x1234)], [], [mr(0), mr(0xffff)], [mr(1), mr(0x8000), mr(0x4321)]]
_PL = prop_lists()

def _b_queue (P, v):
  props, pexp, strict = sublist(P, v['properties'], 'properties')
  o = P.of.ofp_packet_queue(queue_id=v['queue_id'], properties=props)
  def exp ():
    pp = pexp()
    return S.enc('ofp_packet_queue', dict(queue_id=v['queue_id'], len=8 + S.plen(pp))) + pp
  return o, exp
Kind('ofp_packet_queue', 'struct', [('queue_id', 'u32'), ('properties', ('enum', _PL[0], _PL[1:]))],
     _b_queue, ofcls('ofp_packet_queue'))

def queue_lists ():
  q = lambda i, pl: ['ofp_packet_queue', {'queue_id': i, 'properties': pl}]
  return [[q(0x11223344, _PL[0])], [], [q(0, _PL[1]), q(0xffffffff, _PL[2])],
          [q(1, _PL[3]), q(0x80000000, _PL[0]), q(7, _PL[1])]]
_QL = queue_lists()

# ---------------------------------------------------------------------------------------
# action list variants used as the domain of a container's `actions` field
# ---------------------------------------------------------------------------------------
def atom (name, **over):
  return [name, KINDS[name].basev(**over)]

def action_atoms (nicira=True):
  a = [atom('ofp_action_output'), atom('ofp_action_output', port=0x3e5b),
       atom('ofp_action_vlan_vid'), atom('ofp_action_vlan_pcp'), atom('ofp_action_strip_vlan'),
       atom('ofp_action_dl_addr', type=4), atom('ofp_action_dl_addr', type=5),
       atom('ofp_action_nw_addr', type=6), atom('ofp_action_nw_addr', type=7),
       atom('ofp_action_nw_tos'), atom('ofp_action_tp_port', type=9), atom('ofp_action_tp_port', type=10),
       atom('ofp_action_enqueue'), atom('ofp_action_vendor_generic'), atom('ofp_action_generic')]
  if nicira: a.append(atom('nx_action_resubmit'))
  return a

def action_seqs (maxlen, nicira=True):
  A = action_atoms(nicira)
  out = [[]]
  frontier = [[]]
  for _ in range(maxlen):
    frontier = [s + [a] for s in frontier for a in A]
    out.extend(frontier)
  return out


# ---------------------------------------------------------------------------------------
# Nicira actions
# ---------------------------------------------------------------------------------------
NXC = lambda base: ('enum', base, [x for x in ('NXM_NX_REG3', 'NXM_OF_ETH_DST', 'NXM_NX_TUN_ID', 'NXM_OF_IN_PORT') if x != base])
def nxbits (name): return 8 * S.NXM_FIELDS[name][2]

def nxa (clsname, sname, subtype, fields, tospec_=None, **opts):
  """Nicira action whose pox attribute names equal the nicira-ext.h field names
  (sname None: no layout claim, the other clauses still apply)."""
  def build (P, v):
    kw = dict((f, (getattr(P.nx, v[f]) if isinstance(t, tuple) and str(t[1]).startswith(('NXM_', 'OXM_')) else v[f]))
              for f, t in fields)
    o = getattr(P.nx, clsname)(**kw)
    if sname is None: return o, None
    def exp ():
      sv = tospec_(v) if tospec_ else dict((f, v[f]) for f, t in fields)
      st = sv.pop('subtype', subtype)
      return S.nx_action(sname, st, sv)
    return o, exp
  return Kind(opts.pop('name', clsname), 'nxaction', fields, build, nxcls(clsname), **opts)

nxa('nx_action_resubmit', 'nx_action_resubmit', None,
    [('subtype', ('enum', S.NXAST['RESUBMIT'], [S.NXAST['RESUBMIT_TABLE']])), ('in_port', 'u16'), ('table', 'u8')])
nxa('nx_action_set_tunnel', 'nx_action_set_tunnel', S.NXAST['SET_TUNNEL'], [('tun_id', 'u32')])
nxa('nx_action_set_tunnel64', 'nx_action_set_tunnel64', S.NXAST['SET_TUNNEL64'], [('tun_id', 'u64')])
nxa('nx_reg_move', 'nx_action_reg_move', S.NXAST['REG_MOVE'],
    [('nbits', 'u16'), ('src_ofs', 'u16'), ('dst_ofs', 'u16'), ('src', NXC('NXM_NX_REG3')), ('dst', NXC('NXM_OF_ETH_DST'))],
    lambda v: dict(n_bits=v['nbits'], src_ofs=v['src_ofs'], dst_ofs=v['dst_ofs'],
                   src=S.nxm_field_header(v['src']), dst=S.nxm_field_header(v['dst'])))
OFS = ('enum', 0x155, [0, 1, 1023, 512])
NBITS = ('enum', 43, [1, 2, 64, 32])
nxa('nx_reg_load', 'nx_action_reg_load', S.NXAST['REG_LOAD'],
    [('offset', OFS), ('nbits', NBITS), ('dst', NXC('NXM_NX_REG3')), ('value', 'u64')],
    lambda v: dict(ofs_nbits=v['offset'] << 6 | (v['nbits'] - 1), dst=S.nxm_field_header(v['dst']), value=v['value']))
nxa('nx_reg_load', 'nx_action_reg_load', S.NXAST['REG_LOAD'],
    [('offset', ('enum', 3, [0, 1, 15])), ('nbits', ('enum', None, [])), ('dst', NXC('NXM_NX_REG3')), ('value', 'u64')],
    lambda v: dict(ofs_nbits=v['offset'] << 6 | (nxbits(v['dst']) - v['offset'] - 1), dst=S.nxm_field_header(v['dst']), value=v['value']),
    name='nx_reg_load/nbits-inferred')
nxa('nx_output_reg', 'nx_action_output_reg', S.NXAST['OUTPUT_REG'],
    [('offset', OFS), ('nbits', NBITS), ('reg', NXC('NXM_NX_TUN_ID')), ('max_len', 'u16')],
    lambda v: dict(ofs_nbits=v['offset'] << 6 | (v['nbits'] - 1), src=S.nxm_field_header(v['reg']), max_len=v['max_len']))
nxa('nx_action_controller', 'nx_action_controller', S.NXAST['CONTROLLER'],
    [('max_len', 'u16'), ('controller_id', 'u16'), ('reason', 'u8')])
nxa('nx_action_fin_timeout', 'nx_action_fin_timeout', S.NXAST['FIN_TIMEOUT'],
    [('fin_idle_timeout', 'u16'), ('fin_hard_timeout', 'u16')])
nxa('nx_action_exit', 'nx_action_header', S.NXAST['EXIT'], [])
nxa('nx_action_dec_ttl', 'nx_action_header', S.NXAST['DEC_TTL'], [])
nxa('nx_action_push_mpls', None, None, [('ethertype', 'u16')])
nxa('nx_action_pop_mpls', None, None, [('ethertype', 'u16')])
nxa('nx_action_mpls_label', None, None, [('label', 'u32')])
nxa('nx_action_mpls_tc', None, None, [('tc', 'u8')])

def _b_bundle (P, v):
  kw = dict(algorithm=v['algorithm'], fields=v['fields'], basis=v['basis'],
            slaves=[P.nx.NXM_OF_IN_PORT(x) for x in v['slaves']])
  if v['load']:
    kw.update(load=True, dst=getattr(P.nx, v['load'][0]), offset=v['load'][1], nbits=v['load'][2])
  return P.nx.nx_action_bundle(**kw), None
Kind('nx_action_bundle', 'nxaction',
     [('algorithm', 'u16'), ('fields', 'u16'), ('basis', 'u16'),
      ('slaves', ('enum', [1, 2, 3, 4], [[], [5], [1, 2], [1, 2, 3, 4, 5, 6, 7, 8]])),
      ('load', ('enum', None, [['NXM_NX_REG0', 0, 16], ['NXM_NX_REG3', 4, 8]]))],
     _b_bundle, nxcls('nx_action_bundle'))

# learn: flow_mod_spec atoms  {src: [...], dst: [...], n_bits: n}
def _sp (src, dst, n): return dict(src=src, dst=dst, n_bits=n)
LEARN_SPECS = [
  _sp(['field', 'NXM_OF_VLAN_TCI', 0], ['match', 'NXM_OF_VLAN_TCI', 0], 12),
  _sp(['field', 'NXM_OF_ETH_SRC', 0], ['match', 'NXM_OF_ETH_DST', 0], 48),
  _sp(['field', 'NXM_OF_IN_PORT', 0], ['output'], 16),
  _sp(['imm', '0800', 16], ['match', 'NXM_OF_ETH_TYPE', 0], 16),
  _sp(['imm', 'c0a80001', 32], ['load', 'NXM_NX_REG1', 0], 32),
  _sp(['field', 'NXM_NX_REG0', 4], ['load', 'NXM_NX_REG2', 16], 8),
  _sp(['field', 'NXM_NX_TUN_ID', 0], ['load', 'NXM_NX_TUN_ID', 0], 40),
]

def mk_learn_spec (P, s):
  nx = P.nx
  n = s['n_bits']
  if s['src'][0] == 'field': src = nx.nx_learn_src_field(getattr(nx, s['src'][1]), s['src'][2], n)
  else: src = nx.nx_learn_src_immediate(bytes.fromhex(s['src'][1]), n)
  d = s['dst']
  if d[0] == 'match': dst = nx.nx_learn_dst_match(getattr(nx, d[1]), d[2], n)
  elif d[0] == 'load': dst = nx.nx_learn_dst_load(getattr(nx, d[1]), d[2], n)
  else: dst = nx.nx_learn_dst_output()
  return nx.flow_mod_spec(src, dst, n)

def sp_learn_spec (s):
  src = ('field', s['src'][1], s['src'][2]) if s['src'][0] == 'field' else ('imm', bytes.fromhex(s['src'][1]))
  return S.learn_spec(src, tuple(s['dst']), s['n_bits'])

LEARN_F = [('idle_timeout', 'u16'), ('hard_timeout', 'u16'), ('priority', 'u16'), ('cookie', 'u64'),
           ('flags', 'u16'), ('table_id', 'u8'), ('fin_idle_timeout', 'u16'), ('fin_hard_timeout', 'u16')]
def _b_learn (P, v):
  o = P.nx.nx_action_learn(**dict((f, v[f]) for f, t in LEARN_F))
  for s in v['spec']: o.spec.append(mk_learn_spec(P, s))
  def exp ():
    tail = b''.join(sp_learn_spec(s) for s in v['spec'])
    tail += b'\0' * S.pad8(S.sizeof('nx_action_learn') + len(tail))
    return S.nx_action('nx_action_learn', S.NXAST['LEARN'], dict((f, v[f]) for f, t in LEARN_F), tail)
  return o, exp
Kind('nx_action_learn', 'nxaction',
     LEARN_F + [('spec', ('enum', LEARN_SPECS[:3], [[], LEARN_SPECS[3:5], LEARN_SPECS[5:6]]))],
     _b_learn, nxcls('nx_action_learn'))

def learn_spec_seqs (maxlen):
  out, frontier = [[]], [[]]
  for _ in range(maxlen):
    frontier = [s + [a] for s in frontier for a in LEARN_SPECS]
    out.extend(frontier)
  return out

# ---------------------------------------------------------------------------------------
# NXM entries and nx_match
# ---------------------------------------------------------------------------------------
def nxm_family (P, cls):
  nx = P.nx
  if issubclass(cls, nx._nxm_ether): return 'ether'
  if issubclass(cls, nx._nxm_ipv6): return 'ip6'
  if issubclass(cls, nx._nxm_ip): return 'ip'
  if issubclass(cls, nx._nxm_numeric): return 'num'
  return 'raw'

def nxm_val (P, fam, raw):
  if fam == 'ether': return P.EthAddr(raw)
  if fam == 'ip': return P.IPAddr(raw)
  if fam == 'ip6': return P.IPAddr6.from_raw(raw)
  if fam == 'num': return int.from_bytes(raw, 'big')
  return raw

def cidr_mask (nbytes, bits):
  bits = max(0, min(bits, 8 * nbytes))
  return ((((1 << bits) - 1) << (8 * nbytes - bits))).to_bytes(nbytes, 'big')

def mk_nxm (P, e):
  cls = getattr(P.nx, e['cls'])
  fam = nxm_family(P, cls)
  val = bytes.fromhex(e['value'])
  m = e.get('mask')
  if m is None: return cls(nxm_val(P, fam, val)), None
  if isinstance(m, int):
    return cls(nxm_val(P, fam, val), m), cidr_mask(len(val), m)
  mb = bytes.fromhex(m)
  return cls(nxm_val(P, fam, val), nxm_val(P, fam, mb)), mb

def _b_nxm (P, v):
  o, mb = mk_nxm(P, v)
  ones = mb is not None and mb == b'\xff' * len(mb)
  exp = None
  if v['cls'] in S.NXM_FIELDS:
    exp = lambda: S.nxm_entry(v['cls'], bytes.fromhex(v['value']), mb)
  # an all-ones mask is equivalent to no mask and is not sent: field-wise equality treats the
  # two as equal, the library's == (which does not) is not consulted for that case
  return o, exp, dict(libeq=not ones)
Kind('nxm_entry', 'nxm', [], _b_nxm, lambda P: None)

def nxm_sweep (P, thorough):
  """every registered NXM class x boundary values x {no mask, all-ones, zero, partial, CIDR}"""
  nx = P.nx
  for name in sorted(nx._nxm_name_to_type):
    cls = nx._nxm_type_to_class[nx._nxm_name_to_type[name]]
    n = cls._nxm_length
    fam = nxm_family(P, cls)
    vals = [fpbytes(3, n), b'\0' * n, b'\0' * (n - 1) + b'\1', b'\xff' * n, b'\x80' + b'\0' * (n - 1)]
    for val in vals:
      yield dict(cls=name, value=val.hex(), mask=None)
    if not cls().allow_mask: continue
    masks = [b'\xff' * n, b'\0' * n, bytes(((0xf0 if i % 2 == 0 else 0x3c) for i in range(n))),
             b'\xff' * (n // 2) + b'\0' * (n - n // 2), b'\0' * (n - 1) + b'\x01']
    if issubclass(cls, nx._nxm_tcp_flags):
      masks = [b'\x0f\xff' if m == b'\xff' * n else bytes([m[0] & 0x0f]) + m[1:] for m in masks]
    for val in vals:
      for m in masks:
        mv = bytes(a & b for a, b in zip(val, m))
        yield dict(cls=name, value=mv.hex(), mask=m.hex())
    if fam in ('ip', 'ip6'):
      for bits in ([0, 1, 8 * n // 2, 8 * n - 1, 8 * n] if not thorough else range(8 * n + 1)):
        for val in vals[:3 if not thorough else 5]:
          mv = bytes(a & b for a, b in zip(val, cidr_mask(n, bits)))
          yield dict(cls=name, value=mv.hex(), mask=bits)

def _b_nxmatch (P, v):
  ents, mbs = [], []
  for e in v['parts']:
    o, mb = mk_nxm(P, e); ents.append(o); mbs.append(mb)
  m = P.nx.nx_match(*ents)
  def exp ():
    out = []
    for i, (e, mb) in enumerate(zip(v['parts'], mbs)):
      out.extend(S.nxm_entry(e['cls'], bytes.fromhex(e['value']), mb, 'parts[%d]:nxm_entry.' % i))
    return out
  return m, exp
Kind('nx_match', 'nxmatch', [], _b_nxmatch, nxcls('nx_match'))

# wire-origin NXM forms (the reference encoder keeps an explicit all-ones mask)
def wire_nxm (e, path=''):
  m = e.get('mask')
  return S.nxm_entry(e['cls'], bytes.fromhex(e['value']), None if m is None else bytes.fromhex(m), path, explicit=True)

Kind('nxm_entry/wire', 'wire', [], lambda P, v: wire_nxm(v), lambda P: None, carrier='nxm', owner='nxm_entry')
Kind('nx_match/wire', 'wire', [], lambda P, v: [x for i, e in enumerate(v['parts']) for x in wire_nxm(e, 'parts[%d]:nxm_entry.' % i)], nxcls('nx_match'),
     carrier='nxmatch', owner='nx_match')

def wire_nxm_forms (P, thorough):
  """every registered NXM class x values x wire mask forms {none, all-ones, zero, partial...}"""
  nx = P.nx
  for name in sorted(nx._nxm_name_to_type):
    if name not in S.NXM_FIELDS: continue
    cls = nx._nxm_type_to_class[nx._nxm_name_to_type[name]]
    n = cls._nxm_length
    vals = [fpbytes(5, n), b'\0' * n, b'\xff' * n]
    if thorough: vals += [b'\0' * (n - 1) + b'\1', b'\x80' + b'\0' * (n - 1)]
    for val in vals:
      yield dict(cls=name, value=val.hex(), mask=None)
    if not cls().allow_mask: continue
    masks = [b'\xff' * n, b'\0' * n, b'\xff' * (n - 1) + b'\xf0', bytes(((0xf0 if i % 2 == 0 else 0x3c) for i in range(n)))]
    if issubclass(cls, nx._nxm_tcp_flags):
      masks = [b'\x0f\xff', b'\0\0', b'\x0f\x0f']     # the all-ones form of a 12-bit field is not claimed
    for val in vals:
      for m in masks:
        yield dict(cls=name, value=bytes(a & b for a, b in zip(val, m)).hex(), mask=m.hex())

def wire_match_lists (P, thorough):
  forms = [e for e in wire_nxm_forms(P, False) if e['value'] != '00' * (len(e['value']) // 2) or e['mask'] is None]
  ones = [e for e in forms if e['mask'] is not None and set(e['mask']) == {'f'}]
  for e in forms: yield [e]
  keep = ones[::3] if not thorough else ones
  for i, a in enumerate(keep):
    b = keep[(i + 1) % len(keep)]
    if a['cls'] != b['cls']:
      yield [a, b]
      yield [dict(cls='NXM_OF_IN_PORT', value='0007', mask=None), a, b]

def nxm_parts ():
  e = lambda c, v, m=None: dict(cls=c, value=v, mask=m)
  return [e('NXM_OF_IN_PORT', '0007'), e('NXM_OF_ETH_TYPE', '0800'), e('NXM_OF_ETH_DST', '0123456789ab'),
          e('NXM_OF_ETH_SRC', '010000000000', '010000000000'), e('NXM_OF_IP_SRC', '0a010200', 24),
          e('NXM_OF_IP_PROTO', '06'), e('NXM_OF_TCP_DST', '0050'), e('NXM_NX_REG1', '0000beef', '0000ffff'),
          e('NXM_NX_TUN_ID', '0000000000abcdef'), e('NXM_OF_VLAN_TCI', '1005', '1fff')]

def nxmatch_lists (maxlen):
  A = nxm_parts()
  out, frontier = [[]], [[]]
  for _ in range(maxlen):
    frontier = [s + [a] for s in frontier for a in A if a['cls'] not in [x['cls'] for x in s]]
    out.extend(frontier)
  return out


# ---------------------------------------------------------------------------------------
# container field domains (defined after all action kinds exist)
# ---------------------------------------------------------------------------------------
_AA = action_atoms()
ACTS = ('enum', [_AA[0], _AA[7]], [[]] + [[a] for a in _AA] + [[_AA[12], _AA[1], _AA[5]]])
_PV = phy_variants(3)
PORTS = ('enum', _PV[:1], [[], _PV[:2], _PV[:3]])

# ---------------------------------------------------------------------------------------
# OpenFlow 1.0 messages
# ---------------------------------------------------------------------------------------
for _n, _t in (('ofp_hello', 'HELLO'), ('ofp_features_request', 'FEATURES_REQUEST'),
               ('ofp_get_config_request', 'GET_CONFIG_REQUEST'), ('ofp_barrier_request', 'BARRIER_REQUEST'),
               ('ofp_barrier_reply', 'BARRIER_REPLY')):
  simple(_n, 'msg', None, [], wrap=msgwrap('ofp_hello', S.OFPT[_t]))

def _payload_msg (clsname, sname, mtype, fields, pfield, base_len=20):
  fl = HDR + fields + [(pfield, LEN(base_len, 0, 1, 7, 8, 1500))]
  def build (P, v):
    kw = hkw(v)
    for f, t in fields: kw[f] = v[f]
    data = payload(v[pfield])
    kw[pfield] = data
    o = getattr(P.of, clsname)(**kw)
    def exp ():
      sv = dict((f, v[f]) for f, t in fields); sv['header'] = hsp(v, mtype)
      return S.message(sname, sv, S.raw(pfield, data))
    return o, exp
  Kind(clsname, 'msg', fl, build, ofcls(clsname), payload=pfield)
_payload_msg('ofp_echo_request', 'ofp_echo', S.OFPT['ECHO_REQUEST'], [], 'body')
_payload_msg('ofp_echo_reply', 'ofp_echo', S.OFPT['ECHO_REPLY'], [], 'body')
_payload_msg('ofp_error', 'ofp_error_msg', S.OFPT['ERROR'], [('type', 'u16'), ('code', 'u16')], 'data')
_payload_msg('ofp_vendor_generic', 'ofp_vendor_header', S.OFPT['VENDOR'], [('vendor', 'u32')], 'data')

simple('ofp_get_config_reply', 'msg', None, [('flags', 'u16'), ('miss_send_len', 'u16')],
       wrap=msgwrap('ofp_switch_config', S.OFPT['GET_CONFIG_REPLY']))
simple('ofp_set_config', 'msg', None, [('flags', 'u16'), ('miss_send_len', 'u16')],
       wrap=msgwrap('ofp_switch_config', S.OFPT['SET_CONFIG']))
simple('ofp_port_mod', 'msg', None,
       [('port_no', 'u16'), ('hw_addr', 'mac'), ('config', 'u32'), ('mask', 'u32'), ('advertise', 'u32')],
       wrap=msgwrap('ofp_port_mod', S.OFPT['PORT_MOD']))
simple('ofp_queue_get_config_request', 'msg', None, [('port', 'u16')],
       wrap=msgwrap('ofp_queue_get_config_request', S.OFPT['QUEUE_GET_CONFIG_REQUEST']))

FEAT = [('datapath_id', 'u64'), ('n_buffers', 'u32'), ('n_tables', 'u8'), ('capabilities', 'u32'), ('actions', 'u32')]
def _b_features (P, v):
  ports, pexp, _ = sublist(P, v['ports'], 'ports')
  kw = hkw(v); kw.update((f, v[f]) for f, t in FEAT); kw['ports'] = ports
  o = P.of.ofp_features_reply(**kw)
  def exp ():
    sv = dict((f, v[f]) for f, t in FEAT); sv['header'] = hsp(v, S.OFPT['FEATURES_REPLY'])
    return S.message('ofp_switch_features', sv, pexp())
  return o, exp
Kind('ofp_features_reply', 'msg', HDR + FEAT + [('ports', PORTS)], _b_features, ofcls('ofp_features_reply'))

def _b_port_status (P, v):
  pv = dict((f, v['desc.' + f]) for f, t in PHY)
  desc, dexp = KINDS['ofp_phy_port'].build(P, pv)
  o = P.of.ofp_port_status(reason=v['reason'], desc=desc, **hkw(v))
  def exp ():
    sv = dict(header=hsp(v, S.OFPT['PORT_STATUS']), reason=v['reason'],
              desc=dict((f, tospec(t, pv[f])) for f, t in PHY))
    return S.message('ofp_port_status', sv)
  return o, exp
Kind('ofp_port_status', 'msg', HDR + [('reason', 'u8')] + [('desc.' + f, t) for f, t in PHY],
     _b_port_status, ofcls('ofp_port_status'))

def _b_packet_in (P, v):
  data = payload(v['data'])
  if v['total_len'] is not None and data and v['total_len'] < len(data):
    raise OutOfScope("total_len < len(data) is refused by the library's validation")
  kw = hkw(v)
  kw.update(buffer_id=v['buffer_id'], total_len=v['total_len'], in_port=v['in_port'], reason=v['reason'], data=data)
  o = P.of.ofp_packet_in(**kw)
  def exp ():
    sv = dict(header=hsp(v, S.OFPT['PACKET_IN']), buffer_id=bufspec(v['buffer_id']),
              total_len=len(data) if v['total_len'] is None else v['total_len'],
              in_port=v['in_port'], reason=v['reason'])
    return S.message('ofp_packet_in', sv, S.raw('data', data))
  return o, exp
Kind('ofp_packet_in', 'msg',
     HDR + [('buffer_id', BUF), ('total_len', ('enum', 0x9c41, [0, 1, 0xffff, 0x8000, None])), ('in_port', 'u16'),
            ('reason', 'u8'), ('data', LEN(20, 0, 1, 2, 1500))],
     _b_packet_in, ofcls('ofp_packet_in'), payload='data')

FREM = [('cookie', 'u64'), ('priority', 'u16'), ('reason', 'u8'), ('duration_sec', 'u32'), ('duration_nsec', 'u32'),
        ('idle_timeout', 'u16'), ('packet_count', 'u64'), ('byte_count', 'u64')]
def _b_flow_removed (P, v):
  m, mv, _ = match_pair(P, v['match'])
  kw = hkw(v); kw.update((f, v[f]) for f, t in FREM); kw['match'] = m
  o = P.of.ofp_flow_removed(**kw)
  def exp ():
    sv = dict((f, v[f]) for f, t in FREM); sv.update(header=hsp(v, S.OFPT['FLOW_REMOVED']), match=mv)
    return S.message('ofp_flow_removed', sv)
  return o, exp
Kind('ofp_flow_removed', 'msg', HDR + [('match', MATCH)] + FREM, _b_flow_removed, ofcls('ofp_flow_removed'))

def _b_packet_out (P, v):
  data = payload(v['data'])
  if v['buffer_id'] not in (None, S.OFP_NO_BUFFER) and data:
    raise OutOfScope("buffer_id and data together are refused by the library's validation")
  acts, aexp, strict = sublist(P, v['actions'], 'actions')
  o = P.of.ofp_packet_out(buffer_id=v['buffer_id'], in_port=v['in_port'], actions=acts, data=data, **hkw(v))
  def exp ():
    ap = aexp()
    if S.plen(ap) > 0xffff: raise S.SpecError("actions_len")
    sv = dict(header=hsp(v, S.OFPT['PACKET_OUT']), buffer_id=bufspec(v['buffer_id']), in_port=v['in_port'],
              actions_len=S.plen(ap))
    return S.message('ofp_packet_out', sv, ap + S.raw('data', data))
  return o, exp, dict(eq=strict)
Kind('ofp_packet_out/data', 'msg',
     HDR + [('buffer_id', ('enum', None, [0xffffffff])), ('in_port', 'u16'), ('actions', ACTS), ('data', LEN(20, 0, 1, 2, 1500))],
     _b_packet_out, ofcls('ofp_packet_out'), payload='data')
Kind('ofp_packet_out/buffered', 'msg',
     HDR + [('buffer_id', BUF), ('in_port', 'u16'), ('actions', ACTS), ('data', LEN(0))],
     _b_packet_out, ofcls('ofp_packet_out'))

FMOD = [('cookie', 'u64'), ('command', 'u16'), ('idle_timeout', 'u16'), ('hard_timeout', 'u16'), ('priority', 'u16'),
        ('buffer_id', BUF), ('out_port', 'u16'), ('flags', 'u16')]
def _b_flow_mod (P, v):
  m, mv, dc = match_pair(P, v['match'], flow_mod=True)
  acts, aexp, strict = sublist(P, v['actions'], 'actions')
  kw = hkw(v); kw.update((f, v[f]) for f, t in FMOD); kw.update(match=m, actions=acts)
  o = P.of.ofp_flow_mod(**kw)
  def exp ():
    sv = dict((f, v[f]) for f, t in FMOD)
    sv.update(header=hsp(v, S.OFPT['FLOW_MOD']), match=mv, buffer_id=bufspec(v['buffer_id']))
    return S.message('ofp_flow_mod', sv, aexp())
  return o, exp, dict(eq=strict, dont_care=dc)
Kind('ofp_flow_mod', 'msg', HDR + [('match', MATCH)] + FMOD + [('actions', ACTS)], _b_flow_mod, ofcls('ofp_flow_mod'))

def _b_flow_mod_inconsistent (P, v):
  m = mk_match(P, v['match'])
  acts, aexp, strict = sublist(P, v['actions'], 'actions')
  kw = hkw(v); kw.update((f, v[f]) for f, t in FMOD); kw.update(match=m, actions=acts)
  # no layout / equality / re-encoding claim: ignored fields are dropped by design
  return P.of.ofp_flow_mod(**kw), None, dict(eq=False, reencode=False)
_IM = inconsistent_matches()
Kind('ofp_flow_mod/inconsistent-match', 'msg', HDR + [('match', ('enum', _IM[0], _IM[1:]))] + FMOD + [('actions', ACTS)],
     _b_flow_mod_inconsistent, ofcls('ofp_flow_mod'), owner='ofp_flow_mod/inconsistent-match')

# ---------------------------------------------------------------------------------------
# secondary forms: the other ways the library offers to build the same messages
#   data=<ofp_packet_in>   ofp_flow_mod ("install this flow and apply it to the packet I got", as
#                          l2_learning does) and ofp_packet_out ("re-send this packet"): the buffer id,
#                          in_port and - when the packet was not buffered - the data are taken from
#                          the packet_in, over the boundary values of the packet_in's fields
#   data=<packet object>   ofp_packet_out / ofp_packet_in given a pox.lib.packet object
#   data/body=<object with pack()>   vendor message / vendor action / vendor + generic stats bodies
#   address given as 6 raw bytes instead of EthAddr (ofp_phy_port, ofp_port_mod, ofp_action_dl_addr)
#   action=<list>, action=<one action>, actions=<one action> constructor synonyms
# ---------------------------------------------------------------------------------------
OFPP_TABLE = 0xfff9
FMOD_NB = [(f, t) for f, t in FMOD if f != 'buffer_id']
PI_F = [('pi.buffer_id', BUF), ('pi.in_port', 'u16'), ('pi.data', LEN(20, 0, 1, 1500)),
        ('pi.truncated', ('enum', False, [True])), ('pi.origin', ('enum', 'constructed', ['decoded', 'nxt_packet_in'])),
        ('route', ('enum', 'kw', ['attr']))]

def pi_buffered (v): return v['pi.buffer_id'] not in (None, S.OFP_NO_BUFFER)

def mk_pi (P, v):
  """the packet_in a controller holds: built by a caller, or decoded from the wire"""
  data = payload(v['pi.data'])
  total = len(data) + (36 if v['pi.truncated'] else 0)
  if v['pi.origin'] == 'decoded':
    raw = S.join(S.message('ofp_packet_in', dict(header=dict(version=S.OFP_VERSION, xid=0x01020304, type=S.OFPT['PACKET_IN']),
                                                 buffer_id=bufspec(v['pi.buffer_id']), total_len=total, in_port=v['pi.in_port'], reason=1),
                           S.raw('data', data)))
    return P.of.ofp_packet_in.unpack_new(raw)[1], data
  kw = dict(xid=0x01020304, buffer_id=v['pi.buffer_id'], in_port=v['pi.in_port'], reason=1, data=data)
  if v['pi.truncated']: kw['total_len'] = total
  if v['pi.origin'] == 'nxt_packet_in':
    # the Nicira packet-in (a subclass of ofp_packet_in; what handlers get with convert_packet_in): in_port is in its match
    del kw['in_port']
    pi = P.nx.nxt_packet_in(**kw)
    pi.match.append(P.nx.NXM_OF_IN_PORT(v['pi.in_port']))
    return pi, data
  return P.of.ofp_packet_in(**kw), data

def flow_mod_tail (tail, in_port, data):
  """What ofp_flow_mod.pack() documents for data=<unbuffered, complete packet_in>: the flow_mod is
  followed by a barrier request and a packet_out that carries the packet.  Demanded: exactly these two
  messages, each with its header length = its byte count, the packet_out unbuffered, from the
  packet_in's in_port, with the packet_in's data (its actions and the xids are the library's choice).
  -> None | (field, text)"""
  offs = n_messages(tail)
  lens = [struct.unpack_from('!H', tail, o + 2)[0] for o in offs]
  if len(offs) != 2 or offs[-1] + lens[-1] != len(tail):
    return 'framing', "%d bytes follow the flow_mod; their header length fields frame %d message(s) %s, documented: a barrier request and a packet_out" % (
      len(tail), len(offs), [tail[o + 1] for o in offs])
  bar, po = tail[:lens[0]], tail[offs[1]:]
  if bar[:4] != struct.pack('!BBH', S.OFP_VERSION, S.OFPT['BARRIER_REQUEST'], 8):
    return 'barrier', "the message behind the flow_mod starts %s, not a barrier request" % bar[:4].hex()
  if po[:2] != struct.pack('!BB', S.OFP_VERSION, S.OFPT['PACKET_OUT']) or len(po) < 16:
    return 'packet_out', "the last message starts %s, not a packet_out" % po[:4].hex()
  bid, inp, alen = struct.unpack_from('!LHH', po, 8)
  if bid != S.OFP_NO_BUFFER: return 'packet_out.buffer_id', "the packet_out for an unbuffered packet names buffer 0x%x" % bid
  if inp != in_port: return 'packet_out.in_port', "the packet_out has in_port %d, the packet_in %d" % (inp, in_port)
  if 16 + alen > len(po) or po[16 + alen:] != data:
    return 'packet_out.data', "the packet_out carries %d data bytes behind %d bytes of actions, the packet_in %d" % (len(po) - 16 - alen, alen, len(data))
  return None

def _b_flow_mod_data (P, v):
  m, mv, dc = match_pair(P, v['match'], flow_mod=True)
  acts, aexp, strict = sublist(P, v['actions'], 'actions')
  pi, data = mk_pi(P, v)
  kw = hkw(v); kw.update((f, v[f]) for f, t in FMOD_NB); kw.update(match=m, actions=acts)
  if v['route'] == 'kw': o = P.of.ofp_flow_mod(data=pi, **kw)
  else:
    o = P.of.ofp_flow_mod(**kw); o.data = pi
  buffered = pi_buffered(v)
  def exp ():
    sv = dict((f, v[f]) for f, t in FMOD_NB)
    sv.update(header=hsp(v, S.OFPT['FLOW_MOD']), match=mv, buffer_id=v['pi.buffer_id'] if buffered else S.OFP_NO_BUFFER)
    return S.message('ofp_flow_mod', sv, aexp())
  # the decoded flow_mod cannot carry the packet_in (`data` is not on the wire and takes part in ==)
  flags = dict(eq=False, view=False, dont_care=dc)
  if not buffered and not v['pi.truncated']:
    flags['tail'] = lambda tail: flow_mod_tail(tail, v['pi.in_port'], data)
  return o, exp, flags
Kind('ofp_flow_mod/data=packet_in', 'msg', HDR + [('match', MATCH)] + FMOD_NB + PI_F + [('actions', ACTS)], _b_flow_mod_data,
     ofcls('ofp_flow_mod'), owner='ofp_flow_mod/data=packet_in', noreuse=True, first_only=True)

def _b_packet_out_pi (P, v):
  buffered = pi_buffered(v)
  if not buffered and v['pi.truncated']:
    raise OutOfScope("re-sending a truncated unbuffered packet_in is refused by the library (assert data.is_complete)")
  acts, aexp, strict = sublist(P, v['actions'], 'actions')
  pi, data = mk_pi(P, v)
  if v['route'] == 'kw': o = P.of.ofp_packet_out(data=pi, actions=acts, **hkw(v))
  else:
    o = P.of.ofp_packet_out(actions=acts, **hkw(v)); o.data = pi
  def exp ():
    ap = aexp()
    sv = dict(header=hsp(v, S.OFPT['PACKET_OUT']), buffer_id=v['pi.buffer_id'] if buffered else S.OFP_NO_BUFFER,
              in_port=v['pi.in_port'], actions_len=S.plen(ap))
    return S.message('ofp_packet_out', sv, ap + S.raw('data', b'' if buffered else data))
  return o, exp, dict(eq=strict)
Kind('ofp_packet_out/data=packet_in', 'msg', HDR + PI_F + [('actions', ACTS)], _b_packet_out_pi, ofcls('ofp_packet_out'),
     owner='ofp_packet_out/data=packet_in', noreuse=True)

ETH_DST, ETH_SRC, ETH_TYPE = fpbytes(40, 6), fpbytes(41, 6), 0x88b5
def mk_eth (P, n):
  import pox.lib.packet as pkt
  e = pkt.ethernet(dst=P.EthAddr(ETH_DST), src=P.EthAddr(ETH_SRC), type=ETH_TYPE)
  e.payload = payload(n)
  return e, ETH_DST + ETH_SRC + struct.pack('!H', ETH_TYPE) + payload(n)

def _b_packet_out_eth (P, v):
  acts, aexp, strict = sublist(P, v['actions'], 'actions')
  e, raw = mk_eth(P, v['frame'])
  if v['route'] == 'kw': o = P.of.ofp_packet_out(in_port=v['in_port'], actions=acts, data=e, **hkw(v))
  else:
    o = P.of.ofp_packet_out(in_port=v['in_port'], actions=acts, **hkw(v)); o.data = e
  def exp ():
    ap = aexp()
    sv = dict(header=hsp(v, S.OFPT['PACKET_OUT']), buffer_id=S.OFP_NO_BUFFER, in_port=v['in_port'], actions_len=S.plen(ap))
    return S.message('ofp_packet_out', sv, ap + S.raw('data', raw))
  return o, exp, dict(eq=strict)
Kind('ofp_packet_out/data=packet', 'msg', HDR + [('in_port', 'u16'), ('actions', ACTS), ('frame', LEN(46, 0, 1, 1486)), ('route', ('enum', 'kw', ['attr']))],
     _b_packet_out_eth, ofcls('ofp_packet_out'), noreuse=True)

def _b_packet_in_eth (P, v):
  e, raw = mk_eth(P, v['frame'])
  kw = hkw(v); kw.update(buffer_id=v['buffer_id'], in_port=v['in_port'], reason=v['reason'])
  if v['route'] == 'kw': o = P.of.ofp_packet_in(data=e, **kw)
  else:
    o = P.of.ofp_packet_in(**kw); o.data = e
  def exp ():
    sv = dict(header=hsp(v, S.OFPT['PACKET_IN']), buffer_id=bufspec(v['buffer_id']), total_len=len(raw), in_port=v['in_port'], reason=v['reason'])
    return S.message('ofp_packet_in', sv, S.raw('data', raw))
  return o, exp
Kind('ofp_packet_in/data=packet', 'msg', HDR + [('buffer_id', BUF), ('in_port', 'u16'), ('reason', 'u8'), ('frame', LEN(46, 0, 1, 1486)),
                                                ('route', ('enum', 'kw', ['attr']))],
     _b_packet_in_eth, ofcls('ofp_packet_in'), noreuse=True)

class Blob (object):
  """any caller-defined body object: the codecs accept whatever has pack() (and a length)"""
  def __init__ (self, b): self.b = b
  def pack (self): return self.b
  def __len__ (self): return len(self.b)

def _attrform (parent, attr, suffix, conv, kopts=None, **flags):
  """the parent kind with one attribute re-assigned in its secondary representation"""
  PK = KINDS[parent]
  def build (P, v):
    r = PK.build(P, v)
    setattr(r[0], attr, conv(P, getattr(r[0], attr)))
    f = dict(r[2] if len(r) > 2 else {}); f.update(flags)
    return r[0], r[1], f
  name = '%s/%s' % (parent, suffix)
  ko = dict(noreuse=True, payload=PK.opts.get('payload'), base=PK.base, fixed=PK.fixed)
  ko.update(kopts or {})
  return Kind(name, PK.cat, PK.fields, build, PK.cls, **ko)

def _late_forms ():
  for parent, attr in (('ofp_vendor_generic', 'data'), ('ofp_action_vendor_generic', 'body'),
                       ('ofp_vendor_stats_generic', 'data'), ('ofp_generic_stats_body', 'data')):
    # the decoded object holds bytes, not the caller's object: == between the two is not claimed
    _attrform(parent, attr, '%s=object' % attr, lambda P, x: Blob(x), eq=False, view=False)
  for parent, attr in (('ofp_phy_port', 'hw_addr'), ('ofp_port_mod', 'hw_addr'), ('ofp_action_dl_addr', 'dl_addr')):
    _attrform(parent, attr, '%s=bytes' % attr, lambda P, x: x.toRaw())
  for parent, clsname in (('ofp_flow_mod', 'ofp_flow_mod'), ('ofp_packet_out/data', 'ofp_packet_out'), ('ofp_packet_out/buffered', 'ofp_packet_out')):
    def build (P, v, parent=parent, clsname=clsname):
      PK = KINDS[parent]
      lst = [v['act'], _AA[0]] if v['form'] == 'action=list' else [v['act']]
      r = PK.build(P, PK.basev(actions=lst, version=v['version'], xid=v['xid']))
      ref = r[0]
      kw = dict((k, x) for k, x in vars(ref).items() if not k.startswith('_') and k != 'actions')
      kw.update(xid=ref.xid, buffer_id=ref.buffer_id)
      if 'data' not in kw: kw['data'] = ref.data
      if kw['data'] is None: del kw['data']
      objs = sublist(P, lst, 'actions')[0]
      if v['form'] == 'action=list': kw['action'] = objs
      elif v['form'] == 'action=single': kw['action'] = objs[0]
      else: kw['actions'] = objs[0]
      return (getattr(P.of, clsname)(**kw),) + tuple(r[1:])
    name = parent.split('/')[0] + '/action-synonym' + ('' if '/' not in parent else '-' + parent.split('/')[1])
    Kind(name, 'msg', HDR + [('form', ('enum', 'action=single', ['action=list', 'actions=single'])), ('act', ('enum', _AA[0], _AA[1:]))],
         build, ofcls(clsname), noreuse=True)

def _b_vendor_nicira_id (P, v):
  data = payload(v['data'])
  o = P.of.ofp_vendor_generic(vendor=S.NX_VENDOR_ID, data=data, **hkw(v))
  def exp ():
    return S.message('ofp_vendor_header', dict(header=hsp(v, S.OFPT['VENDOR']), vendor=S.NX_VENDOR_ID), S.raw('data', data))
  return o, exp
# a vendor message that carries Nicira's vendor id but is none of the Nicira messages (no / unknown subtype):
# an OpenFlow 1.0 vendor message like any other; with the Nicira component initialised it takes another
# path through the decoder table (failures there carry the input class in their key)
Kind('ofp_vendor_generic/nicira-vendor-id', 'msg', HDR + [('data', LEN(20, 0, 1, 2, 3, 4, 5, 7, 8, 1500))], _b_vendor_nicira_id,
     ofcls('ofp_vendor_generic'), payload='data', tag='nicira-vendor-id', noreuse=True)

def _b_qgc_reply (P, v):
  qs, qexp, _ = sublist(P, v['queues'], 'queues')
  o = P.of.ofp_queue_get_config_reply(port=v['port'], queues=qs, **hkw(v))
  def exp ():
    return S.message('ofp_queue_get_config_reply', dict(header=hsp(v, S.OFPT['QUEUE_GET_CONFIG_REPLY']), port=v['port']), qexp())
  return o, exp
Kind('ofp_queue_get_config_reply', 'msg', HDR + [('port', 'u16'), ('queues', ('enum', _QL[0], _QL[1:]))],
     _b_qgc_reply, ofcls('ofp_queue_get_config_reply'))

# ---------------------------------------------------------------------------------------
# statistics bodies and the two statistics messages
# ---------------------------------------------------------------------------------------
STATS = {}     # body kind -> (OFPST code, 'request'|'reply', reply is a list?)
def stat (kindname, code, role, is_list=False):
  STATS[kindname] = (S.OFPST[code], role, is_list)

simple('ofp_desc_stats', 'stats', 'ofp_desc_stats',
       [('mfr_desc', 's256'), ('hw_desc', 's256'), ('sw_desc', 's256'), ('serial_num', 's32'), ('dp_desc', 's256')])
stat('ofp_desc_stats', 'DESC', 'reply')
simple('ofp_desc_stats_request', 'stats', 'ofp_empty', []); stat('ofp_desc_stats_request', 'DESC', 'request')
simple('ofp_table_stats_request', 'stats', 'ofp_empty', []); stat('ofp_table_stats_request', 'TABLE', 'request')

def _flowreq (clsname, sname, code):
  fl = [('match', MATCH), ('table_id', 'u8'), ('out_port', 'u16')]
  def build (P, v):
    m, mv, _ = match_pair(P, v['match'])
    o = getattr(P.of, clsname)(match=m, table_id=v['table_id'], out_port=v['out_port'])
    return o, (lambda: S.enc(sname, dict(match=mv, table_id=v['table_id'], out_port=v['out_port'])))
  Kind(clsname, 'stats', fl, build, ofcls(clsname)); stat(clsname, code, 'request')
_flowreq('ofp_flow_stats_request', 'ofp_flow_stats_request', 'FLOW')
_flowreq('ofp_aggregate_stats_request', 'ofp_aggregate_stats_request', 'AGGREGATE')

FSTAT = [('table_id', 'u8'), ('duration_sec', 'u32'), ('duration_nsec', 'u32'), ('priority', 'u16'),
         ('idle_timeout', 'u16'), ('hard_timeout', 'u16'), ('cookie', 'u64'), ('packet_count', 'u64'), ('byte_count', 'u64')]
def _b_flow_stats (P, v):
  m, mv, _ = match_pair(P, v['match'])
  acts, aexp, strict = sublist(P, v['actions'], 'actions')
  kw = dict((f, v[f]) for f, t in FSTAT); kw.update(match=m, actions=acts)
  o = P.of.ofp_flow_stats(**kw)
  def exp ():
    ap = aexp()
    sv = dict((f, v[f]) for f, t in FSTAT); sv.update(match=mv, length=S.sizeof('ofp_flow_stats') + S.plen(ap))
    return S.enc('ofp_flow_stats', sv) + ap
  return o, exp, dict(eq=strict)
Kind('ofp_flow_stats', 'stats', [('match', MATCH)] + FSTAT + [('actions', ACTS)], _b_flow_stats, ofcls('ofp_flow_stats'))
stat('ofp_flow_stats', 'FLOW', 'reply', True)

simple('ofp_aggregate_stats', 'stats', 'ofp_aggregate_stats_reply',
       [('packet_count', 'u64'), ('byte_count', 'u64'), ('flow_count', 'u32')]); stat('ofp_aggregate_stats', 'AGGREGATE', 'reply')
simple('ofp_table_stats', 'stats', 'ofp_table_stats',
       [('table_id', 'u8'), ('name', 's32'), ('wildcards', 'u32'), ('max_entries', 'u32'), ('active_count', 'u32'),
        ('lookup_count', 'u64'), ('matched_count', 'u64')]); stat('ofp_table_stats', 'TABLE', 'reply', True)
simple('ofp_port_stats_request', 'stats', 'ofp_port_stats_request', [('port_no', 'u16')]); stat('ofp_port_stats_request', 'PORT', 'request')
simple('ofp_port_stats', 'stats', 'ofp_port_stats',
       [('port_no', 'u16')] + [(f, 'u64') for f in ('rx_packets tx_packets rx_bytes tx_bytes rx_dropped tx_dropped rx_errors '
                                                   'tx_errors rx_frame_err rx_over_err rx_crc_err collisions').split()])
stat('ofp_port_stats', 'PORT', 'reply', True)
simple('ofp_queue_stats_request', 'stats', 'ofp_queue_stats_request', [('port_no', 'u16'), ('queue_id', 'u32')])
stat('ofp_queue_stats_request', 'QUEUE', 'request')
simple('ofp_queue_stats', 'stats', 'ofp_queue_stats',
       [('port_no', 'u16'), ('queue_id', 'u32'), ('tx_bytes', 'u64'), ('tx_packets', 'u64'), ('tx_errors', 'u64')])
stat('ofp_queue_stats', 'QUEUE', 'reply', True)

def _b_vendor_stats (P, v):
  data = payload(v['data'])
  o = P.of.ofp_vendor_stats_generic(vendor=v['vendor'], data=data)
  return o, (lambda: S.enc('ofp_vendor_stats', dict(vendor=v['vendor'])) + S.raw('data', data))
Kind('ofp_vendor_stats_generic', 'stats', [('vendor', 'u32'), ('data', LEN(12, 0, 1, 8))], _b_vendor_stats,
     ofcls('ofp_vendor_stats_generic'))
stat('ofp_vendor_stats_generic', 'VENDOR', 'reply')
def _b_generic_stats (P, v):
  data = payload(v['data'])
  return P.of.ofp_generic_stats_body(data=data), (lambda: S.raw('data', data))
Kind('ofp_generic_stats_body', 'stats', [('data', LEN(12, 0, 1, 8))], _b_generic_stats, ofcls('ofp_generic_stats_body'))

def entry_variants (kindname, n):
  out = []
  for i, v in enumerate(KINDS[kindname].lattice(1)):
    if i % 2 == 0: out.append([kindname, v])
    if len(out) == n: break
  while len(out) < n: out.append(out[-1])
  return out

def _stats_msgs ():
  for bk, (code, role, is_list) in sorted(STATS.items()):
    if role == 'request' or bk == 'ofp_vendor_stats_generic':
      def build (P, v, bk=bk, code=code):
        body, bexp, _ = sub(P, v['body'])
        kw = hkw(v); kw.update(flags=v['flags'], body=body)
        if v['explicit_type']: kw['type'] = code
        o = P.of.ofp_stats_request(**kw)
        def exp ():
          return S.message('ofp_stats_request', dict(header=hsp(v, S.OFPT['STATS_REQUEST']), type=code, flags=v['flags']),
                           S.prefixed('body:%s.' % bk, bexp()))
        return o, exp
      Kind('ofp_stats_request/' + bk, 'msg',
           HDR + [('flags', 'u16'), ('explicit_type', ('enum', False, [True])), ('body', ('enum', atom(bk), []))],
           build, ofcls('ofp_stats_request'))
    if role == 'reply' or bk == 'ofp_vendor_stats_generic':
      ev = entry_variants(bk, 3)
      if is_list:
        shapes = ('enum', ['list', ev[:1]], [['list', []], ['list', ev[:2]], ['list', ev[:3]], ['tuple', ev[:2]], ['single', ev[:1]]])
      else:
        shapes = ('enum', ['single', ev[:1]], [['single', ev[1:2]]])
      def build (P, v, bk=bk, code=code):
        how, ents = v['body']
        bodies, bexp, strict = sublist(P, ents, 'body')
        if not ents and not v['explicit_type']: raise OutOfScope("type cannot be inferred from an empty list")
        kw = hkw(v); kw['flags'] = v['flags']
        kw['body'] = bodies if how == 'list' else tuple(bodies) if how == 'tuple' else bodies[0]
        if v['explicit_type']: kw['type'] = code
        o = P.of.ofp_stats_reply(**kw)
        def exp ():
          return S.message('ofp_stats_reply', dict(header=hsp(v, S.OFPT['STATS_REPLY']), type=code, flags=v['flags']), bexp())
        # a bare entry or a tuple decodes to a list by design: compare bytes, not containers
        return o, exp, dict(eq=strict and (how == 'list' or (how == 'single' and not STATS[bk][2])))
      Kind('ofp_stats_reply/' + bk, 'msg',
           HDR + [('flags', 'u16'), ('explicit_type', ('enum', False, [True])), ('body', shapes)],
           build, ofcls('ofp_stats_reply'))
_stats_msgs()

def _b_stats_raw (clsname, sname, mtype):
  def build (P, v):
    data = payload(v['body'])
    o = getattr(P.of, clsname)(type=v['type'], flags=v['flags'], body=data, **hkw(v))
    def exp ():
      return S.message(sname, dict(header=hsp(v, mtype), type=v['type'], flags=v['flags']), S.raw('body', data))
    # a raw request body decodes into a generic body object by design: == and bytes decide
    return o, exp, dict(view=False)
  Kind(clsname + '/raw', 'msg', HDR + [('type', ('enum', 7, [0xfffe, 0x8000])), ('flags', 'u16'), ('body', LEN(12, 0, 1, 8, 1500))],
       build, ofcls(clsname), payload='body')
_b_stats_raw('ofp_stats_request', 'ofp_stats_request', S.OFPT['STATS_REQUEST'])
_b_stats_raw('ofp_stats_reply', 'ofp_stats_reply', S.OFPT['STATS_REPLY'])

_late_forms()

# ---- objects changed after they were first encoded (the codecs cache packed bodies) -----
def _b_req_reassigned (P, v):
  code = STATS[v['second'][0]][0]
  kw = hkw(v); kw['flags'] = v['flags']
  if v['first'] is not None: kw['body'] = sub(P, v['first'])[0]
  o = P.of.ofp_stats_request(**kw)
  if v['first'] is None: o.type = code
  if v['probe'] == 'len': len(o)
  elif v['probe'] == 'pack': o.pack()
  body, bexp, _ = sub(P, v['second'])
  o.body = body
  def exp ():
    return S.message('ofp_stats_request', dict(header=hsp(v, S.OFPT['STATS_REQUEST']), type=code, flags=v['flags']),
                     S.prefixed('body:%s.' % v['second'][0], bexp()))
  return o, exp
Kind('ofp_stats_request/body-reassigned', 'msg', HDR + [('flags', 'u16')], _b_req_reassigned, ofcls('ofp_stats_request'),
     owner='ofp_stats_request/body-reassigned', owner_fixed=True, noreuse=True)

def _b_reply_appended (P, v):
  bodies, bexp, strict = sublist(P, v['entries'], 'body')
  o = P.of.ofp_stats_reply(flags=v['flags'], body=list(bodies[:v['first']]), type=STATS[v['entries'][0][0]][0], **hkw(v))
  if v['probe'] == 'len': len(o)
  elif v['probe'] == 'pack': o.pack()
  for b in bodies[v['first']:]: o.body.append(b)
  def exp ():
    return S.message('ofp_stats_reply', dict(header=hsp(v, S.OFPT['STATS_REPLY']), type=STATS[v['entries'][0][0]][0],
                                             flags=v['flags']), bexp())
  return o, exp
Kind('ofp_stats_reply/body-appended', 'msg', HDR + [('flags', 'u16')], _b_reply_appended, ofcls('ofp_stats_reply'),
     owner='ofp_stats_reply/body-appended', owner_fixed=True, noreuse=True)

def mutation_cases ():
  out = []
  hv = base_vector(HDR + [('flags', 'u16')])
  for bk, (code, role, is_list) in sorted(STATS.items()):
    if role == 'request' and KINDS[bk].fields:
      ev = entry_variants(bk, 2)
      for first in (None, ev[0]):
        for probe in ('none', 'len', 'pack'):
          out.append(('ofp_stats_request/body-reassigned', dict(hv, first=first, second=ev[1], probe=probe)))
    if role == 'reply' and is_list:
      ev = entry_variants(bk, 3)
      for n in (1, 2, 3):
        for first in range(n):
          for probe in ('none', 'len', 'pack'):
            out.append(('ofp_stats_reply/body-appended', dict(hv, entries=ev[:n], first=first, probe=probe)))
  return out


# ---------------------------------------------------------------------------------------
# Nicira messages
# ---------------------------------------------------------------------------------------
def nxm_ (clsname, sname, subtype, fields, tospec_=None, **opts):
  fl = HDR + fields
  def build (P, v):
    kw = hkw(v); kw.update((f, v[f]) for f, t in fields)
    o = getattr(P.nx, clsname)(**kw)
    def exp ():
      sv = tospec_(v) if tospec_ else dict((f, v[f]) for f, t in fields)
      sv['header'] = dict(version=v['version'], xid=v['xid'])
      return S.nx_message(sname, subtype, sv)
    return o, exp
  return Kind(clsname, 'nxmsg', fl, build, nxcls(clsname), **opts)

nxm_('nx_flow_mod_table_id', 'nx_flow_mod_table_id', S.NXT['FLOW_MOD_TABLE_ID'], [('enable', ('enum', True, [False]))],
     lambda v: dict(set=1 if v['enable'] else 0))
nxm_('nx_packet_in_format', 'nx_set_packet_in_format', S.NXT['SET_PACKET_IN_FORMAT'], [('format', 'u32')])
nxm_('nx_role_request', 'nx_role_request', S.NXT['ROLE_REQUEST'], [('role', 'u32')])
nxm_('nx_role_reply', 'nx_role_request', S.NXT['ROLE_REPLY'], [('role', 'u32')], nx_dispatch=True)
_ASY = ['packet_in_mask', 'packet_in_mask_slave', 'port_status_mask', 'port_status_mask_slave',
        'flow_removed_mask', 'flow_removed_mask_slave']
nxm_('nx_async_config', 'nx_async_config', S.NXT['SET_ASYNC_CONFIG'], [(f, 'u32') for f in _ASY],
     lambda v: dict(packet_in_mask0=v[_ASY[0]], packet_in_mask1=v[_ASY[1]], port_status_mask0=v[_ASY[2]],
                    port_status_mask1=v[_ASY[3]], flow_removed_mask0=v[_ASY[4]], flow_removed_mask1=v[_ASY[5]]))

CMD8 = ('enum', 0, [1, 2, 3, 4, 0xff])
FMOD8 = [(f, CMD8 if f == 'command' else t) for f, t in FMOD]
def _b_flow_mod_tid (P, v):
  m, mv, dc = match_pair(P, v['match'], flow_mod=True)
  acts, aexp, strict = sublist(P, v['actions'], 'actions')
  kw = hkw(v); kw.update((f, v[f]) for f, t in FMOD8); kw.update(match=m, actions=acts, table_id=v['table_id'])
  o = P.nx.ofp_flow_mod_table_id(**kw)
  def exp ():
    sv = dict((f, v[f]) for f, t in FMOD8)
    sv.update(header=hsp(v, S.OFPT['FLOW_MOD']), match=mv, buffer_id=bufspec(v['buffer_id']),
              command=v['table_id'] << 8 | v['command'])
    return S.message('ofp_flow_mod', sv, aexp())
  return o, exp, dict(eq=strict, dont_care=dc)
Kind('ofp_flow_mod_table_id', 'msg1', HDR + [('table_id', 'u8'), ('match', MATCH)] + FMOD8 + [('actions', ACTS)],
     _b_flow_mod_tid, nxcls('ofp_flow_mod_table_id'))

_NML = nxmatch_lists(2)
KINDS['nx_match'].opts['refv'] = dict(parts=_NML[12])
NXMATCH = ('enum', _NML[1 + 10 + 1], [_NML[0], _NML[1], _NML[4], _NML[30]])
NXFM = [('table_id', 'u8')] + FMOD8
def _b_nx_flow_mod (P, v):
  m, mexp = KINDS['nx_match'].build(P, dict(parts=v['match']))
  acts, aexp, strict = sublist(P, v['actions'], 'actions')
  kw = hkw(v); kw.update((f, v[f]) for f, t in NXFM); kw.update(match=m, actions=acts)
  o = P.nx.nx_flow_mod(**kw)
  def exp ():
    mp = S.prefixed('match:nx_match.', mexp())
    ml = S.plen(mp)
    sv = dict((f, v[f]) for f, t in FMOD8)
    sv.update(header=dict(version=v['version'], xid=v['xid']), buffer_id=bufspec(v['buffer_id']),
              command=v['table_id'] << 8 | v['command'], match_len=ml)
    return S.nx_message('nx_flow_mod', S.NXT['FLOW_MOD'], sv, mp + S.raw('match_pad', b'\0' * S.pad8(ml)) + aexp())
  return o, exp, dict(eq=strict)
Kind('nx_flow_mod', 'nxmsg', HDR + NXFM + [('match', NXMATCH), ('actions', ACTS)], _b_nx_flow_mod, nxcls('nx_flow_mod'))

def _b_nx_flow_mod_data (P, v):
  buffered = pi_buffered(v)
  if not buffered and v['pi.truncated']:
    raise OutOfScope("a truncated unbuffered packet_in as data of an nx_flow_mod is refused by the library (assert self.data.is_complete)")
  m, mexp = KINDS['nx_match'].build(P, dict(parts=v['match']))
  acts, aexp, strict = sublist(P, v['actions'], 'actions')
  pi, data = mk_pi(P, v)
  kw = hkw(v); kw.update((f, v[f]) for f, t in NXFM if f != 'buffer_id'); kw.update(match=m, actions=acts)
  if v['route'] == 'kw': o = P.nx.nx_flow_mod(data=pi, **kw)
  else:
    o = P.nx.nx_flow_mod(**kw); o.data = pi
  def exp ():
    mp = S.prefixed('match:nx_match.', mexp())
    ml = S.plen(mp)
    sv = dict((f, v[f]) for f, t in FMOD8 if f != 'buffer_id')
    sv.update(header=dict(version=v['version'], xid=v['xid']), buffer_id=v['pi.buffer_id'] if buffered else S.OFP_NO_BUFFER,
              command=v['table_id'] << 8 | v['command'], match_len=ml)
    return S.nx_message('nx_flow_mod', S.NXT['FLOW_MOD'], sv, mp + S.raw('match_pad', b'\0' * S.pad8(ml)) + aexp())
  flags = dict(eq=False, view=False)
  if not buffered: flags['tail'] = lambda tail: flow_mod_tail(tail, v['pi.in_port'], data)
  return o, exp, flags
Kind('nx_flow_mod/data=packet_in', 'nxmsg', HDR + [(f, t) for f, t in NXFM if f != 'buffer_id'] + PI_F + [('match', NXMATCH), ('actions', ACTS)],
     _b_nx_flow_mod_data, nxcls('nx_flow_mod'), owner='nx_flow_mod/data=packet_in', noreuse=True, first_only=True)

def _w_nx_flow_mod (P, v):
  mp = []
  for i, e in enumerate(v['match']): mp.extend(wire_nxm(e, 'match:nx_match.parts[%d]:nxm_entry.' % i))
  ml = S.plen(mp)
  ap = sublist(P, v['actions'], 'actions')[1]()
  sv = dict((f, v[f]) for f, t in FMOD8)
  sv.update(header=dict(version=v['version'], xid=v['xid']), buffer_id=bufspec(v['buffer_id']),
            command=v['table_id'] << 8 | v['command'], match_len=ml)
  return S.nx_message('nx_flow_mod', S.NXT['FLOW_MOD'], sv, mp + S.raw('match_pad', b'\0' * S.pad8(ml)) + ap)
Kind('nx_flow_mod/wire', 'wire', HDR + NXFM + [('match', NXMATCH), ('actions', ACTS)], _w_nx_flow_mod, nxcls('nx_flow_mod'),
     carrier='nxmsg', owner='nx_flow_mod')

NXPI = [('buffer_id', BUF), ('total_len', ('enum', 0x9c41, [0xffff, 0x8000, None])), ('reason', 'u8'), ('table_id', 'u8'), ('cookie', 'u64')]
def _b_nxt_packet_in (P, v):
  data = payload(v['data'])
  m, mexp = KINDS['nx_match'].build(P, dict(parts=v['match']))
  kw = hkw(v); kw.update((f, v[f]) for f, t in NXPI); kw.update(match=m, data=data)
  o = P.nx.nxt_packet_in(**kw)
  def exp ():
    mp = S.prefixed('match:nx_match.', mexp())
    ml = S.plen(mp)
    sv = dict((f, v[f]) for f, t in NXPI)
    sv.update(header=dict(version=v['version'], xid=v['xid']), buffer_id=bufspec(v['buffer_id']), match_len=ml,
              total_len=len(data) if v['total_len'] is None else v['total_len'])
    return S.nx_message('nx_packet_in', S.NXT['PACKET_IN'], sv,
                        mp + S.raw('match_pad', b'\0' * S.pad8(ml)) + S.raw('pad2', b'\0\0') + S.raw('data', data))
  return o, exp
Kind('nxt_packet_in', 'nxmsg', HDR + NXPI + [('match', NXMATCH), ('data', LEN(20, 0, 1, 1500))],
     _b_nxt_packet_in, nxcls('nxt_packet_in'), nx_dispatch=True, payload='data')

def _w_nxt_packet_in (P, v):
  data = payload(v['data'])
  mp = []
  for i, e in enumerate(v['match']): mp.extend(wire_nxm(e, 'match:nx_match.parts[%d]:nxm_entry.' % i))
  ml = S.plen(mp)
  sv = dict((f, v[f]) for f, t in NXPI)
  sv.update(header=dict(version=v['version'], xid=v['xid']), buffer_id=bufspec(v['buffer_id']), match_len=ml,
            total_len=len(data) if v['total_len'] is None else v['total_len'])
  return S.nx_message('nx_packet_in', S.NXT['PACKET_IN'], sv,
                      mp + S.raw('match_pad', b'\0' * S.pad8(ml)) + S.raw('pad2', b'\0\0') + S.raw('data', data))
Kind('nxt_packet_in/wire', 'wire', HDR + NXPI + [('match', NXMATCH), ('data', LEN(20, 0, 1, 1500))],
     _w_nxt_packet_in, nxcls('nxt_packet_in'), carrier='nxmsg', nx_dispatch=True, owner='nxt_packet_in')



# ---------------------------------------------------------------------------------------
# more secondary forms (the other ways the library documents / accepts to give the same value)
#   list-valued members given as a TUPLE   actions / ports / queues / properties / learn specs / bundle slaves:
#                          same bytes, lengths, decode, field-wise equality (the decoded container is a list:
#                          the library's == between a tuple and a list is not consulted)
#   NXM entry value forms  the address families document "any format known by IPAddr / IPAddr6", a trailing
#                          /bits or /netmask in a string, (address, bits | netmask) tuples and lists; Ethernet
#                          addresses as text / raw bytes; value and mask as two constructor arguments in text
#   nx_match routes        the documented ways to put an entry into an nx_match: constructor parts, append(),
#                          +=, m.<name> = value (+ m.<name>_mask = mask), short names without prefix,
#                          m.<name>_with_mask = (value, mask), m.<name>_entry = entry, m.<name> = entry,
#                          nx_match(<name>=value) keywords
#   nx_reg_load(dst=<entry instance>)   the value to load is the entry's value (8-byte field, left padded)
#   nx_action_bundle       slaves given as port numbers instead of entries, dst as an entry instance
# ---------------------------------------------------------------------------------------
TUPLE_FORMS = (('ofp_flow_mod', 'actions'), ('ofp_packet_out/data', 'actions'), ('ofp_packet_out/buffered', 'actions'),
               ('ofp_flow_stats', 'actions'), ('ofp_features_reply', 'ports'), ('ofp_packet_queue', 'properties'),
               ('ofp_queue_get_config_reply', 'queues'), ('ofp_flow_mod_table_id', 'actions'), ('nx_flow_mod', 'actions'),
               ('nx_action_learn', 'spec'), ('nx_action_bundle', 'slaves'))
def _tuple_forms ():
  for parent, attr in TUPLE_FORMS:
    own = '%s/%s=tuple' % (KINDS[parent].opts.get('owner', parent.split('/')[0]), attr)
    _attrform(parent, attr, '%s=tuple' % attr, lambda P, x: tuple(x), kopts=dict(payload=None, owner=own, kk=(1, 2)), libeq=False)
_tuple_forms()

def ip4_text (raw): return '.'.join(str(x) for x in raw)
def ip6_text (raw):
  import ipaddress
  return ipaddress.IPv6Address(bytes(raw)).compressed
def eth_text (raw): return ':'.join('%02x' % x for x in raw)
ADDR_TEXT = dict(ip=ip4_text, ip6=ip6_text, ether=eth_text)

# form -> (families, has a mask?, mask given as bits?)
NXM_FORMS = {
  'text': (('ip', 'ip6', 'ether'), False, False),             # cls('10.1.2.3')
  'bytes': (('ip', 'ether'), False, False),                   # cls(b'\x0a\x01\x02\x03')
  'int': (('ip',), False, False),                             # cls(0x0a010203)   (host order, as IPAddr takes it)
  'text/bits': (('ip', 'ip6'), True, True),                   # cls('10.1.2.0/24')
  'text/netmask': (('ip', 'ip6'), True, False),               # cls('10.1.2.0/255.255.255.0')
  'tuple-bits': (('ip', 'ip6'), True, True),                  # cls(('10.1.2.0', 24))
  'tuple-netmask': (('ip', 'ip6'), True, False),              # cls((IPAddr('10.1.2.0'), IPAddr('255.255.255.0')))
  'list-netmask': (('ip', 'ip6'), True, False),               # cls([IPAddr('10.1.2.0'), '255.255.255.0'])
  'text,text': (('ip', 'ip6', 'ether'), True, False),         # cls('10.1.2.0', '255.255.255.0')
  'addr,bits': (('ip', 'ip6'), True, True),                   # cls(IPAddr('10.1.2.0'), 24)
}

def _nxm_form (form):
  fams, masked, asbits = NXM_FORMS[form]
  def build (P, v):
    cls = getattr(P.nx, v['cls'])
    fam = nxm_family(P, cls)
    val = bytes.fromhex(v['value'])
    txt = ADDR_TEXT[fam](val)
    obj = nxm_val(P, fam, val)
    m = v.get('mask')
    mb = None if m is None else cidr_mask(len(val), m) if isinstance(m, int) else bytes.fromhex(m)
    mtxt = None if mb is None else ADDR_TEXT[fam](mb)
    mobj = None if mb is None else nxm_val(P, fam, mb)
    if form == 'text': o = cls(txt)
    elif form == 'bytes': o = cls(val)
    elif form == 'int': o = cls(int.from_bytes(val, 'big'))
    elif form == 'text/bits': o = cls('%s/%d' % (txt, m))
    elif form == 'text/netmask': o = cls('%s/%s' % (txt, mtxt))
    elif form == 'tuple-bits': o = cls((txt, m))
    elif form == 'tuple-netmask': o = cls((obj, mobj))
    elif form == 'list-netmask': o = cls([obj, mtxt])
    elif form == 'text,text': o = cls(txt, mtxt)
    elif form == 'addr,bits': o = cls(obj, m)
    else: raise ValueError(form)
    ones = mb is not None and mb == b'\xff' * len(mb)
    exp = (lambda: S.nxm_entry(v['cls'], val, mb)) if v['cls'] in S.NXM_FIELDS else None
    # a mask the CALLER gave as all-ones is equivalent to none and is not sent (see _b_nxm); when the caller gave
    # no mask at all the decoded entry must be == the original
    return o, exp, dict(libeq=not ones)
  Kind('nxm_entry/' + form, 'nxm', [], build, lambda P: None, owner='nxm_entry/' + form, tag=form)
for _f in NXM_FORMS: _nxm_form(_f)

def nxm_form_sweep (P, form, thorough):
  """every registered NXM class of the form's address families x 4 values x the mask boundary set"""
  nx = P.nx
  fams, masked, asbits = NXM_FORMS[form]
  for name in sorted(nx._nxm_name_to_type):
    cls = nx._nxm_type_to_class[nx._nxm_name_to_type[name]]
    fam = nxm_family(P, cls)
    if fam not in fams: continue
    n = cls._nxm_length
    vals = [fpbytes(7, n), b'\0' * (n - 1) + b'\1', b'\xff' * n, b'\x80' + b'\0' * (n - 2) + b'\xc8']
    if not masked:
      for val in vals: yield dict(cls=name, value=val.hex(), mask=None)
      continue
    if not cls().allow_mask: continue
    if asbits: masks = [0, 1, 4 * n, 8 * n - 1, 8 * n] if not thorough else list(range(8 * n + 1))
    else:
      masks = [(b'\xff' * (n // 2) + b'\0' * (n - n // 2)).hex(), ('ff' * (n - 1) + 'fe'), 'ff' * n, '80' + '00' * (n - 1)]
      if fam == 'ether': masks += ['010000000000', '00' * n]
    for val in vals:
      for m in masks:
        mb = cidr_mask(n, m) if isinstance(m, int) else bytes.fromhex(m)
        yield dict(cls=name, value=bytes(a & b for a, b in zip(val, mb)).hex(), mask=m)

NXM_ROUTES = ('append', 'iadd', 'attr', 'attr-short', 'with_mask', 'entry', 'attr=entry', 'kw')

class Misbuilt (Exception):
  """a documented way of building the object did not yield the object"""
  def __init__ (self, what, text): Exception.__init__(self, text); self.what = what

def _nxm_route (route):
  def build (P, v):
    nx = P.nx
    m = nx.nx_match()
    kw = {}
    for e in v['parts']:
      cls = getattr(nx, e['cls'])
      fam = nxm_family(P, cls)
      name = e['cls'].lower()
      if route == 'attr-short': name = name.split('_', 1)[1]              # nxm_of_ip_src -> of_ip_src
      val = nxm_val(P, fam, bytes.fromhex(e['value']))
      k = e.get('mask')
      mask = None if k is None else k if isinstance(k, int) else nxm_val(P, fam, bytes.fromhex(k))
      if route == 'append': m.append(mk_nxm(P, e)[0])
      elif route == 'iadd':
        m += mk_nxm(P, e)[0]
        if not isinstance(m, nx.nx_match):
          raise Misbuilt('iadd-result', "after `m += <entry>` m is %r, not the nx_match" % (m,))
      elif route in ('attr', 'attr-short'):
        setattr(m, name, val)
        if mask is not None: setattr(m, name + '_mask', mask)
      elif route == 'with_mask': setattr(m, name + '_with_mask', (val, mask))
      elif route == 'entry': setattr(m, name + '_entry', mk_nxm(P, e)[0])
      elif route == 'attr=entry': setattr(m, name, mk_nxm(P, e)[0])
      elif route == 'kw':
        if mask is None: kw[name] = val
        else: kw[name + '_with_mask'] = (val, mask)
    if route == 'kw': m = nx.nx_match(**kw)
    if len(m._parts) != len(v['parts']):
      raise Misbuilt('entries', "the match holds %d entries after %d were given" % (len(m._parts), len(v['parts'])))
    return m, KINDS['nx_match'].build(P, v)[1]
  Kind('nx_match/' + route, 'nxmatch', [], build, nxcls('nx_match'), owner='nx_match/' + route, noreuse=True,
       refv=dict(parts=_NML[12]), tag=route)
for _r in NXM_ROUTES: _nxm_route(_r)

def nxm_route_lists (thorough):
  L = nxmatch_lists(2)
  return L if thorough else L[:11] + L[11::9]

_RLV = dict(fp=lambda n: fpbytes(9, n), zero=lambda n: b'\0' * n, ones=lambda n: b'\xff' * n, one=lambda n: b'\0' * (n - 1) + b'\1')
def _b_reg_load_entry (P, v):
  cls = getattr(P.nx, v['dst'])
  n = S.NXM_FIELDS[v['dst']][2]
  val = _RLV[v['entry_value']](n)
  ent = cls(nxm_val(P, nxm_family(P, cls), val))
  kw = dict(dst=ent, offset=v['offset'])
  if v['nbits'] is not None: kw['nbits'] = v['nbits']
  o = P.nx.nx_reg_load(**kw)
  nbits = v['nbits'] if v['nbits'] is not None else 8 * n - v['offset']
  def exp ():
    return S.nx_action('nx_action_reg_load', S.NXAST['REG_LOAD'],
                       dict(ofs_nbits=v['offset'] << 6 | (nbits - 1), dst=S.nxm_field_header(v['dst']), value=int.from_bytes(val, 'big')))
  # the decoded action names the field's class and carries the value as an integer: bytes decide, not ==
  return o, exp, dict(eq=False, view=False)
Kind('nx_reg_load/dst=entry', 'nxaction',
     [('offset', ('enum', 0, [1, 3])), ('nbits', ('enum', None, [1, 8])),
      ('dst', ('enum', 'NXM_NX_REG3', ['NXM_OF_ETH_DST', 'NXM_NX_TUN_ID', 'NXM_OF_IN_PORT', 'NXM_OF_IP_TOS'])),
      ('entry_value', ('enum', 'fp', ['zero', 'ones', 'one']))],
     _b_reg_load_entry, nxcls('nx_reg_load'), owner='nx_reg_load/dst=entry', noreuse=True)

import mc.refs.nxbundle as NXB
def _b_bundle_forms (P, v):
  nx = P.nx
  slaves = list(v['slaves']) if v['slave_form'] == 'int' else [nx.NXM_OF_IN_PORT(x) for x in v['slaves']]
  if v['slave_form'] == 'tuple': slaves = tuple(slaves)
  kw = dict(algorithm=v['algorithm'], fields=v['fields'], basis=v['basis'], slaves=slaves)
  load = None
  if v['load']:
    name, ofs, nbits = v['load']
    cls = getattr(nx, name)
    kw.update(load=True, dst=cls(0) if v['dst_form'] == 'entry' else cls, offset=ofs)
    if nbits is not None: kw['nbits'] = nbits
    load = (S.nxm_field_header(name), ofs, nbits if nbits is not None else 8 * S.NXM_FIELDS[name][2] - ofs)
  o = nx.nx_action_bundle(**kw)
  return o, (lambda: NXB.bundle(v['algorithm'], v['fields'], v['basis'], v['slaves'], load)), dict(eq=False, view=False)
Kind('nx_action_bundle/forms', 'nxaction',
     [('algorithm', 'u16'), ('fields', 'u16'), ('basis', 'u16'),
      ('slaves', ('enum', [1, 2, 3], [[], [0xffff], [1, 2, 3, 4], [1, 2, 3, 4, 5, 6, 7, 8]])),
      ('slave_form', ('enum', 'int', ['entry', 'tuple'])),
      ('load', ('enum', ['NXM_NX_REG0', 0, 16], [None, ['NXM_NX_REG3', 4, 8], ['NXM_NX_REG1', 0, None], ['NXM_NX_REG2', 16, None]])),
      ('dst_form', ('enum', 'entry', ['class']))],
     _b_bundle_forms, nxcls('nx_action_bundle'), owner='nx_action_bundle/forms', noreuse=True)


# ---------------------------------------------------------------------------------------
# the enumerated space
# ---------------------------------------------------------------------------------------
CUSTOM = ('ofp_match', 'nxm_entry', 'nx_match', 'ofp_stats_request/body-reassigned', 'ofp_stats_reply/body-appended',
          'nxm_entry/wire', 'nx_match/wire', 'nx_flow_mod/wire', 'nxt_packet_in/wire') \
         + tuple('nxm_entry/' + f for f in NXM_FORMS) + tuple('nx_match/' + r for r in NXM_ROUTES)

def k_for (K, thorough):
  n = len([f for f in K.fields if f[0] not in K.fixed])
  if 'kk' in K.opts: return K.opts['kk'][1 if thorough else 0]
  if thorough: return 3
  return 2 if n <= 14 else 1

def rep_of (atom_, n): return [{'rep': [atom_, n]}]

def limit_cases ():
  """(kind, vector) pairs straddling the 64 KiB limit of the 16-bit length fields: the first of
  each pair fits, the second must be rejected."""
  out = []
  aout = atom('ofp_action_output')
  K = KINDS
  for n in (8182, 8183): out.append(('ofp_flow_mod', K['ofp_flow_mod'].basev(actions=rep_of(aout, n))))
  for n in (8189, 8190): out.append(('ofp_packet_out/data', K['ofp_packet_out/data'].basev(actions=rep_of(aout, n), data=0)))
  for n in (8180, 8181): out.append(('ofp_flow_stats', K['ofp_flow_stats'].basev(actions=rep_of(aout, n))))
  for n in (1364, 1365): out.append(('ofp_features_reply', K['ofp_features_reply'].basev(ports=rep_of(_PV[0], n))))
  for n in (65527, 65528): out.append(('ofp_echo_request', K['ofp_echo_request'].basev(body=n)))
  for n in (65517, 65518): out.append(('ofp_packet_in', K['ofp_packet_in'].basev(data=n, total_len=0xffff)))
  for n in (65523, 65524): out.append(('ofp_error', K['ofp_error'].basev(data=n)))
  for n in (65523, 65524): out.append(('ofp_vendor_generic', K['ofp_vendor_generic'].basev(data=n)))
  for n in (65520, 65528): out.append(('ofp_action_vendor_generic', K['ofp_action_vendor_generic'].basev(body=n)))
  for n in (65531, 65532): out.append(('ofp_action_generic', K['ofp_action_generic'].basev(data=n)))
  mr = ['ofp_queue_prop_min_rate', {'rate': 5}]
  for n in (4095, 4096): out.append(('ofp_packet_queue', K['ofp_packet_queue'].basev(properties=rep_of(mr, n))))
  q0 = ['ofp_packet_queue', {'queue_id': 9, 'properties': []}]
  for n in (8189, 8190): out.append(('ofp_queue_get_config_reply', K['ofp_queue_get_config_reply'].basev(queues=rep_of(q0, n))))
  big = ['ofp_flow_stats', K['ofp_flow_stats'].basev(actions=rep_of(aout, 4000))]
  for n in (2, 3):
    out.append(('ofp_stats_reply/ofp_flow_stats', K['ofp_stats_reply/ofp_flow_stats'].basev(body=['list', [big] * n])))
  # the rejected vector carries its fitting neighbour: what the caller shrinks the rejected object to
  for i in range(0, len(out), 2):
    assert out[i][0] == out[i + 1][0]
    out[i + 1] = (out[i + 1][0], dict(out[i + 1][1], **{'<fits>': out[i][1]}))
  return out

def queue_shapes ():
  mr = lambda r: ['ofp_queue_prop_min_rate', {'rate': r}]
  q = lambda i, n: ['ofp_packet_queue', {'queue_id': 0x01010101 * (i + 1), 'properties': [mr(0x100 * i + j) for j in range(n)]}]
  out = [[]]
  for a in range(4):
    out.append([q(0, a)])
    for b in range(4):
      out.append([q(0, a), q(1, b)])
      for c in range(4):
        out.append([q(0, a), q(1, b), q(2, c)])
  return out

def port_shapes (thorough):
  for n in range(1, 4):
    base = [p for p in _PV[:n]]
    for pos in range(n):
      for v in KINDS['ofp_phy_port'].lattice(1 if not thorough else 2):
        ports = list(base); ports[pos] = ['ofp_phy_port', v]
        yield ports

def pi_forms (cont, thorough):
  """the full product of the carried packet_in's field domains x how it is attached (quick: the other
  fields at their base value; thorough: also with every single deviation of the carrier's own fields)"""
  import itertools
  K = KINDS[cont]
  idx = dict((f, i) for i, (f, t) in enumerate(K.fields))
  doms = []
  for f, t in PI_F:
    b0, alts = dom(t, idx[f])
    doms.append([b0] + [a for a in alts if a != b0])
  names = [f for f, t in PI_F]
  outer = [K.basev()]
  if thorough:
    outer = [v for v in K.lattice(1) if all(v[f] == outer[0][f] for f in names)]
  for base in outer:
    for combo in itertools.product(*doms):
      v = dict(base); v.update(zip(names, combo)); yield v

def sweeps (thorough):
  """[(sweep name, kind name, generator of vectors)] - every vector of every sweep is run."""
  out = []
  K = KINDS
  for name in sorted(K):
    if name in CUSTOM: continue
    k = k_for(K[name], thorough)
    out.append(('lattice-k%d' % k, name, (lambda name=name, k=k: K[name].lattice(k))))
    pf = K[name].opts.get('payload')
    if pf:
      out.append(('payload-0..1500', name, (lambda name=name, pf=pf: (K[name].basev(**{pf: n}) for n in range(1501)))))
  mk = 3 if thorough else 2
  out.append(('match-lattice-k%d' % mk, 'ofp_match', lambda: (dict(m=m) for m in match_sweep(mk))))
  fk = 2 if thorough else 1
  out.append(('match-lattice-k%d' % fk, 'ofp_flow_mod', lambda: (K['ofp_flow_mod'].basev(match=m) for m in match_sweep(fk, prefixes=thorough))))
  for cont in ('ofp_flow_removed', 'ofp_flow_stats_request', 'ofp_flow_mod_table_id'):
    ck = 1 if thorough else 0
    out.append(('match-lattice-k%d' % ck, cont, lambda cont=cont, ck=ck: (K[cont].basev(match=m) for m in match_sweep(ck, prefixes=False))))
  L = 3 if thorough else 2
  for cont in ('ofp_flow_mod', 'ofp_packet_out/data', 'ofp_flow_stats', 'nx_flow_mod'):
    out.append(('action-seqs<=%d' % L, cont, lambda cont=cont: (K[cont].basev(actions=s) for s in action_seqs(L))))
  out.append(('queue-shapes', 'ofp_queue_get_config_reply',
              lambda: (K['ofp_queue_get_config_reply'].basev(queues=q) for q in queue_shapes())))
  out.append(('port-shapes', 'ofp_features_reply',
              lambda: (K['ofp_features_reply'].basev(ports=p) for p in port_shapes(thorough))))
  out.append(('nxm-classes', 'nxm_entry', lambda: nxm_sweep(pox(), thorough)))
  NL = 3 if thorough else 2
  out.append(('nxmatch-lists<=%d' % NL, 'nx_match', lambda: (dict(parts=p) for p in nxmatch_lists(NL))))
  out.append(('nxmatch-lists<=2', 'nx_flow_mod', lambda: (K['nx_flow_mod'].basev(match=p) for p in nxmatch_lists(2))))
  out.append(('nxmatch-lists<=1', 'nxt_packet_in', lambda: (K['nxt_packet_in'].basev(match=p) for p in nxmatch_lists(1))))
  out.append(('learn-specs<=%d' % L, 'nx_action_learn', lambda: (K['nx_action_learn'].basev(spec=s) for s in learn_spec_seqs(L))))
  out.append(('wire-nxm-forms', 'nxm_entry/wire', lambda: wire_nxm_forms(pox(), thorough)))
  out.append(('wire-nxm-lists', 'nx_match/wire', lambda: (dict(parts=p) for p in wire_match_lists(pox(), thorough))))
  for cont in ('nx_flow_mod/wire', 'nxt_packet_in/wire'):
    out.append(('wire-nxm-lists', cont, lambda cont=cont: (K[cont].basev(match=p) for p in wire_match_lists(pox(), thorough))))
  for cont in ('ofp_flow_mod/data=packet_in', 'ofp_packet_out/data=packet_in', 'nx_flow_mod/data=packet_in'):
    out.append(('packet-in-forms', cont, lambda cont=cont: pi_forms(cont, thorough)))
  for form in NXM_FORMS:
    out.append(('nxm-value-forms', 'nxm_entry/' + form, lambda form=form: nxm_form_sweep(pox(), form, thorough)))
  for route in NXM_ROUTES:
    out.append(('nxmatch-routes', 'nx_match/' + route, lambda: (dict(parts=p) for p in nxm_route_lists(thorough))))
  out.append(('64KiB-limits', None, lambda: limit_cases()))
  out.append(('changed-after-first-encoding', None, lambda: mutation_cases()))
  return out


def state_stride (sname, thorough):
  """the used / reused object phases run on every n-th case of a sweep (all of them except in
  the two highly redundant sweep families of the quick tier)"""
  if thorough: return 1
  if sname.startswith('payload'): return 4
  if sname == 'match-lattice-k0': return 4
  return 1


def replay_data (kn, v, sname, st, V, suffix):
  """Everything needed to re-execute the case: the vector as a JSON string (`vj`; the vectors nest deeper
  than the report's generic conversion keeps, `v` is for reading only), the level of the object-history
  phases it was run with, and - for the failed-operation phases - the one history that failed."""
  d = dict(kind=kn, v=v, vj=json.dumps(v), sweep=sname, state=st)
  if suffix in V.at: d['at'] = V.at[suffix]
  return d


VERIFY_KEYS = 10

def verify_replays (viol):
  """Every recorded counterexample (the first VERIFY_KEYS keys in order) is replayed once in a FRESH process
  before it is reported: a replay that shows nothing there (the codec under test keeps state between
  objects, so the case needs what ran before it) is retried with the case that preceded it in the run as a
  prelude; if that does not show it either, the report says so instead of pointing at a file that proves nothing."""
  import subprocess, tempfile
  here = os.path.dirname(os.path.dirname(os.path.dirname(os.path.abspath(__file__))))
  def shows (key, data):
    with tempfile.NamedTemporaryFile('w', suffix='.json', prefix='c01_replay_', delete=False) as f:
      json.dump(dict(key=key, replay=data), f); name = f.name
    try:
      r = subprocess.run([sys.executable, '-B', '-m', 'mc.run', PID, '--replay', name], cwd=here, capture_output=True, text=True, timeout=600)
      return ("FAIL %s --" % key) in r.stdout
    except Exception:
      return False
    finally:
      try: os.unlink(name)
      except OSError: pass
  for n, key in enumerate(sorted(viol)):
    x = viol[key]
    data = dict(x['replay'])
    prev = data.pop('prev', None)
    x['replay'] = data
    if n >= VERIFY_KEYS or data.get('kind') == '<dispatch-tables>': continue
    if shows(key, data): continue
    if prev is not None and shows(key, dict(data, prelude=[prev])):
      x['replay'] = dict(data, prelude=[prev])
      x['what'] += " [shows only after another object was handled in the same process: the replay runs the preceding case first]"
    else:
      x['what'] += " [NOT reproduced when this case is replayed alone in a fresh process: it depends on what the process did before]"


def _work (item):
  si, sl, nsl, thorough, only = item
  P = pox()
  rep = Report(PID, "exploration")
  sname, kname, gen = sweeps(thorough)[si]
  j = -1
  prev = None
  try:
    for x in gen():
      j += 1
      if j % nsl != sl: continue
      if kname is None: kn, v = x
      else: kn, v = kname, x
      K = KINDS[kn]
      st = (2 if thorough else 1) if (j % state_stride(sname, thorough)) == 0 else 0
      V = run_case(P, K, v, st)
      rep.evaluations += 1
      rep.transitions += V.calls
      if V.note and V.note.startswith('out-of-scope'):
        rep.extra['out_of_scope'] = rep.extra.get('out_of_scope', 0) + 1
      elif V.note and V.note.startswith('unconstructible'):
        rep.extra['unconstructible'] = rep.extra.get('unconstructible', 0) + 1
      if V.raw is not None: rep.state_count += 1
      raw = V.raw or b''
      rep.outcome((kn, tuple(f[0] for f in V.fails), V.note, len(raw), zlib.crc32(raw) & 0xff))
      for suffix, text in V.fails:
        key = "%s:%s" % (PID, suffix)
        if key in rep.violations: rep.violations[key]['count'] += 1; continue
        data = replay_data(kn, v, sname, st, V, suffix)
        if prev is not None: data['prev'] = dict(kind=prev[0], vj=json.dumps(prev[1]), state=prev[2])   # see verify_replays
        rep.violation(key, text, data)
      prev = (kn, v, st)
      if j == 0 and not V.fails and V.raw is not None and len(raw) <= 128 and sname.startswith(('lattice', 'nxm', 'match-lattice', 'wire')):
        rep.sample(dict(kind=kn, sweep=sname, vector=v, bytes=raw.hex(), verdict=V.note or 'held'))
  except Exception:
    rep.error("sweep %s/%s case %d: %s" % (sname, kname, j, traceback.format_exc(limit=6).replace("\n", " | ")[-700:]))
  return rep


def run (cfg):
  P = pox()
  thorough = not cfg.quick
  rep = Report(PID, "exploration")
  sw = sweeps(thorough)
  items = []
  sizes = {}
  for si, (sname, kname, gen) in enumerate(sw):
    if cfg.only and cfg.only not in (kname or 'limits') and cfg.only not in sname: continue
    n = sum(1 for _ in gen())
    sizes["%s:%s" % (sname, kname or '*')] = n
    nsl = max(1, min(cfg.workers, n // 400))
    if kname is None: nsl = min(n, 2 * cfg.workers)
    for sl in range(nsl): items.append((si, sl, nsl, thorough, cfg.only))
  best = {}
  for r in pmap(_work, items, cfg.workers, seed=cfg.seed):
    viol = r.violations; r.violations = {}
    rep.merge(r)
    for k, x in viol.items():
      c = best.get(k)
      core = repr(sorted((a, b) for a, b in x['replay'].items() if a != 'prev'))
      cand = (len(core), core)
      if c is None: best[k] = [cand, dict(x)]
      else:
        c[1]['count'] += x['count']
        if cand < c[0]:
          c[0] = cand; c[1]['replay'] = x['replay']; c[1]['what'] = x['what']
  rep.violations = dict((k, c[1]) for k, c in best.items())
  verify_replays(rep.violations)
  if not cfg.only:
    tc = table_cases(P)
    rep.evaluations += len(P.of._message_type_to_class); rep.transitions += 2 * len(P.of._message_type_to_class)
    for suffix, text in tc:
      rep.violation("%s:%s" % (PID, suffix), text, dict(kind='<dispatch-tables>', v={}))
  rep.samples.sort(key=repr)
  rep.rule = ("E-enum over %d codec kinds (22 OpenFlow 1.0 message types, 13 action type codes + unknown-type action, 7+7 "
              "statistics bodies inside and outside ofp_stats_request/reply, ofp_phy_port, ofp_packet_queue, 3 queue "
              "properties, ofp_match; Nicira: %d nx_* actions/messages, every class of _nxm_type_to_class, nx_match): "
              "(1) every field vector within k deviations of a fingerprint base vector (a distinct byte pattern per "
              "field) over {0,1,max,sign-bit,fingerprint} / {'', 1 char, full width, high latin-1} / listed list shapes "
              "[k per kind: %s]; (2) every payload length 0..1500 for echo/error/vendor/packet-in/packet-out/raw stats; "
              "(3) every prerequisite-consistent ofp_match: per protocol context every wildcard subset, every value "
              "vector within %d deviations, every nw_src x nw_dst prefix pair 0..32, standalone, and (one deviation less, "
              "prefix pairs in the thorough tier) inside flow-mod; "
              "(4) every action sequence of length <= %d over 16 action atoms in flow-mod, packet-out, flow-stats, "
              "nx_flow_mod; (5) 0..3 ports / queues x 0..3 properties / stats entries; (6) both sides of the 64 KiB limit "
              "of every 16-bit length field; (7) every NXM class x 5 values x {no mask, all-ones, zero, 3 partial, CIDR}; "
              "nx_match lists and learn specs to the same length bound. Each case: len/pack, byte-for-byte comparison "
              "with the specification layout table (mc/refs/ofspec.py), decode through every entry point (unpack_new, "
              "dispatch table, list decoders), alone and embedded behind 3, 1, 8, 16, 24, 64 bytes and behind a full other "
              "encoding of the same kind, always with trailing bytes (quick tier, kinds without variable-length members: "
              "3 bytes plus two of the others by checksum), ==, public "
              "field comparison, re-encode. (8) non-initial object state, on every case (every 4th of the payload and "
              "container match-context sweeps in the quick tier): USED - a fresh object and everything it owns is "
              "len()'d, compared, shown and hashed (ofp_match, ofp_phy_port), then encoded with libopenflow's module "
              "logger installed (prerequisite check path), cloned, the clone encoded and modified; REUSED - an object "
              "that already encoded the kind's reference vector is the target of unpack() of this case's bytes (must "
              "== a fresh object, re-encode to the same bytes, len agrees), then has every public field of the "
              "reference object assigned (must encode the reference bytes), and the case's own object unpack()s the "
              "reference bytes; plus flow-mods with prerequisite-inconsistent matches, for which only 'encoding does "
              "not fail, lengths agree, decode consumes all' is claimed; EDITED - every object with a list-valued "
              "member of >= 2 elements (actions, ports, queues, properties, stats bodies, learn specs, bundle slaves) "
              "is encoded, the list is changed in place keeping its length (reversed / element replaced / element's "
              "fields assigned; quick: one of the three per case by checksum, thorough: all + reverse-then-replace) "
              "and encoded again: must equal a fresh object with the edited value. Size-changing in-place edits too: "
              "an element replaced by one of another encoded size (other action, entry with one more nested "
              "action/property, other learn spec), and for nx_match carriers (nx_match, nx_flow_mod, nxt_packet_in) "
              "the first maskable NXM entry gets / loses a mask in place, through nx_match attribute assignment or "
              "through the entry object (quick: one route by checksum; thorough: both, toggled there and back). (10) every message case (22 types, Nicira messages as vendor messages) with wire version 1 is also "
              "written - alone and behind another complete message in the same read (hello / 21-byte / 64-byte echo request) - to a real of_01.Connection (ScriptSock, recording handler table) and a real switch-side "
              "OFConnection (RecocoIOWorker receive path): exactly one object must reach the handler, of the "
              "right class, == the original, re-encoding to the same bytes, nothing left in the buffer; and every "
              "type code of the registry must have its own class's decoder in make_type_to_unpacker_table() and in "
              "of_01.unpackers. (9) wire-origin NXM: for every NXM "
              "class the reference encoder's wire forms {no mask, explicit all-ones mask, zero mask, partial masks} x "
              "values, alone, in nx_match lists, and inside NXT_FLOW_MOD / NXT_PACKET_IN: decode consumes exactly the "
              "bytes, len() agrees, re-encode gives the same bytes. distinct = (kind, verdict, length, 8-bit checksum) "
              "digests. (11) SECONDARY FORMS, each a kind of its own with the same clauses and layout tables: "
              "ofp_flow_mod, nx_flow_mod and ofp_packet_out given data=<ofp_packet_in> - the full product of the packet_in's buffer_id "
              "{fingerprint, 0, 1, 0x80000000, 0xffffffff, None} x in_port {fingerprint, 0, 1, 0x8000, 0xffff} x data length {20, 0, 1, 1500} x "
              "{complete, truncated} x {constructed, decoded from reference bytes, a Nicira nxt_packet_in} x attached by {constructor keyword, "
              "attribute assignment}, plus the field lattice of the carrier: buffered -> ONE message naming that buffer "
              "(header length = byte count = len()); unbuffered and complete -> flow_mod + barrier request + unbuffered "
              "packet_out with the packet_in's in_port and data (documented), each well framed and decodable; "
              "ofp_packet_out / ofp_packet_in given a pox.lib.packet ethernet object (frame payload 0, 1, 46, 1486); "
              "ofp_vendor_generic.data / ofp_action_vendor_generic.body / ofp_vendor_stats_generic.data / "
              "ofp_generic_stats_body.data given an object with pack() (vendor message: every length 0..1500); hw_addr / "
              "dl_addr given as 6 raw bytes (ofp_phy_port, ofp_port_mod, ofp_action_dl_addr); action=<list>, "
              "action=<one action>, actions=<one action> x the 16 action atoms for flow_mod and both packet_out kinds; "
              "ofp_vendor_generic carrying Nicira's vendor id without being a Nicira message (payload 0..1500). "
              "(12) PRIOR STATE of the decoder table: every message whose of_01.unpackers entry is replaced when the "
              "Nicira component is initialised (the real nicira._init_unpacker() is run; today OFPT_VENDOR: "
              "ofp_vendor_generic incl. payload 0..1500, all nx_* messages) is also decoded through that table entry "
              "and through a real of_01.Connection.read() using that table. (13) buffer positions: every decoder is "
              "also handed the encoding as the LAST thing in the buffer at a non-zero offset (behind 8 bytes; kinds "
              "with variable-length members one more prefix by checksum; thorough every prefix), the receive loops "
              "also with the message FIRST in front of another message and in the MIDDLE of three. (14) every object "
              "is encoded a second time: same bytes, same len(). (15) FAILED OPERATIONS in the object's history. "
              "Failure sites of an object = every public field of the object and of every codec object it owns (match, "
              "actions, ports, queues, properties, bodies, carried packet_in) and the first 3 elements of every list among "
              "them; unencodable values = {None (the library's own 'unset', e.g. ofp_action_output().port), 2**70, an "
              "object whose pack() raises}; prior state = {never encoded, encoded once}. For every kind's reference "
              "vector: every site x every value x both prior states: the value is assigned, len() and pack() are "
              "attempted (raise part-way or accept the value), ANOTHER object of the same value is encoded (must be "
              "unaffected), the old value is put back, then pack()/len() must give exactly the fresh object's bytes and "
              "the object decoded from them must == it with equal public fields; and for every field of the kind the "
              "same history followed by the assignment of another domain value to that field (failing site rotating "
              "over the sites that raised, both prior states): must equal a fresh object with that value. Every other "
              "case (every case of every sweep, incl. the secondary forms): one site by checksum of the vector "
              "(thorough: three), values in the order above up to the first that makes pack() raise, prior state by "
              "checksum (thorough: both). FAILED UNPACK: an object holding the kind's reference value unpack()s the "
              "first k bytes of the case's n-byte encoding, then all n: must consume n, == a fresh object, re-encode to "
              "the same bytes, len() agree; reference vector: every k < n (n > 160: k < 64, every 8th, the last 32) x "
              "both prior states; other cases two k by checksum (thorough: up to seven, both prior states). REJECTED "
              "PACK: each object beyond a 64 KiB limit whose pack() was rejected is shrunk in place (list cut / bytes "
              "re-assigned) to its neighbour that fits and must encode like a fresh object of that size. "
              "(16) MORE SECONDARY FORMS, same clauses and layout tables: every list-valued member (actions of flow_mod / both packet_out kinds / "
              "flow_stats / ofp_flow_mod_table_id / nx_flow_mod, ports, queues, queue properties, learn specs, bundle slaves) given as a TUPLE "
              "(field lattice of the carrier, 1 deviation; thorough 2); NXM value forms for every registered class of the IPv4 / IPv6 / Ethernet "
              "families x 4 values: text, raw bytes, integer, 'addr/bits', 'addr/netmask', (addr, bits), (addr, netmask), [addr, netmask], "
              "two text arguments, (address object, bits) x mask boundaries {0, 1, half, width-1, width} / {half, width-1, all-ones, 1 bit; "
              "Ethernet also multicast bit, zero} (an entry built WITHOUT a mask must be == its decoded form); nx_match built through every "
              "documented route {append, +=, m.name = value + m.name_mask, short names, m.name_with_mask, m.name_entry, m.name = entry, "
              "constructor keywords} over the nx_match lists; nx_reg_load(dst=<entry instance>) over 5 field widths x {inferred, 1, 8} bits x "
              "3 offsets x 4 values; nx_action_bundle with slaves as port numbers / entries / a tuple, dst as entry instance / class, nbits "
              "given / inferred, compared with the bundle layout of nicira-ext.h (mc/refs/nxbundle.py). Every reported counterexample is "
              "replayed in a fresh process before it is reported (replays carry the vector as JSON text, the level of the history phases "
              "and, for the failed-operation phases, the failing site / value / prior state / truncation point)"
              % (len(KINDS), len([k for k in KINDS if k.startswith('nx')]),
                 "2" if cfg.quick else "3", 3 if thorough else 2, 3 if thorough else 2))
  rep.bound = dict(deviations=2 if cfg.quick else 3, payload="0..1500", action_seq_len=3 if thorough else 2,
                   list_shapes="0..3", match_deviations=3 if thorough else 2,
                   packet_in_forms="full product (1440 per carrier)%s" % ("" if cfg.quick else " x 1 deviation of the carrier's own fields"),
                   decoder_table_states="as imported; after nicira._init_unpacker()",
                   buffer_positions="alone / behind / in front / between; embedded with trailing bytes / last in buffer",
                   failed_operations="reference vector of each kind: all failure sites x 3 unencodable values x 2 prior states, "
                                     "+ every field changed after the failure; all truncation points; other cases: %s"
                                     % ("1 site, 2 truncation points, 1 prior state by checksum" if cfg.quick else
                                        "3 sites, <= 7 truncation points, both prior states"))
  rep.extra['sweep_sizes'] = sizes
  rep.assumptions = [
    "ofp_match objects are prerequisite-consistent (fields whose prerequisite is absent are documented as ignored); a wildcarded field is sent as zero; nw prefix counts >= 32 are one value; in a flow-mod the wildcard bits of non-applicable fields carry no meaning",
    "ofp_action_output.max_len is only defined for OFPP_CONTROLLER; pack() zeroing it for other ports is a documented normalisation",
    "an all-ones NXM mask is equivalent to no mask",
    "Nicira actions decode to their own class only through that class's unpack_new; through the generic action-list / vendor-message decoders only consumed length and re-encoding are required",
    "Nicira layouts are compared only for structures stated with certainty in mc/refs/ofspec.py (not MPLS actions, bundle)",
    "values outside a field's wire range, names longer than the field, buffer_id together with data, total_len < len(data) are refused by the library's validation and are out of scope",
    "structures (ofp_match, ofp_phy_port, ofp_packet_queue, queue properties, statistics bodies) are decoded with their unpack(); messages and actions with unpack_new and the dispatch tables",
    "a flow_mod / packet_out built from a packet_in has no buffer_id of its own set (which of the two wins is not specified); re-sending a truncated unbuffered packet_in through ofp_packet_out is refused by the library (assert) and out of scope; a flow_mod given a truncated unbuffered packet_in is sent alone (the library logs that it cannot include the data)",
    "for ofp_flow_mod(data=<unbuffered complete packet_in>) the documented composite is required to be flow_mod + barrier request + unbuffered packet_out with the packet_in's in_port and data; the packet_out's actions and the xids of the two extra messages are the library's choice; len() is that of the flow_mod",
    "an object decoded from bytes cannot carry a caller's packet_in / body object: for data=<packet_in> on a flow_mod and data/body=<object with pack()> the decoded object is required to re-encode to the same bytes, not to be == the original",
    "failed operations: what the failing len()/pack()/unpack() itself raises or returns is not judged, only the object's behaviour afterwards; a value the library refuses at assignment is no site; fields that pack() is documented to normalise or infer from another field (ofp_action_output.max_len from port, nx_reg_load.nbits from offset/dst) are re-specified together with that field",
    "a list-valued member given as a tuple decodes to a list: the bytes, lengths and the public fields must agree, the library's == between a tuple and a list is not consulted (as for ofp_stats_reply bodies)",
    "OpenFlow 1.0 defines tp_src / tp_dst for TCP, UDP and ICMP only: a match naming them under another nw_proto (e.g. SCTP, 132) is prerequisite-inconsistent and covered by the 'inconsistent-match' kind (encoding does not fail, lengths agree)",
    "nx_reg_load(dst=<entry instance>) and the bundle forms decode to the class / integer / entry representation: bytes, lengths and re-encoding decide, not ==",
    "initialising the Nicira component is represented by running the real nicira._init_unpacker() on of_01.unpackers (what nicira.launch() does to the decoder table) and using the resulting table; the process-wide table is put back afterwards",
  ]
  return rep


def replay (cfg, data):
  P = pox()
  if data["kind"] == '<dispatch-tables>':
    tc = table_cases(P)
    return bool(tc), "\n".join("FAIL %s:%s -- %s" % (PID, k, t) for k, t in tc) or "every registered type code has its decoder in every dispatch table"
  K = KINDS[data["kind"]]
  v = json.loads(data["vj"]) if "vj" in data else data["v"]
  st = int(data.get("state", 1))
  lines = ["kind: %s" % K.name, "vector: %r" % (v,), "object-history phases: level %d" % st]
  for pre in data.get("prelude", ()):
    run_case(P, KINDS[pre["kind"]], json.loads(pre["vj"]), int(pre.get("state", 1)))
    lines.append("(first ran the case that preceded it in the run: %s)" % pre["kind"])
  V = None
  if data.get("at"):
    # the recorded history alone (failing site, value, prior state ...); the whole case if that shows nothing
    lines.append("recorded history: %r" % (data["at"],))
    V = run_case(P, K, v, st, focus=data["at"])
    if not V.fails: V = None
  if V is None: V = run_case(P, K, v, st)
  if V.note: lines.append("note: %s" % V.note)
  if V.raw is not None:
    lines.append("encoded (%d bytes): %s%s" % (len(V.raw), V.raw[:96].hex(), "..." if len(V.raw) > 96 else ""))
  for suffix, text in V.fails:
    lines.append("FAIL %s:%s -- %s" % (PID, suffix, text))
  if not V.fails: lines.append("all oracle clauses held")
  return bool(V.fails), "\n".join(lines)
