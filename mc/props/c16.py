"""C16 - address types parse, print, compare and mask as the standards say.

E-enum: every case of a stated finite lattice is run against the real pox.lib.addresses /
pox.lib.util and compared with the independent reference in mc/refs/addr_ref.py (stdlib
`ipaddress`, integer arithmetic, RFC 4291/5952 text rules).  Nothing is sampled.

Layout: SEGS maps a segment name to (parts, cases, check):
  parts(thorough)        -> list of JSON-able part descriptors (the unit of parallel work)
  cases(part, thorough)  -> iterator over JSON-able cases of that part
  check(case, k)         -> runs the case against pox, records observations / failed clauses in k
A recorded violation carries {seg, case}; replay() just calls check(case) again.
"""
import itertools, os, struct, sys, traceback
from mc.engine import pmap
from mc.report import Report
from mc.refs import addr_ref as R

PID = "C16"
A = None      # pox.lib.addresses (real code under test)
U = None      # pox.lib.util


def _import ():
  global A, U
  if A is None:
    import pox.lib.addresses as _a
    import pox.lib.util as _u
    A, U = _a, _u
  return A, U


# ------------------------------------------------------------------------------------
# per-case collector
# ------------------------------------------------------------------------------------
def site (e):
  """basename:function of the innermost pox frame of an exception + its type."""
  where = "?"
  for fr in traceback.extract_tb(e.__traceback__):
    if "/pox/" in fr.filename:
      where = "%s:%s" % (os.path.basename(fr.filename), fr.name)
  return "%s:%s" % (where, type(e).__name__)


class K (object):
  __slots__ = ("calls", "evals", "viol", "obs")
  def __init__ (self):
    self.calls = 0; self.evals = 0; self.viol = []; self.obs = []

  def bad (self, clause, what):
    self.viol.append(("%s:%s" % (PID, clause), what))

  def eq (self, clause, desc, expected, f, *a, **kw):
    """f(*a) must return a plain value equal to (and of the type of) expected."""
    self.evals += 1; self.calls += 1
    try:
      r = f(*a, **kw)
    except Exception as e:
      self.bad("%s:raises:%s" % (clause, site(e)),
               "%s raised %s: %s (expected %r)" % (_d(desc), type(e).__name__, e, expected))
      self.obs.append("!" + type(e).__name__)
      return None
    if type(r) is not type(expected) or r != expected:
      self.bad(clause, "%s = %r, expected %r" % (_d(desc), r, expected))
    self.obs.append(r)
    return r

  def get (self, clause, desc, f, *a, **kw):
    """f(*a) must not raise; returns (True, value) or (False, None)."""
    self.calls += 1
    try:
      return True, f(*a, **kw)
    except Exception as e:
      self.evals += 1
      self.bad("%s:raises:%s" % (clause, site(e)), "%s raised %s: %s" % (_d(desc), type(e).__name__, e))
      self.obs.append("!" + type(e).__name__)
      return False, None

  def rej (self, clause, desc, f, *a, **kw):
    """f(*a) must raise (malformed input must be rejected, not mis-parsed)."""
    self.evals += 1; self.calls += 1
    try:
      r = f(*a, **kw)
    except Exception as e:
      self.obs.append("rej")
      return True
    self.bad(clause, "%s was accepted and gave %s" % (_d(desc), _show(r)))
    self.obs.append("acc")
    return False


def _d (desc):
  if isinstance(desc, tuple): return desc[0] % desc[1:]
  return desc

def _show (r):
  try: return repr(r)
  except Exception: return "<%s>" % type(r).__name__

def raw_of (x):
  """Plain value of a pox address object without using its comparison operators."""
  return (type(x).__name__, x.raw)


# ------------------------------------------------------------------------------------
# IPv4 lattices
# ------------------------------------------------------------------------------------
OCT_Q = [0, 1, 127, 128, 254, 255]
OCT_T_CTOR = [0, 1, 2, 9, 10, 63, 64, 99, 100, 127, 128, 172, 191, 192, 223, 224, 239, 240, 254, 255]
OCT_T_NET = [0, 1, 10, 100, 127, 128, 172, 192, 224, 240, 254, 255]

def v4_parts (octs):
  return [[o] for o in octs]

def v4_cases (part, octs):
  for o1 in octs:
    for o2 in octs:
      for o3 in octs:
        yield [part[0], o1, o2, o3]


# -- constructor forms and observables ----------------------------------------------
def chk_v4ctor (case, k):
  n = R.v4_int(case)
  text = R.v4_text(n); raw = R.v4_raw(n)
  nn = R.v4_net_order_int(n)
  IP = A.IPAddr
  # constructor forms, each observed through .raw
  forms = (("str", lambda: IP(text)),
           ("bytes-text", lambda: IP(text.encode())),
           ("raw-bytes", lambda: IP(raw)),
           ("raw-bytearray", lambda: IP(bytearray(raw))),
           ("int-host", lambda: IP(n)),
           ("int-host-kw", lambda: IP(n, networkOrder=False)),
           ("int-net", lambda: IP(nn, networkOrder=True)),
           ("signed-host", lambda: IP(R.signed32(n))),
           ("signed-net", lambda: IP(R.signed32(nn), networkOrder=True)),
           ("copy", lambda: IP(IP(raw))))
  for name, f in forms:
    k.eq("ipv4-ctor:" + name, ("IPAddr built from %s form of %s: .raw", name, text), raw, lambda: f().raw)
  okk, a = k.get("ipv4-ctor:raw-bytes", ("IPAddr(%r)", raw), IP, raw)
  if not okk: return
  d = ("on IPAddr(%r)", raw)
  k.eq("ipv4-observe:str", ("str() %s" % d[0], raw), text, str, a)
  k.eq("ipv4-observe:toStr", ("toStr() %s" % d[0], raw), text, a.toStr)
  k.eq("ipv4-observe:repr", ("repr() %s" % d[0], raw), "IPAddr('%s')" % text, repr, a)
  k.eq("ipv4-observe:toRaw", ("toRaw() %s" % d[0], raw), raw, a.toRaw)
  k.eq("ipv4-observe:toUnsigned", ("toUnsigned() %s" % d[0], raw), n, a.toUnsigned)
  k.eq("ipv4-observe:toUnsigned", ("toUnsigned(networkOrder=False) %s" % d[0], raw), n, a.toUnsigned, networkOrder=False)
  k.eq("ipv4-observe:unsigned_h", ("unsigned_h %s" % d[0], raw), n, lambda: a.unsigned_h)
  k.eq("ipv4-observe:toUnsigned-net", ("toUnsigned(networkOrder=True) %s" % d[0], raw), nn, a.toUnsigned, networkOrder=True)
  k.eq("ipv4-observe:toUnsigned-net", ("toUnsignedN() %s" % d[0], raw), nn, a.toUnsignedN)
  k.eq("ipv4-observe:unsigned_n", ("unsigned_n %s" % d[0], raw), nn, lambda: a.unsigned_n)
  k.eq("ipv4-observe:toSigned", ("toSigned() %s" % d[0], raw), R.signed32(n), a.toSigned)
  k.eq("ipv4-observe:toSigned-net", ("toSigned(networkOrder=True) %s" % d[0], raw), R.signed32(nn), a.toSigned, networkOrder=True)
  k.eq("ipv4-observe:toSigned-net", ("toSignedN() %s" % d[0], raw), R.signed32(nn), a.toSignedN)
  k.eq("ipv4-observe:len", ("len() %s" % d[0], raw), 4, len, a)
  k.eq("ipv4-observe:is_broadcast", ("is_broadcast %s" % d[0], raw), n == 0xffffffff, lambda: a.is_broadcast)
  k.eq("ipv4-observe:is_multicast", ("is_multicast %s (RFC 5771: 224.0.0.0/4)" % d[0], raw), (n >> 28) == 0xe,
       lambda: a.is_multicast)
  # print -> parse -> equal address, equal hash
  okk, b = k.get("ipv4-roundtrip", ("IPAddr(str(IPAddr(%r)))", raw), lambda: IP(str(a)))
  if okk:
    k.eq("ipv4-roundtrip", ("IPAddr(str(a)).raw for a=IPAddr(%r)", raw), raw, lambda: b.raw)
    k.eq("ipv4-roundtrip:eq", ("IPAddr(str(a)) == a for a=IPAddr(%r)", raw), True, lambda: b == a)
    k.eq("ipv4-roundtrip:hash", ("hash(IPAddr(str(a))) == hash(a) for a=IPAddr(%r)", raw), True, lambda: hash(b) == hash(a))
  # IPv4 -> IPv6: documented as "converted to IPv4-mapped IPv6 addresses"
  mapped = (0xffff << 32) | n
  k.eq("ipv6-ctor:from-IPAddr", ("IPAddr6(IPAddr('%s')).raw (must be ::ffff:%s)", text, text), R.v6_raw(mapped),
       lambda: A.IPAddr6(a).raw)


# -- networks, CIDR, netmasks ---------------------------------------------------------
V4_OTHER = [0x00000000, 0x0a000000, 0x7f000000, 0x80000000, 0xc0a80100, 0xfffffffe]

def v4net_cases (part, octs):
  for c in v4_cases(part, octs):
    for b in range(33):
      yield c + [b]

def chk_v4net (case, k):
  n = R.v4_int(case[:4]); b = case[4]
  M = R.v4_mask(b); N = n & M
  at, nt, mt = R.v4_text(n), R.v4_text(N), R.v4_text(M)
  IP = A.IPAddr
  okk, a = k.get("ipv4-ctor:str", ("IPAddr(%r)", at), IP, at)
  if not okk: return
  inside = R.v4_contains(N, b, n)          # True by construction; asked of the stdlib anyway
  cidr = "%s/%d" % (nt, b)
  k.eq("ipv4-net:inNetwork-str", ("IPAddr('%s').inNetwork('%s')", at, cidr), inside, a.inNetwork, cidr)
  k.eq("ipv4-net:inNetwork-str", ("IPAddr('%s').in_network('%s')", at, cidr), inside, a.in_network, cidr)
  k.eq("ipv4-net:inNetwork-args-bits", ("IPAddr('%s').inNetwork('%s', %d)", at, nt, b), inside, a.inNetwork, nt, b)
  k.eq("ipv4-net:inNetwork-args-bits", ("IPAddr('%s').inNetwork(IPAddr('%s'), %d)", at, nt, b), inside,
       lambda: a.inNetwork(IP(R.v4_raw(N)), b))
  k.eq("ipv4-net:inNetwork-args-mask", ("IPAddr('%s').inNetwork('%s', '%s')", at, nt, mt), inside, a.inNetwork, nt, mt)
  k.eq("ipv4-net:inNetwork-str-mask", ("IPAddr('%s').inNetwork('%s/%s')", at, nt, mt), inside, a.inNetwork, nt + "/" + mt)
  k.eq("ipv4-net:inNetwork-tuple", ("IPAddr('%s').inNetwork((IPAddr('%s'), %d))", at, nt, b), inside,
       lambda: a.inNetwork((IP(R.v4_raw(N)), b)))
  k.eq("ipv4-net:inNetwork-tuple", ("IPAddr('%s').inNetwork(('%s', %d))", at, nt, b), inside, a.inNetwork, (nt, b))
  # other networks of the same prefix length (mostly non-members)
  others = [x & M for x in V4_OTHER]
  if b >= 1:
    others.append(N ^ (1 << (32 - b)))      # differs in the last network bit
    others.append(N ^ (1 << 31))            # differs in the first bit
  for X in others:
    want = R.v4_contains(X, b, n)
    xt = R.v4_text(X)
    k.eq("ipv4-net:inNetwork-str", ("IPAddr('%s').inNetwork('%s/%d')", at, xt, b), want, a.inNetwork, "%s/%d" % (xt, b))
    k.eq("ipv4-net:inNetwork-tuple", ("IPAddr('%s').inNetwork(('%s', %d))", at, xt, b), want, a.inNetwork, (xt, b))
  # get_network
  for arg in (b, mt):
    k.eq("ipv4-net:get_network", ("IPAddr('%s').get_network(%r)", at, arg), (("IPAddr", R.v4_raw(N)), b),
         lambda: (lambda r: (raw_of(r[0]), r[1]))(a.get_network(arg)))
  # parse_cidr
  want = (("IPAddr", R.v4_raw(N)), b)
  k.eq("ipv4-net:parse_cidr", ("parse_cidr('%s')", cidr), want, _pc, A.parse_cidr, cidr)
  k.eq("ipv4-net:parse_cidr", ("parse_cidr('%s', infer=False)", cidr), want, _pc, A.parse_cidr, cidr, infer=False)
  k.eq("ipv4-net:parse_cidr", ("IPAddr.parse_cidr('%s')", cidr), want, _pc, IP.parse_cidr, cidr)
  k.eq("ipv4-net:parse_cidr-mask", ("parse_cidr('%s/%s')", nt, mt), want, _pc, A.parse_cidr, nt + "/" + mt)
  hostcidr = "%s/%d" % (at, b)
  k.eq("ipv4-net:parse_cidr-allow_host", ("parse_cidr('%s', allow_host=True)", hostcidr), (("IPAddr", R.v4_raw(n)), b),
       _pc, A.parse_cidr, hostcidr, allow_host=True)
  if n != N:
    # ipaddress.ip_network(hostcidr) (strict) refuses this as well
    k.rej("ipv4-net:parse_cidr-host-bits-accepted", ("parse_cidr('%s') (host bits set)", hostcidr), A.parse_cidr, hostcidr)
    k.rej("ipv4-net:parse_cidr-host-bits-accepted", ("parse_cidr('%s/%s') (host bits set)", at, mt), A.parse_cidr, at + "/" + mt)
  # prefix length <-> netmask
  k.eq("ipv4-net:cidr_to_netmask", ("cidr_to_netmask(%d)", b), ("IPAddr", R.v4_raw(M)), lambda: raw_of(A.cidr_to_netmask(b)))
  k.eq("ipv4-net:netmask_to_cidr", ("netmask_to_cidr('%s')", mt), b, A.netmask_to_cidr, mt)
  k.eq("ipv4-net:netmask_to_cidr", ("netmask_to_cidr(IPAddr('%s'))", mt), b, lambda: A.netmask_to_cidr(IP(R.v4_raw(M))))
  if b == 0:
    # once per address: the address read as a netmask, classful inference
    mb = R.mask_bits(n, 32)
    if mb is None:
      k.rej("ipv4-net:netmask_to_cidr-accepts-noncontiguous", ("netmask_to_cidr('%s')", at), A.netmask_to_cidr, at)
      k.rej("ipv4-net:parse_cidr-accepts-noncontiguous", ("parse_cidr('0.0.0.0/%s')", at), A.parse_cidr, "0.0.0.0/" + at)
    else:
      k.eq("ipv4-net:netmask_to_cidr", ("netmask_to_cidr('%s')", at), mb, A.netmask_to_cidr, at)
    cb = R.v4_classful_bits(n)
    k.eq("ipv4-net:infer_netmask", ("infer_netmask(IPAddr('%s'))", at), cb, A.infer_netmask, a)
    host = n & ~R.v4_mask(cb) & 0xffffffff
    k.eq("ipv4-net:parse_cidr-infer", ("parse_cidr('%s')", at), (("IPAddr", R.v4_raw(n)), 32 if host else cb), _pc, A.parse_cidr, at)
    k.eq("ipv4-net:parse_cidr-infer", ("parse_cidr('%s', infer=False)", at), (("IPAddr", R.v4_raw(n)), 32), _pc,
         A.parse_cidr, at, infer=False)


def _pc (f, *a, **kw):
  r = f(*a, **kw)
  return (raw_of(r[0]), r[1])


SEGS = {}
SEGS["v4ctor"] = (lambda th: v4_parts(OCT_T_CTOR if th else OCT_Q),
                  lambda part, th: v4_cases(part, OCT_T_CTOR if th else OCT_Q), chk_v4ctor)
SEGS["v4net"] = (lambda th: v4_parts(OCT_T_NET if th else OCT_Q),
                 lambda part, th: v4net_cases(part, OCT_T_NET if th else OCT_Q), chk_v4net)
