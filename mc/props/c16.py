"""C16 - address types parse, print, compare and mask as the standards say.

E-enum: every case of a stated finite lattice is run against the real pox.lib.addresses /
pox.lib.util and compared with the independent reference in mc/refs/addr_ref.py (stdlib
`ipaddress`, integer arithmetic, RFC 4291/5952 text rules).  Nothing is sampled.

Layout: SEGS maps a segment name to (parts, cases, check):
  parts(thorough)        -> list of JSON-able part descriptors (the unit of parallel work)
  cases(part, thorough)  -> iterator over JSON-able cases of that part
  check(case, k)         -> runs the case against pox, records observations / failed clauses in k
Segments: v4ctor, v4net, v6val, v6net, v6text, bad (malformed input), eth, dpid, law (comparison laws, immutability),
odd (comparison with non-address operands), cross (comparison between address families).
A recorded violation carries {seg, case}; replay() just calls check(case) again.
"""
import itertools, os, struct, sys, traceback
from mc.engine import pmap
from mc.report import Report
from mc.refs import addr_ref as R

PID = "C16"
A = None      # pox.lib.addresses (real code under test)
U = None      # pox.lib.util


def _import ():
  global A, U
  if A is None:
    import pox.lib.addresses as _a
    import pox.lib.util as _u
    A, U = _a, _u
  return A, U


# ------------------------------------------------------------------------------------
# per-case collector
# ------------------------------------------------------------------------------------
def site (e):
  """basename:function of the innermost pox frame of an exception + its type."""
  where = "?"
  for fr in traceback.extract_tb(e.__traceback__):
    if "/pox/" in fr.filename:
      where = "%s:%s" % (os.path.basename(fr.filename), fr.name)
  return "%s:%s" % (where, type(e).__name__)


class K (object):
  __slots__ = ("calls", "evals", "viol", "obs")
  def __init__ (self):
    self.calls = 0; self.evals = 0; self.viol = []; self.obs = []

  def bad (self, clause, what):
    self.viol.append(("%s:%s" % (PID, clause), what))

  def eq (self, clause, desc, expected, f, *a, **kw):
    """f(*a) must return a plain value equal to (and of the type of) expected."""
    self.evals += 1; self.calls += 1
    try:
      r = f(*a, **kw)
    except Exception as e:
      self.bad("%s:raises:%s" % (clause, site(e)),
               "%s raised %s: %s (expected %r)" % (_d(desc), type(e).__name__, e, expected))
      self.obs.append("!" + type(e).__name__)
      return None
    if type(r) is not type(expected) or r != expected:
      self.bad(clause, "%s = %r, expected %r" % (_d(desc), r, expected))
    self.obs.append(r)
    return r

  def get (self, clause, desc, f, *a, **kw):
    """f(*a) must not raise; returns (True, value) or (False, None)."""
    self.calls += 1
    try:
      return True, f(*a, **kw)
    except Exception as e:
      self.evals += 1
      self.bad("%s:raises:%s" % (clause, site(e)), "%s raised %s: %s" % (_d(desc), type(e).__name__, e))
      self.obs.append("!" + type(e).__name__)
      return False, None

  def rej (self, clause, desc, f, *a, **kw):
    """f(*a) must raise (malformed input must be rejected, not mis-parsed)."""
    self.evals += 1; self.calls += 1
    try:
      r = f(*a, **kw)
    except Exception as e:
      self.obs.append("rej")
      return True
    self.bad(clause, "%s was accepted and gave %s" % (_d(desc), _show(r)))
    self.obs.append("acc")
    return False


def _d (desc):
  if isinstance(desc, tuple): return desc[0] % desc[1:]
  return desc

def _show (r):
  try: return repr(r)
  except Exception: return "<%s>" % type(r).__name__

def raw_of (x):
  """Plain value of a pox address object without using its comparison operators."""
  return (type(x).__name__, x.raw)


# ------------------------------------------------------------------------------------
# IPv4 lattices
# ------------------------------------------------------------------------------------
OCT_Q = [0, 1, 127, 128, 254, 255]
OCT_T_CTOR = [0, 1, 2, 9, 10, 63, 64, 99, 100, 127, 128, 172, 191, 192, 223, 224, 239, 240, 254, 255]
OCT_T_NET = [0, 1, 10, 63, 64, 100, 127, 128, 172, 192, 224, 240, 254, 255]

def v4_parts (octs):
  return [[o] for o in octs]

def v4_cases (part, octs):
  for o1 in octs:
    for o2 in octs:
      for o3 in octs:
        yield [part[0], o1, o2, o3]


# -- constructor forms and observables ----------------------------------------------
def chk_v4ctor (case, k):
  n = R.v4_int(case)
  text = R.v4_text(n); raw = R.v4_raw(n)
  nn = R.v4_net_order_int(n)
  IP = A.IPAddr
  # constructor forms, each observed through .raw
  forms = (("str", lambda: IP(text)),
           ("bytes-text", lambda: IP(text.encode())),
           ("raw-bytes", lambda: IP(raw)),
           ("raw-bytearray", lambda: IP(bytearray(raw))),
           ("int-host", lambda: IP(n)),
           ("int-host-kw", lambda: IP(n, networkOrder=False)),
           ("int-net", lambda: IP(nn, networkOrder=True)),
           ("signed-host", lambda: IP(R.signed32(n))),
           ("signed-net", lambda: IP(R.signed32(nn), networkOrder=True)),
           ("copy", lambda: IP(IP(raw))))
  for name, f in forms:
    k.eq("ipv4-ctor:" + name, ("IPAddr built from %s form of %s: .raw", name, text), raw, lambda: f().raw)
  okk, a = k.get("ipv4-ctor:raw-bytes", ("IPAddr(%r)", raw), IP, raw)
  if not okk: return
  d = ("on IPAddr(%r)", raw)
  k.eq("ipv4-observe:str", ("str() %s" % d[0], raw), text, str, a)
  k.eq("ipv4-observe:toStr", ("toStr() %s" % d[0], raw), text, a.toStr)
  k.eq("ipv4-observe:repr", ("repr() %s" % d[0], raw), "IPAddr('%s')" % text, repr, a)
  k.eq("ipv4-observe:toRaw", ("toRaw() %s" % d[0], raw), raw, a.toRaw)
  k.eq("ipv4-observe:toUnsigned", ("toUnsigned() %s" % d[0], raw), n, a.toUnsigned)
  k.eq("ipv4-observe:toUnsigned", ("toUnsigned(networkOrder=False) %s" % d[0], raw), n, a.toUnsigned, networkOrder=False)
  k.eq("ipv4-observe:unsigned_h", ("unsigned_h %s" % d[0], raw), n, lambda: a.unsigned_h)
  k.eq("ipv4-observe:toUnsigned-net", ("toUnsigned(networkOrder=True) %s" % d[0], raw), nn, a.toUnsigned, networkOrder=True)
  k.eq("ipv4-observe:toUnsigned-net", ("toUnsignedN() %s" % d[0], raw), nn, a.toUnsignedN)
  k.eq("ipv4-observe:unsigned_n", ("unsigned_n %s" % d[0], raw), nn, lambda: a.unsigned_n)
  k.eq("ipv4-observe:toSigned", ("toSigned() %s" % d[0], raw), R.signed32(n), a.toSigned)
  k.eq("ipv4-observe:toSigned-net", ("toSigned(networkOrder=True) %s" % d[0], raw), R.signed32(nn), a.toSigned, networkOrder=True)
  k.eq("ipv4-observe:toSigned-net", ("toSignedN() %s" % d[0], raw), R.signed32(nn), a.toSignedN)
  k.eq("ipv4-observe:len", ("len() %s" % d[0], raw), 4, len, a)
  k.eq("ipv4-observe:is_broadcast", ("is_broadcast %s" % d[0], raw), n == 0xffffffff, lambda: a.is_broadcast)
  k.eq("ipv4-observe:is_multicast", ("is_multicast %s (RFC 5771: 224.0.0.0/4)" % d[0], raw), (n >> 28) == 0xe,
       lambda: a.is_multicast)
  # print -> parse -> equal address, equal hash
  okk, b = k.get("ipv4-roundtrip", ("IPAddr(str(IPAddr(%r)))", raw), lambda: IP(str(a)))
  if okk:
    k.eq("ipv4-roundtrip", ("IPAddr(str(a)).raw for a=IPAddr(%r)", raw), raw, lambda: b.raw)
    k.eq("ipv4-roundtrip:eq", ("IPAddr(str(a)) == a for a=IPAddr(%r)", raw), True, lambda: b == a)
    k.eq("ipv4-roundtrip:hash", ("hash(IPAddr(str(a))) == hash(a) for a=IPAddr(%r)", raw), True, lambda: hash(b) == hash(a))
  # IPv4 -> IPv6: documented as "converted to IPv4-mapped IPv6 addresses"
  mapped = (0xffff << 32) | n
  k.eq("ipv6-ctor:from-IPAddr", ("IPAddr6(IPAddr('%s')).raw (must be ::ffff:%s)", text, text), R.v6_raw(mapped),
       lambda: A.IPAddr6(a).raw)


# -- networks, CIDR, netmasks ---------------------------------------------------------
V4_OTHER = [0x00000000, 0x0a000000, 0x7f000000, 0x80000000, 0xc0a80100, 0xfffffffe]

def v4net_cases (part, octs, th=False):
  for c in v4_cases(part, octs):
    for b in range(33):
      yield c + [b] + ([1] if th else [])      # a 6th element = thorough tier: every probe through every call form

def _hostnets (k, clause, full, forms, quick_forms, probes):
  """A network written with host bits set (interface style, '10.0.0.1/8'): refusing it is fine (ipaddress.ip_network
  does so by default); an answer must be the membership in the network the prefix selects (ip_network(..., strict=False)).
  forms x probes; in the quick tier the 2nd and later probes only go through the forms listed in quick_forms."""
  for pi, (p, pt, want) in enumerate(probes):
    for fi, (fam, text, f) in enumerate(forms):
      if pi and not full and fi not in quick_forms: continue
      k.evals += 1; k.calls += 1
      try:
        r = f(p)
      except Exception:
        k.obs.append("rej"); continue
      k.obs.append(r)
      if r is not want:
        k.bad("%s-host-bits-misanswered:%s" % (clause, fam),
              "%s.%s = %r; the network has host bits set: expected a refusal or %r (membership in the network the prefix selects)" % (pt, text, r, want))


def chk_v4net (case, k):
  n = R.v4_int(case[:4]); b = case[4]; full = len(case) > 5
  M = R.v4_mask(b); N = n & M
  at, nt, mt = R.v4_text(n), R.v4_text(N), R.v4_text(M)
  IP = A.IPAddr
  okk, a = k.get("ipv4-ctor:str", ("IPAddr(%r)", at), IP, at)
  if not okk: return
  inside = R.v4_contains(N, b, n)          # True by construction; asked of the stdlib anyway
  cidr = "%s/%d" % (nt, b)
  k.eq("ipv4-net:inNetwork", ("IPAddr('%s').inNetwork('%s')", at, cidr), inside, a.inNetwork, cidr)
  k.eq("ipv4-net:inNetwork", ("IPAddr('%s').in_network('%s')", at, cidr), inside, a.in_network, cidr)
  k.eq("ipv4-net:inNetwork", ("IPAddr('%s').inNetwork('%s', %d)", at, nt, b), inside, a.inNetwork, nt, b)
  k.eq("ipv4-net:inNetwork", ("IPAddr('%s').inNetwork(IPAddr('%s'), %d)", at, nt, b), inside,
       lambda: a.inNetwork(IP(R.v4_raw(N)), b))
  k.eq("ipv4-net:inNetwork", ("IPAddr('%s').inNetwork('%s', '%s')", at, nt, mt), inside, a.inNetwork, nt, mt)
  k.eq("ipv4-net:inNetwork", ("IPAddr('%s').inNetwork('%s/%s')", at, nt, mt), inside, a.inNetwork, nt + "/" + mt)
  k.eq("ipv4-net:inNetwork", ("IPAddr('%s').inNetwork((IPAddr('%s'), %d))", at, nt, b), inside,
       lambda: a.inNetwork((IP(R.v4_raw(N)), b)))
  k.eq("ipv4-net:inNetwork", ("IPAddr('%s').inNetwork(('%s', %d))", at, nt, b), inside, a.inNetwork, (nt, b))
  # other networks of the same prefix length (mostly non-members)
  others = [x & M for x in V4_OTHER]
  if b >= 1:
    others.append(N ^ (1 << (32 - b)))      # differs in the last network bit
    others.append(N ^ (1 << 31))            # differs in the first bit
  for X in others:
    want = R.v4_contains(X, b, n)
    xt = R.v4_text(X)
    k.eq("ipv4-net:inNetwork", ("IPAddr('%s').inNetwork('%s/%d')", at, xt, b), want, a.inNetwork, "%s/%d" % (xt, b))
    k.eq("ipv4-net:inNetwork", ("IPAddr('%s').inNetwork(('%s', %d))", at, xt, b), want, a.inNetwork, (xt, b))
  # get_network
  for arg in (b, mt):
    k.eq("ipv4-net:get_network", ("IPAddr('%s').get_network(%r)", at, arg), (("IPAddr", R.v4_raw(N)), b),
         lambda: (lambda r: (raw_of(r[0]), r[1]))(a.get_network(arg)))
  # parse_cidr
  want = (("IPAddr", R.v4_raw(N)), b)
  k.eq("ipv4-net:parse_cidr", ("parse_cidr('%s')", cidr), want, _pc, A.parse_cidr, cidr)
  k.eq("ipv4-net:parse_cidr", ("parse_cidr('%s', infer=False)", cidr), want, _pc, A.parse_cidr, cidr, infer=False)
  k.eq("ipv4-net:parse_cidr", ("IPAddr.parse_cidr('%s')", cidr), want, _pc, IP.parse_cidr, cidr)
  k.eq("ipv4-net:parse_cidr-mask", ("parse_cidr('%s/%s')", nt, mt), want, _pc, A.parse_cidr, nt + "/" + mt)
  hostcidr = "%s/%d" % (at, b)
  k.eq("ipv4-net:parse_cidr-allow_host", ("parse_cidr('%s', allow_host=True)", hostcidr), (("IPAddr", R.v4_raw(n)), b),
       _pc, A.parse_cidr, hostcidr, allow_host=True)
  if n != N:
    # ipaddress.ip_network(hostcidr) (strict) refuses this as well
    k.rej("ipv4-net:parse_cidr-host-bits-accepted", ("parse_cidr('%s') (host bits set)", hostcidr), A.parse_cidr, hostcidr)
    k.rej("ipv4-net:parse_cidr-host-bits-accepted", ("parse_cidr('%s/%s') (host bits set)", at, mt), A.parse_cidr, at + "/" + mt)
    # the same network text / tuple through every membership call form: refused, or answered as the network it denotes
    aobj = IP(R.v4_raw(n))
    X = n ^ (1 << (32 - b)) if b else None   # differs in the last network bit -> not a member (none exists for /0)
    forms = (("text", "inNetwork('%s/%d')" % (at, b), lambda p: p.inNetwork(hostcidr)),
             ("text", "inNetwork('%s/%s')" % (at, mt), lambda p: p.inNetwork(at + "/" + mt)),
             ("text", "inNetwork('%s', %d)" % (at, b), lambda p: p.inNetwork(at, b)),
             ("text", "inNetwork('%s', '%s')" % (at, mt), lambda p: p.in_network(at, mt)),
             ("text", "inNetwork(IPAddr('%s'), %d)" % (at, b), lambda p: p.inNetwork(aobj, b)),
             ("tuple", "inNetwork(('%s', %d))" % (at, b), lambda p: p.inNetwork((at, b))),
             ("tuple", "inNetwork((IPAddr('%s'), %d))" % (at, b), lambda p: p.in_network((aobj, b))))
    _hostnets(k, "ipv4-net:inNetwork", full, forms, (0, 6),
              [(a, "IPAddr('%s')" % at, R.v4_contains(N, b, n)), (IP(R.v4_raw(N)), "IPAddr('%s')" % nt, R.v4_contains(N, b, N))] +
              ([(IP(R.v4_raw(X)), "IPAddr('%s')" % R.v4_text(X), R.v4_contains(N, b, X))] if b else []))
  # prefix length <-> netmask
  k.eq("ipv4-net:cidr_to_netmask", ("cidr_to_netmask(%d)", b), ("IPAddr", R.v4_raw(M)), lambda: raw_of(A.cidr_to_netmask(b)))
  k.eq("ipv4-net:netmask_to_cidr", ("netmask_to_cidr('%s')", mt), b, A.netmask_to_cidr, mt)
  k.eq("ipv4-net:netmask_to_cidr", ("netmask_to_cidr(IPAddr('%s'))", mt), b, lambda: A.netmask_to_cidr(IP(R.v4_raw(M))))
  if b == 0:
    # once per address: the address read as a netmask, classful inference
    mb = R.mask_bits(n, 32)
    if mb is None:
      k.rej("ipv4-net:netmask_to_cidr-accepts-noncontiguous", ("netmask_to_cidr('%s')", at), A.netmask_to_cidr, at)
      k.rej("ipv4-net:parse_cidr-accepts-noncontiguous", ("parse_cidr('0.0.0.0/%s')", at), A.parse_cidr, "0.0.0.0/" + at)
    else:
      k.eq("ipv4-net:netmask_to_cidr", ("netmask_to_cidr('%s')", at), mb, A.netmask_to_cidr, at)
    cb = R.v4_classful_bits(n)
    k.eq("ipv4-net:infer_netmask", ("infer_netmask(IPAddr('%s'))", at), cb, A.infer_netmask, a)
    host = n & ~R.v4_mask(cb) & 0xffffffff
    k.eq("ipv4-net:parse_cidr-infer", ("parse_cidr('%s')", at), (("IPAddr", R.v4_raw(n)), 32 if host else cb), _pc, A.parse_cidr, at)
    k.eq("ipv4-net:parse_cidr-infer", ("parse_cidr('%s', infer=False)", at), (("IPAddr", R.v4_raw(n)), 32), _pc,
         A.parse_cidr, at, infer=False)


def _pc (f, *a, **kw):
  r = f(*a, **kw)
  return (raw_of(r[0]), r[1])


SEGS = {}
SEGS["v4ctor"] = (lambda th: v4_parts(OCT_T_CTOR if th else OCT_Q),
                  lambda part, th: v4_cases(part, OCT_T_CTOR if th else OCT_Q), chk_v4ctor)
SEGS["v4net"] = (lambda th: v4_parts(OCT_T_NET if th else OCT_Q),
                 lambda part, th: v4net_cases(part, OCT_T_NET if th else OCT_Q, th), chk_v4net)


# ------------------------------------------------------------------------------------
# IPv6 value lattice
# ------------------------------------------------------------------------------------
V6_EXTRA = [[0x2001, 0xdb8, 0x85a3, 0, 0, 0x8a2e, 0x370, 0x7334], [0x2001, 0xdb8, 0, 0, 1, 0, 0, 1],
            [1, 0, 0, 2, 0, 0, 0, 3], [0xfe80, 0, 0, 0, 0xba8d, 0x12ff, 0xfe2a, 0xdd6e], [0xff02, 0, 0, 0, 0, 0, 0, 1],
            [0, 0, 0, 0, 0, 0xffff, 0x0102, 0x0304], [0, 0, 0, 0, 0, 0xffff, 0, 0], [0, 0, 0, 0, 0, 0xffff, 0xffff, 0xffff],
            [0, 0, 0, 0, 0, 0xffff, 0x7f00, 0x0001], [0, 0, 0, 0, 0, 0, 0x0102, 0x0304], [0, 0, 0, 0, 0xffff, 0, 0x0102, 0x0304],
            [0x64, 0xff9b, 0, 0, 0, 0, 0xc000, 0x0221], [0x2000, 0, 0, 0, 0, 0, 0, 0], [0x3fff, 0xffff, 0, 0, 0, 0, 0, 1],
            [0xfc00, 0, 0, 0, 0, 0, 0, 1], [0xfdff, 0, 0, 0, 0, 0, 0, 1], [0xfebf, 0xffff, 0, 0, 0, 0, 0, 1],
            [0xfec0, 0, 0, 0, 0, 0, 0, 1], [0x00ff, 0, 0, 0, 0, 0, 0, 1], [0x0db8, 0x00a0, 0x000f, 0x1000, 0x0100, 0x0010, 0x0001, 0]]

def v6_parts (th):
  if th: return [["tern", a, b, c] for a in range(3) for b in range(3) for c in range(3)] + \
                [["pat", f, hi] for f in (0xffff, 0x0db8) for hi in range(8)] + [["extra"]]
  return [["pat", f, hi] for f in (1, 0xabcd, 0xffff) for hi in range(8)] + [["extra"]]

def v6_values (part):
  if part[0] == "pat":
    for pat in range(part[2] * 32, part[2] * 32 + 32):
      yield [part[1] if pat & (0x80 >> i) else 0 for i in range(8)]
  elif part[0] == "tern":
    tok = (0, 1, 0xabcd)
    for rest in itertools.product(tok, repeat=5):
      yield [tok[part[1]], tok[part[2]], tok[part[3]]] + list(rest)
  else:
    for g in V6_EXTRA: yield list(g)


def zero_runs (groups):
  out = []; i = 0
  while i < 8:
    if groups[i] == 0:
      j = i
      while j < 8 and groups[j] == 0: j += 1
      out.append((i, j)); i = j
    else: i += 1
  return out


def chk_v6val (case, k):
  g = case; n = R.v6_int(g); raw = R.v6_raw(n)
  I6 = A.IPAddr6
  full = ":".join("%x" % x for x in g)
  texts = [("full", full), ("full-padded", ":".join("%04x" % x for x in g)), ("full-upper", full.upper()),
           ("mixed", ":".join("%x" % x for x in g[:6]) + ":" + R.v4_text(n & 0xffffffff)),
           ("rfc5952", R.v6_fmt(n))]
  # every legal placement of '::' over (part of) a zero run
  for (i, j) in zero_runs(g):
    for s in range(i, j):
      for e in range(s + 1, j + 1):
        texts.append(("compressed", ":".join("%x" % x for x in g[:s]) + "::" + ":".join("%x" % x for x in g[e:])))
        if e <= 6:
          texts.append(("compressed-mixed", ":".join("%x" % x for x in g[:s]) + "::" + ":".join("%x" % x for x in g[e:6])
                        + (":" if e < 6 else "") + R.v4_text(n & 0xffffffff)))
  for form, t in texts:
    if R.v6_parse(t) != n: raise RuntimeError("harness: reference does not read %r as %x" % (t, n))
    k.evals += 1; k.calls += 1
    try:
      r = I6(t).raw
    except Exception as e:
      cls = R.v6_text_class(t)
      # '::' standing for a single group is legal in RFC 4291 but discouraged by RFC 5952; the property speaks
      # of accepted forms and of rejecting malformed ones, so refusing this form is not judged
      if cls == "edge-compression-of-one-group":
        k.obs.append("rej-edge"); continue
      k.bad("ipv6-text-rejects-valid:" + cls, "IPAddr6(%r) raised %s: %s; RFC 4291 reads it as %s" % (t, type(e).__name__, e, R.v6_fmt(n)))
      k.obs.append("rej"); continue
    if r != raw:
      k.bad("ipv6-text-value:" + form, "IPAddr6(%r).raw = %s, expected %s" % (t, r.hex(), raw.hex()))
  # the same text as bytes (EthAddr and IPAddr read bytes as text): judged for its value only when accepted, and not
  # when it is 16 bytes long (then it may as well be meant as a raw address)
  for form, t in texts[:5]:
    if len(t) == 16: continue
    k.evals += 1; k.calls += 1
    try:
      r = I6(t.encode()).raw
    except Exception:
      k.obs.append("bytes-text-rej"); continue
    if r != raw:
      k.bad("ipv6-text-value:bytes-" + form, "IPAddr6(%r).raw = %s, expected %s" % (t.encode(), r.hex(), raw.hex()))
  # binary forms
  k.eq("ipv6-ctor:raw-flag", ("IPAddr6(%r, raw=True).raw", raw), raw, lambda: I6(raw, raw=True).raw)
  k.eq("ipv6-ctor:from_raw", ("IPAddr6.from_raw(%r).raw", raw), raw, lambda: I6.from_raw(raw).raw)
  k.eq("ipv6-ctor:raw-kw", ("IPAddr6(raw=%r).raw", raw), raw, lambda: I6(raw=raw).raw)
  k.eq("ipv6-ctor:bytearray", ("IPAddr6(bytearray(%r)).raw", raw), raw, lambda: I6(bytearray(raw)).raw)
  k.eq("ipv6-ctor:copy", ("IPAddr6(IPAddr6.from_raw(%r)).raw", raw), raw, lambda: I6(I6.from_raw(raw)).raw)
  k.eq("ipv6-from_num", ("IPAddr6.from_num(0x%x) as (type, raw)", n), ("IPAddr6", raw),
       lambda: (lambda r: (type(r).__name__, r if isinstance(r, bytes) else r.raw))(I6.from_num(n)))
  okk, a = k.get("ipv6-ctor:from_raw", ("IPAddr6.from_raw(%r)", raw), I6.from_raw, raw)
  if not okk: return
  canon = R.v6_canonical(n)
  k.eq("ipv6-observe:num", ("IPAddr6('%s').num", canon), n, lambda: a.num)
  k.eq("ipv6-observe:len", ("len(IPAddr6('%s'))", canon), 16, len, a)
  k.eq("ipv6-observe:str", ("str(IPAddr6.from_raw(%s)) (RFC 5952)", raw.hex()), canon, str, a)
  k.eq("ipv6-observe:repr", ("repr(IPAddr6.from_raw(%s))", raw.hex()), "IPAddr6('%s')" % canon, repr, a)
  mapped = R.v6_is_mapped(n)
  for zd in (True, False):
    for sd in (True, False):
      for v4 in (None, True, False):
        want = R.v6_fmt(n, zd, sd, mapped if v4 is None else v4)
        okk, s = k.get("ipv6-to_str", ("IPAddr6('%s').to_str(%s,%s,%s)", canon, zd, sd, v4), a.to_str, zd, sd, v4)
        if not okk: continue
        k.evals += 1
        if s != want:
          opt = "default" if (zd, sd, v4) == (True, True, None) else "options"
          k.bad("ipv6-to_str:" + opt, "IPAddr6.from_raw(%s).to_str(zero_drop=%s, section_drop=%s, ipv4=%s) = %r, expected %r"
                % (raw.hex(), zd, sd, v4, s, want))
        k.obs.append(s)
        k.eq("ipv6-roundtrip", ("IPAddr6(%r).raw (text printed by to_str(%s,%s,%s))", s, zd, sd, v4), raw, lambda: I6(s).raw)
  okk, b = k.get("ipv6-roundtrip", ("IPAddr6(str(a)) for a=%s", canon), lambda: I6(str(a)))
  if okk:
    k.eq("ipv6-roundtrip:eq", ("IPAddr6(str(a)) == a for a=%s", canon), True, lambda: b == a)
    k.eq("ipv6-roundtrip:hash", ("hash(IPAddr6(str(a))) == hash(a) for a=%s", canon), True, lambda: hash(b) == hash(a))
  # well-known ranges (RFC 4291 2.4, 2.5.5; RFC 4193) = network membership with fixed networks
  for name, net, bits in (("is_multicast", 0xff << 120, 8), ("is_global_unicast", 0x2 << 124, 3),
                          ("is_unique_local_unicast", 0xfc << 120, 7), ("is_link_unicast", 0xfe80 << 112, 10),
                          ("is_ipv4_compatible", 0, 96), ("is_ipv4_mapped", 0xffff << 32, 96)):
    k.eq("ipv6-net:" + name, ("IPAddr6('%s').%s", canon, name), R.v6_contains(net, bits, n), lambda: getattr(a, name))
  low = ("IPAddr", R.v4_raw(n & 0xffffffff))
  k.eq("ipv6-observe:ipv4", ("IPAddr6('%s').ipv4", canon), low, lambda: raw_of(a.ipv4))
  if (n >> 48) == 0:       # pox's own notion of "IPv4ish" (::/80); to_ipv4() must then give the low 32 bits
    k.eq("ipv6-observe:to_ipv4", ("IPAddr6('%s').to_ipv4()", canon), low, lambda: raw_of(a.to_ipv4()))


V6_OTHER = [0, 0x2001 << 112, 0xfe80 << 112, 1 << 127, 0xffff << 32, (1 << 128) - 2]

def v6net_cases (part, th):
  # last element: how far the host-bit network forms go: 2 = every probe through every call form (thorough), 1 = the quick
  # subset of probe x form (see _hostnets), 0 = left out (quick tier, group values other than ffff: the ffff patterns have
  # host bits wherever a group lies behind the prefix and reach every prefix length)
  lvl = 2 if th else (1 if part[0] == "extra" or part[1] == 0xffff else 0)
  for g in v6_values(part):
    for b in range(129):
      yield g + [b, lvl]

def _pc6 (f, *a, **kw):
  r = f(*a, **kw)
  return (raw_of(r[0]), r[1])

def chk_v6net (case, k):
  g = case[:8]; b = case[8]; lvl = case[9]
  n = R.v6_int(g); M = R.v6_mask(b); N = n & M
  at, nt, mt = R.v6_fmt(n), R.v6_fmt(N), R.v6_fmt(M)
  I6 = A.IPAddr6
  okk, a = k.get("ipv6-ctor:from_raw", ("IPAddr6.from_raw(%s)", at), I6.from_raw, R.v6_raw(n))
  if not okk: return
  netobj = I6.from_raw(R.v6_raw(N))
  inside = R.v6_contains(N, b, n)
  cidr = "%s/%d" % (nt, b)
  k.eq("ipv6-net:in_network", ("IPAddr6('%s').in_network('%s')", at, cidr), inside, a.in_network, cidr)
  k.eq("ipv6-net:in_network", ("IPAddr6('%s').in_network('%s', %d)", at, nt, b), inside, a.in_network, nt, b)
  k.eq("ipv6-net:in_network", ("IPAddr6('%s').in_network(IPAddr6('%s'), %d)", at, nt, b), inside, a.in_network, netobj, b)
  k.eq("ipv6-net:in_network", ("IPAddr6('%s').in_network('%s', '%s')", at, nt, mt), inside, a.in_network, nt, mt)
  k.eq("ipv6-net:in_network", ("IPAddr6('%s').in_network('%s/%s')", at, nt, mt), inside, a.in_network, nt + "/" + mt)
  k.eq("ipv6-net:in_network", ("IPAddr6('%s').in_network(('%s', %d))", at, nt, b), inside, a.in_network, (nt, b))
  k.eq("ipv6-net:in_network", ("IPAddr6('%s').in_network((IPAddr6('%s'), %d))", at, nt, b), inside, a.in_network, (netobj, b))
  others = [x & M for x in V6_OTHER]
  if b >= 1:
    others.append(N ^ (1 << (128 - b)))
    others.append(N ^ (1 << 127))
  for X in others:
    want = R.v6_contains(X, b, n)
    xt = R.v6_fmt(X)
    k.eq("ipv6-net:in_network", ("IPAddr6('%s').in_network('%s/%d')", at, xt, b), want, a.in_network, "%s/%d" % (xt, b))
    k.eq("ipv6-net:in_network", ("IPAddr6('%s').in_network(('%s', %d))", at, xt, b), want, a.in_network, (xt, b))
  want = (("IPAddr6", R.v6_raw(N)), b)
  k.eq("ipv6-net:parse_cidr", ("IPAddr6.parse_cidr('%s')", cidr), want, _pc6, I6.parse_cidr, cidr)
  k.eq("ipv6-net:parse_cidr-mask", ("IPAddr6.parse_cidr('%s/%s')", nt, mt), want, _pc6, I6.parse_cidr, nt + "/" + mt)
  hostcidr = "%s/%d" % (at, b)
  k.eq("ipv6-net:parse_cidr-allow_host", ("IPAddr6.parse_cidr('%s', allow_host=True)", hostcidr), (("IPAddr6", R.v6_raw(n)), b),
       _pc6, I6.parse_cidr, hostcidr, allow_host=True)
  if n != N:
    k.rej("ipv6-net:parse_cidr-host-bits-accepted", ("IPAddr6.parse_cidr('%s') (host bits set)", hostcidr), I6.parse_cidr, hostcidr)
  if n != N and lvl:
    X = n ^ (1 << (128 - b)) if b else None      # differs in the last network bit -> not a member (none exists for /0)
    forms = (("text", "in_network('%s/%d')" % (at, b), lambda p: p.in_network(hostcidr)),
             ("text", "in_network('%s/%s')" % (at, mt), lambda p: p.in_network(at + "/" + mt)),
             ("text", "in_network('%s', %d)" % (at, b), lambda p: p.in_network(at, b)),
             ("text", "in_network('%s', '%s')" % (at, mt), lambda p: p.in_network(at, mt)),
             ("text", "in_network(IPAddr6('%s'), %d)" % (at, b), lambda p: p.in_network(a, b)),
             ("tuple", "in_network(('%s', %d))" % (at, b), lambda p: p.in_network((at, b))),
             ("tuple", "in_network((IPAddr6('%s'), %d))" % (at, b), lambda p: p.in_network((a, b))))
    _hostnets(k, "ipv6-net:in_network", lvl > 1, forms, (0, 6),
              [(a, "IPAddr6('%s')" % at, R.v6_contains(N, b, n)), (netobj, "IPAddr6('%s')" % nt, R.v6_contains(N, b, N))] +
              ([(I6.from_raw(R.v6_raw(X)), "IPAddr6('%s')" % R.v6_fmt(X), R.v6_contains(N, b, X))] if b else []))
  # prefix length <-> netmask
  okk, r = k.get("ipv6-net:cidr_to_netmask", ("IPAddr6.cidr_to_netmask(%d)", b), I6.cidr_to_netmask, b)
  if okk:
    k.evals += 1
    if type(r) is not I6:
      k.bad("ipv6-from_num" if type(r) is bytes else "ipv6-net:cidr_to_netmask",
            "IPAddr6.cidr_to_netmask(%d) returned a %s (%r), documented to return an IPAddr6" % (b, type(r).__name__, r))
    rv = r if isinstance(r, bytes) else r.raw
    if rv != R.v6_raw(M):
      k.bad("ipv6-net:cidr_to_netmask", "IPAddr6.cidr_to_netmask(%d) = %s, expected %s" % (b, rv.hex(), R.v6_raw(M).hex()))
  k.eq("ipv6-net:netmask_to_cidr", ("IPAddr6.netmask_to_cidr('%s')", mt), b, I6.netmask_to_cidr, mt)
  k.eq("ipv6-net:netmask_to_cidr", ("IPAddr6.netmask_to_cidr(IPAddr6('%s'))", mt), b, lambda: I6.netmask_to_cidr(I6.from_raw(R.v6_raw(M))))
  if b == 128:
    k.eq("ipv6-net:parse_cidr", ("IPAddr6.parse_cidr('%s')", at), (("IPAddr6", R.v6_raw(n)), 128), _pc6, I6.parse_cidr, at)
    mb = R.mask_bits(n, 128)
    if mb is None:
      k.rej("ipv6-net:netmask_to_cidr-accepts-noncontiguous", ("IPAddr6.netmask_to_cidr('%s')", at), I6.netmask_to_cidr, at)
      k.rej("ipv6-net:parse_cidr-accepts-noncontiguous", ("IPAddr6.parse_cidr('::/%s')", at), I6.parse_cidr, "::/" + at)
    else:
      k.eq("ipv6-net:netmask_to_cidr", ("IPAddr6.netmask_to_cidr('%s')", at), mb, I6.netmask_to_cidr, at)


SEGS["v6val"] = (v6_parts, lambda part, th: v6_values(part), chk_v6val)
SEGS["v6net"] = (v6_parts, v6net_cases, chk_v6net)


# ------------------------------------------------------------------------------------
# IPv6 text grammar: every string of 0..9 groups, '::' at each position or absent, +- IPv4 tail
# ------------------------------------------------------------------------------------
TOK_Q = ["0", "1", "ffff"]
TOK_T = ["0", "1", "ffff", "abcd"]
V4TAIL = "1.2.3.4"

def v6text_parts (th):
  ntok = len(TOK_T if th else TOK_Q)
  parts = []
  for tail in (0, 1):
    for n in range(10):
      if n >= 6: parts += [[n, tail, i, j] for i in range(ntok) for j in range(ntok)]
      else: parts.append([n, tail])
  return parts

def v6text_cases (part, th):
  tok = TOK_T if th else TOK_Q
  n, tail = part[0], part[1]
  pre = [tok[i] for i in part[2:]]
  for rest in itertools.product(tok, repeat=n - len(pre)):
    e = pre + list(rest) + ([V4TAIL] if tail else [])
    yield [":".join(e)]
    for p in range(len(e) + 1):
      yield [":".join(e[:p]) + "::" + ":".join(e[p:])]

def chk_v6text (case, k):
  s = case[0]
  want = R.v6_parse(s)
  k.evals += 1; k.calls += 1
  try:
    a = A.IPAddr6(s); got = a.raw
  except Exception as e:
    if want is not None:
      cls = R.v6_text_class(s)
      if cls != "edge-compression-of-one-group":     # not judged, see above
        k.bad("ipv6-text-rejects-valid:" + cls, "IPAddr6(%r) raised %s: %s; RFC 4291 reads it as %s" % (s, type(e).__name__, e, R.v6_fmt(want)))
      k.obs.append(("rej-valid", cls))
    else:
      k.obs.append(("rej", s.count(":"), "::" in s, "." in s))
    return
  if want is None:
    cls = R.v6_text_class(s)
    k.bad("ipv6-text-accepts:" + cls, "IPAddr6(%r) is accepted and read as %s; it is not a valid RFC 4291 text" % (s, _show(a)))
    k.obs.append(("acc-invalid", cls))
    return
  if got != R.v6_raw(want):
    k.bad("ipv6-text-value:grammar", "IPAddr6(%r).raw = %s, expected %s" % (s, got.hex(), R.v6_raw(want).hex()))
  # accepted: printing gives the canonical text, which re-parses to the same address
  canon = R.v6_canonical(want)
  k.eq("ipv6-observe:str", ("str(IPAddr6(%r))", s), canon, str, a)
  k.eq("ipv6-roundtrip", ("IPAddr6(str(IPAddr6(%r))).raw", s), R.v6_raw(want), lambda: A.IPAddr6(str(a)).raw)
  k.obs[:] = [("ok", canon)]

SEGS["v6text"] = (v6text_parts, v6text_cases, chk_v6text)


# ------------------------------------------------------------------------------------
# malformed input (unambiguous): must be rejected, never mis-parsed
# ------------------------------------------------------------------------------------
JUNK6 = ["0x1", "+1", "-0", "-1", " 1", "1 ", "1_0", "00001", "10000", "fffff", "g", "1g", "1.2", "0001:", "1/8"]
BASE6 = ["1:2:3:4:5:6:7:8", "1::8", "::1", "1::", "::ffff:1.2.3.4", "1:2:3:4:5:6:1.2.3.4", "1:2::7:8"]
BADTAIL = ["1.2.3", "1.2.3.4.5", "256.2.3.4", "1.2.3.-4", "1..3.4", "1.2.3.4 x", "1.2.3.4x", ".1.2.3", "1.2.3.", "a.b.c.d"]

# a prefix length that is not a plain run of ASCII decimal digits (what int() tolerates: blanks, sign, underscores, non-ASCII
# digits; other number syntaxes); every entry reads as 8, 16 or 0 once the junk is ignored, so only the spelling is wrong
PFX_JUNK = [" 8", "8 ", "\t8", "8\n", "\n8", "8\r\n", " 8 ", "+8", "-0", "+0", "1_6", "0_8", "\u0668", "\uff18", "\u0661\u0666", "0x8", "0o10", "0b1000",
            "8.", "8,", "8;", "8e0", "8L", "(8)"]

def bad_cases (part, th):
  kind = part[0]
  if kind == "v6":
    seen = set()
    for base in BASE6:
      el = base.split(":")
      for i, x in enumerate(el):
        if x == "" or "." in x: continue
        for j in JUNK6:
          s = ":".join(el[:i] + [j] + el[i + 1:])
          if s not in seen: seen.add(s); yield ["v6", s]
      for s in (" " + base, base + " ", base + "/64", base + ":", ":" + base, base + "\n", base + "::", "::" + base, base.replace(":", ":::", 1)):
        if s not in seen and R.v6_parse(s) is None: seen.add(s); yield ["v6", s]
    for t in BADTAIL:
      for pre in ("::ffff:", "::", "1:2:3:4:5:6:", "1::"):
        yield ["v6", pre + t]
    for s in ("", ":", "1", "1:2", "::g", "1:2:3:4:5:6:7:8:9", "::1::", "1::2::3", "1.2.3.4", "::1.2.3.4:5", "1:2:3:4:5:6:7:1.2.3.4", "12345::", "::-1"):
      yield ["v6", s]
    for s, cls in (("1::/129", "prefix-out-of-range"), ("1::/-1", "prefix-out-of-range"), ("1::/", "malformed-cidr"),
                   ("1::/x", "malformed-cidr"), ("1::/64/8", "junk-after-prefix"), ("1::/ffff::/16", "junk-after-prefix"),
                   ("1::/ffff:0:ffff::", "noncontiguous-netmask"), ("1::/1.2.3.4", "malformed-cidr"), ("/64", "malformed-cidr"),
                   ("1::/64 x", "junk-after-prefix")):
      yield ["v6cidr", s, cls]
    for ln in (0, 1, 4, 15, 17, 32):
      yield ["v6raw", ln]
    for j in PFX_JUNK:
      yield ["v6pfx", j]
  elif kind == "v4":
    for pos in range(4):
      for j in ("256", "999", "-1", "", "a", "1a", "+1", "1e1", "٣"):
        el = ["1", "2", "3", "4"]; el[pos] = j
        yield ["v4", ".".join(el)]
    for s in ("", ".", "1.2.3.4.5", "1.2.3.4.", ".1.2.3.4", "1.2.3.4x", "1.2.3.4 x", "x1.2.3.4", " 1.2.3.4", "1.2.3.4/8", "1,2,3,4", "1.2.3.4:80", "::1"):
      yield ["v4", s]
    for s, cls in (("1.0.0.0/33", "prefix-out-of-range"), ("1.0.0.0/64", "prefix-out-of-range"), ("1.0.0.0/-1", "prefix-out-of-range"),
                   ("1.0.0.0/", "malformed-cidr"), ("1.0.0.0/x", "malformed-cidr"), ("1.0.0.0/8/9", "junk-after-prefix"),
                   ("1.0.0.0/8x", "junk-after-prefix"), ("1.0.0.0/255.0.0.0/8", "junk-after-prefix"), ("1.0.0.0/8 x", "junk-after-prefix"),
                   ("1.0.0.0/255.0.255.0", "noncontiguous-netmask"), ("1.0.0.0/0.255.0.0", "noncontiguous-netmask"),
                   ("1.0.0.0/255.255.255.256", "malformed-cidr"), ("/8", "malformed-cidr"), ("256.0.0.0/8", "malformed-cidr"),
                   ("1.0.0.0//8", "malformed-cidr"), ("1.0.0.0.0/8", "malformed-cidr")):
      yield ["v4cidr", s, cls]
    for ln in (0, 1, 2, 3, 5, 8):
      yield ["v4raw", ln]
    for j in PFX_JUNK:
      yield ["v4pfx", j]
    for v in ("None", "1.5", "[1,2,3,4]"):
      yield ["v4type", v]
  elif kind == "eth":
    std = ["00", "11", "22", "33", "44", "55"]
    for sep in (":", "-"):
      for pos in range(6):
        for j in ("gg", "1g", "+1", " 1", "1 ", "-1", "0x", "1_", "١١"):
          el = list(std); el[pos] = j
          yield ["eth", sep.join(el)]
      yield ["eth", sep.join(std[:5])]
      yield ["eth", sep.join(std + ["66"])]
      yield ["eth", sep.join(std) + sep]
      yield ["eth", sep + sep.join(std)]
      yield ["eth", sep.join(std) + "0"]
    for s in ("00-11:22-33:44-55", "00:11:22:33:44-55", "00.11.22.33.44.55", "00:11:22:33:4455", "0011:2233:4455:66", "00 11 22 33 44 55"):
      yield ["eth", s]
    for pos in range(6):
      for j in ("100", "fff", "0x1", "+1", " 1", "-1", "g", "", "1_0"):
        el = ["1", "2", "3", "4", "5", "a"]; el[pos] = j
        yield ["eth", ":".join(el)]
    for s in ("+12233445566", " 12233445566", "gg2233445566", "0x2233445566", "00112233445", "0011223344556", "-01122334455",
              "", "0", "00:11", "0011223344556677"):
      yield ["eth", s]
    for ctor in ("tuple", "list", "bytearray"):
      for ln in (0, 1, 3, 5, 7, 8):
        yield ["ethseq", ctor, ln]
    for ln in (0, 1, 5, 7, 8, 16):
      yield ["ethraw", ln]
    for v in ("(1,2,3,4,5,256)", "(1,2,3,4,5,-1)", "5", "1.5"):
      yield ["ethtype", v]
  elif kind == "dpid":
    for s in ("", "zz", "1|x", "|1", "00-00-00-00-00-0g", "00-00-00-00-00-01|65536", "00-00-00-00-00-01|99999", "1ffffffffffffffff"):
      yield ["dpid", s]


def eth_bad_class (s):
  hexd = "0123456789abcdefABCDEF"
  if any(c not in hexd + ":-" for c in s) or (s.count("-") and s.count(":")) or s.startswith("-") and len(s) == 12:
    if s.count("-") and s.count(":"): return "mixed-separators"
    return "non-hex-characters"
  for sep in (":", "-"):
    if sep in s:
      el = s.split(sep)
      if len(el) != 6: return "wrong-group-count"
      if any(len(x) > 2 for x in el): return "group-out-of-range"
      if any(x == "" for x in el): return "empty-group"
  return "wrong-length"

def chk_bad (case, k):
  kind = case[0]
  if kind == "v6":
    s = case[1]
    if R.v6_parse(s) is not None: raise RuntimeError("harness: %r is valid" % s)
    k.rej("ipv6-text-accepts:" + R.v6_text_class(s), ("IPAddr6(%r)", s), lambda: A.IPAddr6(s))
  elif kind == "v6cidr":
    s = case[1]
    cls = case[2]
    k.rej("ipv6-cidr-accepts:" + cls, ("IPAddr6.parse_cidr(%r, allow_host=True)", s), lambda: A.IPAddr6.parse_cidr(s, allow_host=True))
    k.rej("ipv6-cidr-accepts:" + cls, ("IPAddr6('::').in_network(%r)", s), lambda: A.IPAddr6("::").in_network(s))
  elif kind == "v6raw":
    b = bytes(range(1, case[1] + 1))
    k.rej("ipv6-binary-accepts:wrong-length", ("IPAddr6(%r, raw=True)", b), lambda: A.IPAddr6(b, raw=True))
    k.rej("ipv6-binary-accepts:wrong-length", ("IPAddr6.from_raw(%r)", b), lambda: A.IPAddr6.from_raw(b))
    k.rej("ipv6-binary-accepts:wrong-length", ("IPAddr6(bytearray(%r))", b), lambda: A.IPAddr6(bytearray(b)))
  elif kind == "v4":
    s = case[1]
    cls = "trailing-junk-after-whitespace" if " " in s.strip() and s[0] != " " else "malformed-dotted-quad"
    # what the C library's inet_aton accepts by tradition ("1.2.3.4 x": parsing stops at white space) is not
    # called malformed (DESIGN.md C16 scoping)
    if cls == "malformed-dotted-quad":
      k.rej("ipv4-text-accepts:" + cls, ("IPAddr(%r)", s), lambda: A.IPAddr(s))
      if s:
        k.rej("ipv4-text-accepts:" + cls, ("IPAddr(%r)", s.encode()), lambda: A.IPAddr(s.encode()))
  elif kind == "v4cidr":
    s = case[1]
    cls = case[2]
    k.rej("ipv4-cidr-accepts:" + cls, ("parse_cidr(%r, allow_host=True)", s), lambda: A.parse_cidr(s, allow_host=True))
    k.rej("ipv4-cidr-accepts:" + cls, ("IPAddr('0.0.0.0').inNetwork(%r)", s), lambda: A.IPAddr("0.0.0.0").inNetwork(s))
  elif kind in ("v4pfx", "v6pfx"):
    j = case[1]
    import ipaddress
    v4 = kind == "v4pfx"
    cl = ("ipv4" if v4 else "ipv6") + "-cidr-accepts:prefix-not-decimal-digits"
    for net in (("0.0.0.0", "10.0.0.0") if v4 else ("::", "fe80::")):
      t = net + "/" + j
      try: ipaddress.ip_network(t)
      except ValueError: pass
      else: raise RuntimeError("harness: the stdlib reads %r as a network" % t)
      if v4:
        p = A.IPAddr("10.0.0.0")
        k.rej(cl, ("parse_cidr(%r)", t), lambda: A.parse_cidr(t))
        k.rej(cl, ("parse_cidr(%r, infer=False)", t), lambda: A.parse_cidr(t, infer=False))
        k.rej(cl, ("parse_cidr(%r, allow_host=True)", t), lambda: A.parse_cidr(t, allow_host=True))
        k.rej(cl, ("IPAddr.parse_cidr(%r)", t), lambda: A.IPAddr.parse_cidr(t))
        k.rej(cl, ("IPAddr('10.0.0.0').inNetwork(%r)", t), lambda: p.inNetwork(t))
        k.rej(cl, ("IPAddr('10.0.0.0').inNetwork(%r, %r)", net, j), lambda: p.inNetwork(net, j))
        k.rej(cl, ("IPAddr('10.0.0.0').in_network(IPAddr(%r), %r)", net, j), lambda: p.in_network(A.IPAddr(net), j))
      else:
        p = A.IPAddr6("fe80::")
        k.rej(cl, ("IPAddr6.parse_cidr(%r)", t), lambda: A.IPAddr6.parse_cidr(t))
        k.rej(cl, ("IPAddr6.parse_cidr(%r, allow_host=True)", t), lambda: A.IPAddr6.parse_cidr(t, allow_host=True))
        k.rej(cl, ("IPAddr6('fe80::').in_network(%r)", t), lambda: p.in_network(t))
        k.rej(cl, ("IPAddr6('fe80::').in_network(%r, %r)", net, j), lambda: p.in_network(net, j))
        k.rej(cl, ("IPAddr6('fe80::').in_network(IPAddr6(%r), %r)", net, j), lambda: p.in_network(A.IPAddr6(net), j))
    if v4:
      k.rej(cl, ("IPAddr('10.1.2.3').get_network(%r)", j), lambda: A.IPAddr("10.1.2.3").get_network(j))
  elif kind == "v4raw":
    b = bytes(range(1, case[1] + 1))
    k.rej("ipv4-binary-accepts:wrong-length", ("IPAddr(%r)", b), lambda: A.IPAddr(b))
    k.rej("ipv4-binary-accepts:wrong-length", ("IPAddr(bytearray(%r))", b), lambda: A.IPAddr(bytearray(b)))
  elif kind == "v4type":
    v = eval(case[1])
    k.rej("ipv4-ctor-accepts:wrong-type", ("IPAddr(%s)", case[1]), lambda: A.IPAddr(v))
  elif kind == "eth":
    s = case[1]
    cls = eth_bad_class(s)
    k.rej("eth-text-accepts:" + cls, ("EthAddr(%r)", s), lambda: A.EthAddr(s))
    if len(s.encode()) != 6:
      k.rej("eth-text-accepts:" + cls, ("EthAddr(%r)", s.encode()), lambda: A.EthAddr(s.encode()))
  elif kind == "ethseq":
    vals = list(range(1, case[2] + 1))
    v = {"tuple": tuple, "list": list, "bytearray": bytearray}[case[1]](vals)
    k.rej("eth-binary-accepts:wrong-length-sequence", ("EthAddr(%r)", v), lambda: A.EthAddr(v))
  elif kind == "ethraw":
    b = bytes([0x80 + i for i in range(case[1])])
    k.rej("eth-binary-accepts:wrong-length-raw", ("EthAddr(%r)", b), lambda: A.EthAddr(b))
  elif kind == "ethtype":
    v = eval(case[1])
    k.rej("eth-ctor-accepts:bad-value", ("EthAddr(%s)", case[1]), lambda: A.EthAddr(v))
  elif kind == "dpid":
    s = case[1]
    cls = "value-out-of-range" if s.endswith(("65536", "99999", "1ffffffffffffffff")) else "malformed"
    k.evals += 1; k.calls += 1
    try:
      r = U.str_to_dpid(s)
    except Exception:
      k.obs.append("rej"); return
    k.obs.append("acc")
    k.bad("dpid-text-accepts:" + cls, "str_to_dpid(%r) was accepted and gave %r%s" % (s, r, "" if 0 <= r < (1 << 64) else " (not a 64-bit id)"))

SEGS["bad"] = (lambda th: [["v6"], ["v4"], ["eth"], ["dpid"]], bad_cases, chk_bad)


# ------------------------------------------------------------------------------------
# Ethernet addresses
# ------------------------------------------------------------------------------------
def eth_parts (th):
  if th: return [["cross", m, hi] for m in (0, 1) for hi in range(16)] + [["lat6", i] for i in range(6)] + [["near"]]
  return [["first"], ["last"], ["near"]] + [["lat4", i] for i in range(4)]

MID = ([0x23, 0x45, 0x67, 0x89], [0x80, 0xc2, 0x00, 0x00])

def eth_cases (part, th):
  kind = part[0]
  if kind == "first":
    for f in range(256):
      yield [f, 0x23, 0x45, 0x67, 0x89, 0xab]
      yield [f, 0x80, 0xc2, 0x00, 0x00, 0x05]
  elif kind == "last":
    for l in range(256):
      yield [0x01, 0x80, 0xc2, 0x00, 0x00, l]
      yield [0x00, 0x23, 0x45, 0x67, 0x89, l]
  elif kind == "near":
    for l in (0x00, 0x0f, 0x10, 0xff):
      for v in ([0x01, 0x80, 0xc2, 0x00, 0x01, l], [0x01, 0x80, 0xc2, 0x01, 0x00, l], [0x01, 0x80, 0xc3, 0x00, 0x00, l],
                [0x01, 0x81, 0xc2, 0x00, 0x00, l], [0x00, 0x80, 0xc2, 0x00, 0x00, l], [0x03, 0x80, 0xc2, 0x00, 0x00, l],
                [0xff, 0xff, 0xff, 0xff, 0xff, l], [l, 0xff, 0xff, 0xff, 0xff, 0xff]):
        yield v
  elif kind == "lat4":
    vals = (0x00, 0x0a, 0x10, 0xff)
    for rest in itertools.product(vals, repeat=5): yield [vals[part[1]]] + list(rest)
  elif kind == "lat6":
    vals = (0x00, 0x01, 0x0f, 0x10, 0x80, 0xff)
    for rest in itertools.product(vals, repeat=5): yield [vals[part[1]]] + list(rest)
  elif kind == "cross":
    for f in range(part[2] * 16, part[2] * 16 + 16):
      for l in range(256):
        yield [f] + MID[part[1]] + [l]

def chk_eth (case, k):
  bs = case; raw = bytes(bs)
  E = A.EthAddr
  colon = R.eth_text(bs, ":"); hyph = R.eth_text(bs, "-"); bare = R.eth_text(bs, "")
  short = ":".join("%x" % b for b in bs)
  forms = [("colon", colon), ("colon-upper", colon.upper()), ("hyphen", hyph), ("hyphen-upper", hyph.upper()), ("bare-hex", bare),
           ("bare-hex-upper", bare.upper()), ("colon-bytes", colon.encode()), ("hyphen-bytes", hyph.encode()), ("bare-hex-bytes", bare.encode()),
           ("raw-bytes", raw), ("tuple", tuple(bs)), ("list", list(bs)), ("bytearray", bytearray(raw))]
  for name, v in forms:
    k.eq("eth-ctor:" + name, ("EthAddr(%r).raw", v), raw, lambda: E(v).raw)
  k.eq("eth-ctor:copy", ("EthAddr(EthAddr(%r)).raw", raw), raw, lambda: E(E(raw)).raw)
  # pox's own short-group form (x:x:x:x:x:x): when it is accepted the value must be right; a rejection is not
  # judged (no standard defines the form; pox rejects it when the text happens to be 12 characters long)
  if short != colon:
    k.evals += 1; k.calls += 1
    try:
      r = E(short).raw
      if r != raw: k.bad("eth-ctor:short-groups", "EthAddr(%r).raw = %s, expected %s" % (short, r.hex(), raw.hex()))
    except Exception:
      k.obs.append("short-rej")
  okk, a = k.get("eth-ctor:raw-bytes", ("EthAddr(%r)", raw), E, raw)
  if not okk: return
  d = "EthAddr(%r)" % (raw,)
  k.eq("eth-observe:str", d + " str()", colon, str, a)
  k.eq("eth-observe:repr", d + " repr()", "EthAddr('%s')" % colon, repr, a)
  k.eq("eth-observe:toStr", d + ".toStr()", colon, a.toStr)
  k.eq("eth-observe:to_str-sep", d + ".to_str('-')", hyph, a.to_str, "-")
  k.eq("eth-observe:toStr-sep", d + ".toStr('')", bare, a.toStr, "")
  k.eq("eth-observe:toRaw", d + ".toRaw()", raw, a.toRaw)
  k.eq("eth-observe:toTuple", d + ".toTuple()", tuple(bs), a.toTuple)
  k.eq("eth-observe:to_tuple", d + ".to_tuple()", tuple(bs), a.to_tuple)
  k.eq("eth-observe:len", "len(%s)" % d, 6, len, a)
  fl = R.eth_flags(bs)
  for attr, want, call in (("isMulticast", fl["multicast"], True), ("is_multicast", fl["multicast"], False),
                           ("isLocal", fl["local"], True), ("is_local", fl["local"], False),
                           ("isGlobal", fl["glob"], True), ("is_global", fl["glob"], False),
                           ("isBridgeFiltered", fl["bridge_filtered"], True), ("is_bridge_filtered", fl["bridge_filtered"], False),
                           ("is_broadcast", fl["broadcast"], False)):
    k.eq("eth-flag:" + attr, "%s.%s" % (d, attr), want, (lambda: getattr(a, attr)()) if call else (lambda: getattr(a, attr)))
  okk, b = k.get("eth-roundtrip", "EthAddr(str(%s))" % d, lambda: E(str(a)))
  if okk:
    k.eq("eth-roundtrip", "EthAddr(str(a)).raw for a=%s" % d, raw, lambda: b.raw)
    k.eq("eth-roundtrip:eq", "EthAddr(str(a)) == a for a=%s" % d, True, lambda: b == a)
    k.eq("eth-roundtrip:hash", "hash(EthAddr(str(a))) == hash(a) for a=%s" % d, True, lambda: hash(b) == hash(a))

SEGS["eth"] = (eth_parts, eth_cases, chk_eth)


# ------------------------------------------------------------------------------------
# datapath ids
# ------------------------------------------------------------------------------------
DP_Q = (0x00, 0x01, 0x80, 0xff)
DP_T = (0x00, 0x01, 0x7f, 0x80, 0xff)

def dpid_parts (th):
  v = DP_T if th else DP_Q
  return [[i, j] for i in range(len(v)) for j in range(len(v))]

def dpid_cases (part, th):
  v = DP_T if th else DP_Q
  for rest in itertools.product(v, repeat=6):
    d = 0
    for x in (v[part[0]], v[part[1]]) + rest: d = (d << 8) | x
    yield [d]

def chk_dpid (case, k):
  d = case[0]
  short = R.dpid_text(d); long_ = R.dpid_text(d, True)
  k.eq("dpid:to_str", ("dpid_to_str(0x%016x)", d), short, U.dpid_to_str, d)
  k.eq("dpid:to_str-long", ("dpid_to_str(0x%016x, alwaysLong=True)", d), long_, U.dpid_to_str, d, alwaysLong=True)
  k.eq("dpid:to_str-bytes", ("dpid_to_str(struct.pack('!Q', 0x%016x))", d), short, U.dpid_to_str, struct.pack("!Q", d))
  k.eq("dpid:to_str", ("dpidToStr(0x%016x)", d), short, U.dpidToStr, d)
  for name, text in (("canonical", short), ("long", long_), ("upper", short.upper()), ("0x-hex", "0x%x" % d), ("hex16", "%016x" % d)):
    k.eq("dpid:from_str:" + name, ("str_to_dpid(%r)", text), d, U.str_to_dpid, text)
  k.eq("dpid:roundtrip", ("str_to_dpid(dpid_to_str(0x%016x))", d), d, lambda: U.str_to_dpid(U.dpid_to_str(d)))
  k.eq("dpid:roundtrip", ("str_to_dpid(dpid_to_str(0x%016x, alwaysLong=True))", d), d, lambda: U.strToDPID(U.dpid_to_str(d, alwaysLong=True)))

SEGS["dpid"] = (dpid_parts, dpid_cases, chk_dpid)


# ------------------------------------------------------------------------------------
# algebraic laws: equality / hashing / ordering, immutability
# ------------------------------------------------------------------------------------
LAW_V4 = ["0.0.0.0", "0.0.0.1", "0.0.1.0", "0.1.0.0", "1.0.0.0", "1.0.0.2", "2.0.0.1", "1.2.3.4", "4.3.2.1", "127.0.0.1",
          "127.255.255.255", "128.0.0.0", "128.0.0.1", "1.0.0.128", "192.168.0.1", "224.0.0.1", "255.0.0.0", "0.0.0.255",
          "255.255.255.254", "255.255.255.255"]
LAW_ETH = ["00:00:00:00:00:00", "00:00:00:00:00:01", "00:00:00:00:01:00", "01:00:00:00:00:00", "01:00:00:00:00:02", "02:00:00:00:00:01",
           "01:80:c2:00:00:00", "01:80:c2:00:00:0f", "01:80:c2:00:00:10", "7f:ff:ff:ff:ff:ff", "80:00:00:00:00:00", "80:00:00:00:00:01",
           "00:00:00:00:00:80", "00:11:22:33:44:55", "55:44:33:22:11:00", "0a:0b:0c:0d:0e:0f", "ff:00:00:00:00:00", "00:00:00:00:00:ff",
           "ff:ff:ff:ff:ff:fe", "ff:ff:ff:ff:ff:ff"]
LAW_V6 = ["::", "::1", "::1:0", "1::", "1::2", "2::1", "::ffff:1.2.3.4", "::ffff:4.3.2.1", "::1.2.3.4", "7fff:ffff:ffff:ffff:ffff:ffff:ffff:ffff",
          "8000::", "8000::1", "::8000", "2001:db8::1", "2001:db8:0:0:1::1", "fe80::1", "ff02::1", "ff00::", "ffff:ffff:ffff:ffff:ffff:ffff:ffff:fffe",
          "ffff:ffff:ffff:ffff:ffff:ffff:ffff:ffff"]
LAW_TYPES = ("IPAddr", "EthAddr", "IPAddr6")

def law_elem (tname, i):
  """Element i (0..39) of the comparison set: value i//2 built through construction form i%2. -> (object, plain raw)"""
  v = i // 2; alt = i % 2
  if tname == "IPAddr":
    n = int.from_bytes(bytes(int(x) for x in LAW_V4[v].split(".")), "big")
    return (A.IPAddr(n) if alt else A.IPAddr(LAW_V4[v])), R.v4_raw(n)
  if tname == "EthAddr":
    raw = bytes(int(x, 16) for x in LAW_ETH[v].split(":"))
    return (A.EthAddr(raw) if alt else A.EthAddr(LAW_ETH[v])), raw
  n = R.v6_parse(LAW_V6[v])
  return (A.IPAddr6.from_raw(R.v6_raw(n)) if alt else A.IPAddr6(R.v6_fmt(n, False, False))), R.v6_raw(n)

def law_parts (th):
  return [[t, "pair"] for t in LAW_TYPES] + [[t, "triple", i] for t in LAW_TYPES for i in range(0, 40, 4)] + [[t, "misc"] for t in LAW_TYPES]

def law_cases (part, th):
  t = part[0]
  if part[1] == "pair":
    for i in range(40):
      for j in range(40): yield ["pair", t, i, j]
  elif part[1] == "triple":
    for i in range(part[2], part[2] + 4):
      for j in range(40):
        for l in range(40): yield ["triple", t, i, j, l]
  else:
    for i in range(40):
      yield ["none", t, i]
      yield ["immut", t, i]
    yield ["container", t]

def _cmp (k, clause, t, desc, f):
  """A comparison must return a real bool."""
  k.calls += 1
  try:
    r = f()
  except Exception as e:
    k.bad("compare:raises:%s:%s" % (site(e), t), "%s raised %s: %s" % (desc, type(e).__name__, e))
    return None
  if type(r) is not bool:
    k.bad("compare:non-bool-result:" + t, "%s returned %r" % (desc, r))
    return None
  return r

def chk_law (case, k):
  kind, t = case[0], case[1]
  if kind == "pair":
    (a, ra), (b, rb) = law_elem(t, case[2]), law_elem(t, case[3])
    if case[2] == case[3]: b = a
    d = "a=%r, b=%r" % (a, b)
    eq = _cmp(k, "eq", t, "a == b for " + d, lambda: a == b)
    ne = _cmp(k, "ne", t, "a != b for " + d, lambda: a != b)
    lt = _cmp(k, "lt", t, "a < b for " + d, lambda: a < b)
    gt = _cmp(k, "gt", t, "a > b for " + d, lambda: a > b)
    le = _cmp(k, "le", t, "a <= b for " + d, lambda: a <= b)
    ge = _cmp(k, "ge", t, "a >= b for " + d, lambda: a >= b)
    blt = _cmp(k, "lt", t, "b < a for " + d, lambda: b < a)
    ble = _cmp(k, "le", t, "b <= a for " + d, lambda: b <= a)
    res = (eq, ne, lt, gt, le, ge, blt, ble)
    k.obs.append(res)
    if None in res: return
    k.evals += 7
    if eq != (ra == rb): k.bad("compare:eq-value:" + t, "(a == b) is %s but the values are %s, for %s" % (eq, "equal" if ra == rb else "different", d))
    if ne != (not eq): k.bad("compare:ne-negation:" + t, "(a != b) is %s while (a == b) is %s, for %s" % (ne, eq, d))
    if (lt, eq, gt).count(True) != 1: k.bad("compare:trichotomy:" + t, "(a<b, a==b, a>b) = %r, for %s" % ((lt, eq, gt), d))
    if le != (lt or eq): k.bad("compare:le-definition:" + t, "(a<=b) is %s but (a<b, a==b) = %r, for %s" % (le, (lt, eq), d))
    if ge != (gt or eq): k.bad("compare:ge-definition:" + t, "(a>=b) is %s but (a>b, a==b) = %r, for %s" % (ge, (gt, eq), d))
    if gt != blt or ge != ble: k.bad("compare:converse:" + t, "(a>b, b<a, a>=b, b<=a) = %r, for %s" % ((gt, blt, ge, ble), d))
    if eq:
      k.calls += 2
      if hash(a) != hash(b): k.bad("compare:hash:" + t, "a == b but hash(a) != hash(b), for %s" % d)
      if str(a) != str(b): k.bad("compare:eq-str:" + t, "a == b but str(a) != str(b), for %s" % d)
  elif kind == "triple":
    (a, ra), (b, rb), (c, rc) = law_elem(t, case[2]), law_elem(t, case[3]), law_elem(t, case[4])
    d = "a=%r, b=%r, c=%r" % (a, b, c)
    ab = _cmp(k, "lt", t, "a < b for " + d, lambda: a < b)
    bc = _cmp(k, "lt", t, "b < c for " + d, lambda: b < c)
    ac = _cmp(k, "lt", t, "a < c for " + d, lambda: a < c)
    eab = _cmp(k, "eq", t, "a == b for " + d, lambda: a == b)
    ebc = _cmp(k, "eq", t, "b == c for " + d, lambda: b == c)
    eac = _cmp(k, "eq", t, "a == c for " + d, lambda: a == c)
    res = (ab, bc, ac, eab, ebc, eac)
    k.obs.append(res)
    if None in res: return
    k.evals += 3
    if ab and bc and not ac: k.bad("compare:transitive-lt:" + t, "a<b and b<c but not a<c, for " + d)
    if eab and ebc and not eac: k.bad("compare:transitive-eq:" + t, "a==b and b==c but not a==c, for " + d)
    if (eab and bc and not ac) or (ab and ebc and not ac): k.bad("compare:order-respects-eq:" + t, "equal elements order differently, for " + d)
  elif kind == "none":
    a, ra = law_elem(t, case[2])
    k.evals += 2; k.calls += 2
    e = (a == None); n = (a != None)      # noqa: E711 - the operators are what is being checked
    k.obs.append((e, n))
    if e is True or n is False:
      k.bad("compare:equals-None:" + t, "%r == None is %r and %r != None is %r" % (a, e, a, n))
  elif kind == "immut":
    a, ra = law_elem(t, case[2])
    h = hash(a); s = str(a)
    for attr in ("_value", "raw", "value", "x"):
      k.evals += 1; k.calls += 1
      try:
        setattr(a, attr, ra[::-1] if attr != "x" else 1)
        k.bad("immutable:setattr:" + t, "setting attribute %r on %s succeeded" % (attr, s))
      except (TypeError, AttributeError):
        pass
      k.calls += 3
      if a.raw != ra or hash(a) != h or str(a) != s:
        k.bad("immutable:value-changed:" + t, "after setattr(%s, %r, ...) the address reads %s (raw %s)" % (s, attr, a, a.raw.hex()))
    # deleting an attribute is the other ordinary way to change an object (a fresh object each time: a deletion that
    # goes through leaves the address unusable)
    for attr in ("_value", "raw", "value", "x"):
      a2, _ = law_elem(t, case[2])
      k.evals += 1; k.calls += 1
      try:
        delattr(a2, attr)
        k.bad("immutable:delattr:" + t, "del <%s>.%s succeeded" % (s, attr))
      except (TypeError, AttributeError):
        pass
      k.calls += 3
      try: same = (a2.raw == ra and hash(a2) == h and str(a2) == s)
      except Exception as e: same = False
      if not same: k.bad("immutable:delattr:" + t, "after del <%s>.%s the address no longer reads as before" % (s, attr))
    k.evals += 1
    if type(a.raw) is not bytes: k.bad("immutable:raw-type:" + t, "%r.raw is a %s" % (a, type(a.raw).__name__))
    # the address must not alias a mutable object it was built from
    buf = bytearray(ra)
    b = {"IPAddr": A.IPAddr, "EthAddr": A.EthAddr, "IPAddr6": A.IPAddr6}[t](buf)
    buf[0] ^= 0xff
    k.evals += 1; k.calls += 2
    if b.raw != ra: k.bad("immutable:aliases-input:" + t, "%s built from a bytearray changed when the bytearray was modified" % t)
    k.obs.append(s)
  elif kind == "container":
    objs = [law_elem(t, i) for i in range(40)]
    k.evals += 3; k.calls += 1
    st = set(o for o, r in objs)
    if len(st) != 20: k.bad("compare:container:" + t, "a set of 20 distinct values built twice each has %d members" % len(st))
    dct = dict((o, r) for o, r in objs)
    for i in range(40):
      o, r = law_elem(t, i); k.calls += 1
      if dct.get(o) != r: k.bad("compare:container:" + t, "dict lookup with an equal %s key failed for %s" % (t, o))
    srt = sorted(o for o, r in objs); k.calls += 40
    for x, y in zip(srt, srt[1:]):
      if y < x: k.bad("compare:container:" + t, "sorted() output is not ordered: %s before %s" % (x, y))
    k.obs.append([str(x) for x in srt])

SEGS["law"] = (law_parts, law_cases, chk_law)


# ------------------------------------------------------------------------------------
# comparisons with odd operands: ==/!= are total, ordering gives bool or TypeError
# ------------------------------------------------------------------------------------
ODD_FIXED = ["None", "0", "1", "-1", "2**32", "2**128", "1.5", "()", "[]", "{}", "object()", "(0,)*4", "[0]*6", "[0]*16", "(0,)*5",
             "bytearray()", "bytearray(4)", "bytearray(6)", "bytearray(16)", "bytearray(5)", "True", "float('nan')", "set()", "type",
             "' '", "'x'", "'not an address'", "'g::1'", "'1:2'", "'1::2::3'", "'1.2.3.4.5'", "'300.1.1.1'", "'aa:bb:cc:dd:ee'", "'::/0'",
             "'zz:zz:zz:zz:zz:zz'", "'12345::'", "':1:2:3:4:5:6:7'", "'1:2:3:4:5:6:7:'", "'1.2.3.4'", "'::1'", "'00:00:00:00:00:00'",
             "'0.0.0.0'", "'::'", "'\\x00'", "'\\u0663'", "'\\n'", "'0/0'", "'-'", "'--'", "'-:'", "' :'", "'/'"]

def odd_operands ():
  out = list(ODD_FIXED)
  for n in range(0, 5):
    for tup in itertools.product(":.0g", repeat=n):
      s = "".join(tup)
      out.append(repr(s)); out.append(repr(s.encode()))
  for n in list(range(1, 21)) + [32]:
    out.append("bytes(range(1, %d))" % (n + 1))
  return out

ODD_ADDR = (0, 14, 26, 38)       # indices into the 40-element comparison set (value i//2)

def odd_parts (th):
  return [[t, i] for t in LAW_TYPES for i in ODD_ADDR]

def odd_cases (part, th):
  for x in odd_operands():
    yield ["odd", part[0], part[1], x]
  yield ["odd", part[0], part[1], "<own-text>"]

_HEX = "0123456789abcdefABCDEF"

def may_represent (t, x):
  """Conservative reference: could x be a representation of an address of type t?  Only a
  definite 'no' obliges == to be False (equality with convertible values is not judged)."""
  if isinstance(x, bool): return t == "IPAddr"
  if t == "IPAddr":
    if isinstance(x, int): return True
    if isinstance(x, (bytes, bytearray)):
      if len(x) == 4: return True
      try: x = bytes(x).decode()
      except Exception: return False
    if isinstance(x, str):
      return any(c in "0123456789" for c in x) and all(c in _HEX + "xX. \t\n\r\v\f" or not c.isascii() for c in x.split(" ")[0] or " ")
    return False
  if t == "EthAddr":
    if isinstance(x, str):
      try: x = x.encode()
      except Exception: return False
    if isinstance(x, (bytes, bytearray)):
      if len(x) == 6: return True
      if isinstance(x, bytearray): return False
      return len(x) >= 11 and all(chr(c) in _HEX + ":-" for c in x)
    if isinstance(x, (list, tuple)):
      return len(x) == 6 and all(isinstance(v, int) and 0 <= v <= 255 for v in x)
    return False
  if isinstance(x, str): return R.v6_parse(x) is not None
  if isinstance(x, (bytes, bytearray)):
    if len(x) == 16: return True
    try: return R.v6_parse(bytes(x).decode()) is not None
    except Exception: return False
  return False

def _ord (k, t, desc, f):
  """An ordering comparison gives a bool, or refuses with TypeError."""
  k.calls += 1; k.evals += 1
  try:
    r = f()
  except TypeError:
    return "TypeError"
  except Exception as e:
    k.bad("compare-odd:ordering-raises:%s:%s" % (site(e), t), "%s raised %s: %s (only TypeError is a refusal)" % (desc, type(e).__name__, e))
    return "!" + type(e).__name__
  if type(r) is not bool:
    k.bad("compare:non-bool-result:" + t, "%s returned %r" % (desc, r))
  return r

def chk_odd (case, k):
  t, idx, expr = case[1], case[2], case[3]
  a, ra = law_elem(t, idx)
  own = expr == "<own-text>"
  x = str(a) if own else eval(expr, {"__builtins__": {}}, dict(bytes=bytes, bytearray=bytearray, range=range, object=object, float=float, set=set, type=type))
  d = "a=%r, x=%s" % (a, "its own text %r" % x if own else expr)
  eq = _cmp(k, "eq", t, "a == x for " + d, lambda: a == x)
  ne = _cmp(k, "ne", t, "a != x for " + d, lambda: a != x)
  req = _cmp(k, "eq", t, "x == a for " + d, lambda: x == a)
  rne = _cmp(k, "ne", t, "x != a for " + d, lambda: x != a)
  k.evals += 4
  res = [eq, ne, req, rne]
  if None not in res:
    if ne != (not eq) or rne != (not req):
      k.bad("compare-odd:ne-negation:" + t, "(a==x, a!=x, x==a, x!=a) = %r for %s" % ((eq, ne, req, rne), d))
    if eq != req:
      k.bad("compare-odd:reflected:" + t, "(a == x) is %s but (x == a) is %s for %s" % (eq, req, d))
    if own:
      if not eq: k.bad("compare-odd:own-text:" + t, "%r does not compare equal to its own text %r" % (a, x))
    elif eq and not may_represent(t, x):
      k.bad("compare-odd:eq-invalid-operand:" + t, "a == x is True although x is not a representation of any %s, for %s" % (t, d))
    # membership / counting use ==
    k.evals += 2; k.calls += 2
    try:
      inn = a in [x, a]; cnt = [x].count(a)
      if inn is not True or cnt != (1 if req else 0):
        k.bad("compare-odd:container:" + t, "(a in [x, a], [x].count(a)) = %r with (x == a) = %s, for %s" % ((inn, cnt), req, d))
      res += [inn, cnt]
    except Exception as e:
      k.bad("compare:raises:%s:%s" % (site(e), t), "a in [x, a] / [x].count(a) raised %s: %s for %s" % (type(e).__name__, e, d))
  for name, f in (("a < x", lambda: a < x), ("a <= x", lambda: a <= x), ("a > x", lambda: a > x), ("a >= x", lambda: a >= x),
                  ("x < a", lambda: x < a), ("x <= a", lambda: x <= a), ("x > a", lambda: x > a), ("x >= a", lambda: x >= a)):
    res.append(_ord(k, t, "%s for %s" % (name, d), f))
  k.obs.append(res)

SEGS["odd"] = (odd_parts, odd_cases, chk_odd)


# ------------------------------------------------------------------------------------
# comparisons between address objects of different families
# ------------------------------------------------------------------------------------
WIDTH = {"IPAddr": 4, "EthAddr": 6, "IPAddr6": 16}

_REL = {}

def from_raw (t, raw):
  if t == "IPAddr": return A.IPAddr(raw)
  if t == "EthAddr": return A.EthAddr(raw)
  return A.IPAddr6.from_raw(raw)

def cross_related (ra, t2):
  """Values (raw) of family t2 that an address with bytes ra of another family could be converted to or confused with:
  ra embedded at either end of the wider address under every boundary filler (zeros, ones, the ::ffff: 'mapped' marker and
  its near misses), or every window of ra of the narrower width; then the family's own comparison set."""
  if (ra, t2) in _REL: return _REL[(ra, t2)]
  W = WIDTH[t2]; w = len(ra); out = []
  if W > w:
    g = W - w
    for pre in (b"\x00" * g, b"\xff" * g, b"\x00" * (g - 2) + b"\xff\xff", b"\x00" * (g - 2) + b"\xff\xfe", b"\x00" * (g - 2) + b"\xfe\xff",
                b"\x00" * (g - 1) + b"\x01", b"\x80" + b"\x00" * (g - 1), b"\x00" * (g - 2) + b"\x00\xff", b"\x00" * (g - 2) + b"\xff\x00"):
      out.append(pre + ra)
    if g >= 4:
      out.append(b"\x00" * (g - 4) + b"\xff\xff\x00\x00" + ra)
      out.append(b"\x00" * (g - 4) + b"\x00\x01\x00\x00" + ra)
    for post in (b"\x00" * g, b"\xff" * g, b"\x00" * (g - 1) + b"\x01"):
      out.append(ra + post)
    out.append(b"\x00" * (g // 2) + ra + b"\x00" * (g - g // 2))
    out.append((b"\x00" * g + ra)[::-1])
  else:
    for off in range(w - W + 1):
      out.append(ra[off:off + W])
    out.append(ra[:W][::-1]); out.append(ra[-W:][::-1])
  for i in range(0, 40, 2):
    out.append(law_elem(t2, i)[1])
  seen = []
  for r in out:
    if r not in seen: seen.append(r)
  _REL[(ra, t2)] = seen
  return seen

def cross_parts (th):
  return [[t1, t2] for t1 in LAW_TYPES for t2 in LAW_TYPES if t1 != t2]

def cross_cases (part, th):
  t1, t2 = part
  for i in range(40):
    n = len(cross_related(law_elem(t1, i)[1], t2))
    for j in range(n): yield ["pair", t1, i, t2, j]
    yield ["group", t1, i, t2]

def chk_cross (case, k):
  kind, t1, i, t2 = case[:4]
  a, ra = law_elem(t1, i)
  rel = cross_related(ra, t2)
  fam = "/".join(sorted((t1, t2)))
  if kind == "pair":
    rb = rel[case[4]]; b = from_raw(t2, rb)
    d = "a=%r, b=%r" % (a, b)
    eq = _cmp(k, "eq", fam, "a == b for " + d, lambda: a == b)
    ne = _cmp(k, "ne", fam, "a != b for " + d, lambda: a != b)
    req = _cmp(k, "eq", fam, "b == a for " + d, lambda: b == a)
    rne = _cmp(k, "ne", fam, "b != a for " + d, lambda: b != a)
    k.evals += 3
    res = [eq, ne, req, rne]
    if None in res: k.obs.append(res); return
    if ne != (not eq) or rne != (not req):
      k.bad("compare-cross:ne-negation:" + fam, "(a==b, a!=b, b==a, b!=a) = %r for %s" % ((eq, ne, req, rne), d))
    if eq != req:
      k.bad("compare-cross:reflected:" + fam, "(a == b) is %s but (b == a) is %s for %s" % (eq, req, d))
    o = {}
    for name, f in (("a<b", lambda: a < b), ("a<=b", lambda: a <= b), ("a>b", lambda: a > b), ("a>=b", lambda: a >= b),
                    ("b<a", lambda: b < a), ("b<=a", lambda: b <= a), ("b>a", lambda: b > a), ("b>=a", lambda: b >= a)):
      o[name] = _ord(k, fam, "%s for %s" % (name, d), f)
    res += [o[n] for n in sorted(o)]
    k.evals += 2
    # the two spellings of one question give one answer (or one refusal)
    for x, y in (("a<b", "b>a"), ("a<=b", "b>=a"), ("a>b", "b<a"), ("a>=b", "b<=a")):
      if o[x] != o[y]:
        k.bad("compare-cross:converse:" + fam, "(%s) is %s but (%s) is %s for %s" % (x, o[x], y, o[y], d))
    if all(type(v) is bool for v in o.values()):
      lt, le, gt, ge = o["a<b"], o["a<=b"], o["a>b"], o["a>=b"]
      if (lt, eq, gt).count(True) != 1 or le != (lt or eq) or ge != (gt or eq):
        k.bad("compare-cross:order-vs-eq:" + fam, "(a<b, a<=b, a==b, a>=b, a>b) = %r for %s" % ((lt, le, eq, ge, gt), d))
    elif eq and (o["a<=b"] is False or o["a>=b"] is False or o["a<b"] is True or o["a>b"] is True):
      k.bad("compare-cross:order-vs-eq:" + fam, "a == b but (a<b, a<=b, a>=b, a>b) = %r for %s" % ((o["a<b"], o["a<=b"], o["a>=b"], o["a>b"]), d))
    if eq:
      k.calls += 2
      res.append(hash(a) == hash(b))       # observed, not judged: across families == is a conversion convenience (DESIGN.md C16)
    k.obs.append(res)
  else:
    # an address equal to two addresses of the other family makes those two equal
    objs = [(from_raw(t2, rb), rb) for rb in rel]
    k.calls += 2 * len(objs); k.evals += 1
    same = [(b, rb) for b, rb in objs if (a == b) is True or (b == a) is True]
    k.obs.append([rb.hex() for b, rb in same])
    for x in range(len(same)):
      for y in range(x + 1, len(same)):
        k.calls += 1
        if same[x][1] != same[y][1] or (same[x][0] == same[y][0]) is not True:
          k.bad("compare-cross:eq-not-transitive:" + fam, "%r equals both %r and %r, which differ" % (a, same[x][0], same[y][0]))

SEGS["cross"] = (cross_parts, cross_cases, chk_cross)


# ------------------------------------------------------------------------------------
# driver
# ------------------------------------------------------------------------------------
COARSE = {"v4net": 4, "v6net": 8}     # outcome digests of these segments omit the address-specific values (memory); index of the prefix length
SEG_ORDER = ["v4ctor", "v4net", "v6val", "v6net", "v6text", "bad", "eth", "dpid", "law", "odd", "cross"]

def _worker (item):
  seg, part, th = item
  _import()
  parts, cases, check = SEGS[seg]
  rep = Report(PID, "exploration")
  ncases = 0
  for case in cases(part, th):
    k = K()
    try:
      check(case, k)
    except Exception as e:
      rep.error("%s case %r: harness raised %s: %s" % (seg, case, type(e).__name__, e))
      continue
    ncases += 1
    rep.evaluations += k.evals
    rep.transitions += k.calls
    rep.outcome((seg, case[COARSE[seg]], [x if isinstance(x, (bool, int)) else type(x).__name__ for x in k.obs]) if seg in COARSE else (seg, k.obs))
    for key, what in k.viol:
      rep.violation(key, what, dict(seg=seg, case=case, key=key))
    if ncases == 1 and (part == parts(th)[0] or part == parts(th)[-1]):
      rep.sample(dict(segment=seg, case=case, observed=[repr(x)[:80] for x in k.obs[:8]], failed_clauses=[v[0] for v in k.viol][:4]))
  rep.state_count = ncases
  rep.extra["cases_" + seg] = ncases
  return rep


def run (cfg):
  _import()
  th = not cfg.quick
  rep = Report(PID, "exploration")
  for msg in R.self_test():
    rep.error("reference self-test: " + msg)
  segs = [s for s in SEG_ORDER if cfg.only in (None, s)]
  items = [(s, p, th) for s in segs for p in SEGS[s][0](th)]
  for r in pmap(_worker, items, cfg.workers, seed=cfg.seed):
    rep.merge(r)
  rep.samples.sort(key=lambda s: repr(s))
  rep.rule = (
    "every case of these lattices, each run against the real classes and compared with stdlib ipaddress / integer arithmetic / RFC 5952 printer: "
    "IPv4: %d^4 addresses (octets %s) x 10 constructor forms x all observers; the same lattice (thorough: octets %s) x all 33 prefix lengths x "
    "{inNetwork in 5 call forms for the own network and 6-8 other networks, get_network by bits and by mask, parse_cidr by bits/mask/allow_host/host-bits, "
    "cidr_to_netmask, netmask_to_cidr, classful inference}; IPv6: %s x {every legal '::' placement, full/padded/upper/mixed text, 6 binary forms, to_str in 12 "
    "option combinations and re-parse, well-known ranges} and x all 129 prefix lengths x {in_network in 5 call forms, other networks, parse_cidr, mask conversions}; "
    "IPv6 text grammar: every string of 0..9 groups over %s with '::' at each position or absent, with and without an IPv4 tail (accept/reject and value vs "
    "ipaddress); enumerated malformed texts / lengths / types for all three address types, CIDR strings and dpids (must raise); EthAddr: %s x 13 textual/binary "
    "forms + short-group form, all flag predicates; dpid: every id with bytes in %s, 4 printers x 5 accepted spellings; comparison with odd operands: 4 addresses per type x ~750 operands (None, ints, float, empty/wrong-length containers, bytes of length 0..20, every str and bytes of length 0..4 over {:,.,0,g}, junk texts, own text) x {==, !=, <, <=, >, >= in both operand orders, in, count}; comparison laws over all ordered pairs "
    "and triples of a 40-element set (20 values x 2 construction forms) per type, ==None, setattr and delattr, container behaviour; "
    "networks written with host bits set (every lattice address x every prefix length that leaves host bits; IPv6 quick tier: the ffff patterns and the hand-picked values) "
    "through 7 membership call forms (text/prefix, text/netmask, two-argument by bits / by mask / with an address object, tuple of text, tuple of object) x 3 probes "
    "(the address itself, the network address, the address with the last network bit flipped; quick tier: first probe through all forms, the others through 2) - refused or "
    "answered as ip_network(strict=False) would; %d prefix-length spellings that are not plain ASCII digits x 2 networks x 5-7 parsing entry points per family (must raise); "
    "comparisons across families: each of the 40 elements of a family x {its bytes embedded in / cut out of the other family's width under 9-16 fillers and alignments, "
    "the other family's 20 values} x {==, != both orders, 8 orderings} for all 6 ordered family pairs + equality classes across families. distinct = digests of the per-case "
    "observation vectors"
    % (len(OCT_T_CTOR if th else OCT_Q), (OCT_T_CTOR if th else OCT_Q), (OCT_T_NET if th else OCT_Q),
       ("3^8 group vectors over {0,1,abcd} + 256 zero/non-zero patterns x {ffff,0db8} + %d hand-picked" % len(V6_EXTRA)) if th else
       ("256 zero/non-zero group patterns x {1,abcd,ffff} + %d hand-picked" % len(V6_EXTRA)),
       (TOK_T if th else TOK_Q),
       ("first byte 0..255 x last byte 0..255 x 2 middles + {00,01,0f,10,80,ff}^6" if th else
        "first byte 0..255, last byte 0..255 (each with 2 fixed remainders), {00,0a,10,ff}^6, near-misses of 01:80:c2:00:00:0x"),
       list(DP_T if th else DP_Q), len(PFX_JUNK)))
  rep.bound = dict(tier=cfg.tier, ipv4_octets=len(OCT_T_CTOR if th else OCT_Q), prefix_lengths_v4=33, prefix_lengths_v6=129,
                   ipv6_text_groups_max=9, ipv6_text_tokens=len(TOK_T if th else TOK_Q), compare_set=40,
                   cases=dict((s, rep.extra.get("cases_" + s, 0)) for s in segs))
  rep.assumptions = [
    "little-endian host: 'network order' integers are the 4 address bytes read as a native uint32 (sys.byteorder is used, not assumed)",
    "forms that inet_aton accepts by tradition (fewer than 4 parts, octal/hex parts) are not called malformed for IPv4 text; they are for the dotted tail of IPv6 text (RFC 4291 requires d.d.d.d)",
    "cross-type equality (address == str/int/other family) is a documented convenience: which operands compare equal is not judged, nor is hash equality across types; what is judged for every operand is that == and != are negations, that a == x and x == a agree, that the two spellings of an ordering (a<x, x>a) agree, that ordering agrees with equality when it answers, and that one address does not equal two different addresses of another family; == None is judged",
    "a network given with host bits set may be refused or read as the network its prefix selects; any other answer is a mis-parse",
    "IPv6 text as bytes is judged for its value only when accepted (the statement speaks of accepted forms)",
    "ordering is only required to be a total order consistent with ==; numeric order of IPAddr is not demanded",
    "== / != with any operand never raise and are each other's negation; == must be False only for operands that cannot represent an address of the type (conservative reference); ordering against a foreign operand may give a bool or raise TypeError, nothing else; which exception type a constructor uses to reject malformed input is not judged",
    "pox's short-group Ethernet text (x:x:x:x:x:x) is judged for value only when accepted",
  ]
  return rep


def replay (cfg, data):
  _import()
  seg, case = data["seg"], data["case"]
  k = K()
  SEGS[seg][2](case, k)
  lines = ["segment %s, case %r" % (seg, case), "calls into pox: %d, oracle clauses evaluated: %d" % (k.calls, k.evals)]
  want = data.get("key")
  hit = False
  for key, what in k.viol:
    mine = want is None or key == want
    hit = hit or mine
    lines.append("  %s %s: %s" % ("FAILED" if mine else "(also fails, other finding)", key, what))
  if not k.viol: lines.append("  all clauses hold")
  return hit, "\n".join(lines)
