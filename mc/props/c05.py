"""C05 - event delivery order, halting, unsubscription (pox.lib.revent).

E-seq exploration of the real EventMixin: every history of <= depth top-level operations
over the alphabet below, every handler invocation choosing its behaviour (default
"return None"; anything else is a deviation, bounded).  Oracle: a small reference model of
subscriptions, evaluated online.
"""
import gc, io, itertools, logging, sys
from mc.engine import explore, pmap, Ctx
from mc.report import Report

PID = "C05"

# handler behaviours (index 0 is the default)
BEH = ["none", "True", "False", "EventHalt", "EventRemove", "EventHaltAndRemove",
       "raise", "re-sub-p0", "re-sub-p1", "re-unsub-next", "re-unsub-first", "re-raise", "re-unsub-first-token", "re-drop-weak",
       "re-clear",
       # extended list (only offered where World.nbeh says so: the return-protocol family)
       "EventContinue", "halt-attr", "halt-attr-cont", "raise-revent"]
NBEH0 = 15        # the behaviours offered in the first four families
NH = 3            # handler identities available to top-level ops (+ fresh ones for re-sub)


class Stop (Exception): pass


def _import ():
  import pox.core   # installs pox.core's revent exception hook (creates no core object)
  import pox.lib.revent.revent as rv
  logging.getLogger().addHandler(logging.NullHandler())
  logging.getLogger().setLevel(logging.CRITICAL + 1)
  logging.disable(logging.CRITICAL)
  hermetic_reset(rv)        # takes the pristine snapshot
  return rv


_PRISTINE = {}
def hermetic_reset (rv):
  """Executions must not see each other: put the library's process-wide state (module globals and class attributes
  of EventMixin that are plain containers or counters) back to what it was at import time."""
  if not _PRISTINE:
    import copy
    for holder, name in ((rv, "mod"), (rv.EventMixin, "cls")):
      snap = {}
      for k, v in list(vars(holder).items()):
        if k.startswith("__"): continue
        if isinstance(v, (dict, set, list, int, itertools.count)) and not isinstance(v, bool): snap[k] = copy.copy(v)
      _PRISTINE[name] = snap
    return
  import copy
  for holder, name in ((rv, "mod"), (rv.EventMixin, "cls")):
    snap = _PRISTINE[name]
    for k, v in list(vars(holder).items()):
      if k.startswith("__"): continue
      if k in snap:
        if isinstance(v, (dict, set, list, itertools.count)) or vars(holder)[k] != snap[k]: setattr(holder, k, copy.copy(snap[k]))
      elif isinstance(v, (dict, set, list, int)) and not isinstance(v, bool) and not callable(v):
        # state that did not exist at import time (created lazily on the class / module)
        try: delattr(holder, k)
        except Exception: pass


class Owner (object):
  """Owner of one handler identity: all its methods report to the world as that identity."""
  def h (self, event, *a, **kw):
    return self.world.invoked(self.hid, event)
  # the names the by-name / inferred-name / auto-binding forms of subscription look for
  # (separate functions: add_listener() reads handler.__name__, removeListener(handler) compares methods)
  def _handle_E1 (self, event, *a, **kw):
    return self.world.invoked(self.hid, event)
  def _handle_E2 (self, event, *a, **kw):
    return self.world.invoked(self.hid, event)
  def _handle_px_E1 (self, event, *a, **kw):
    return self.world.invoked(self.hid, event)
  def _handle_E3 (self, event, *a, **kw):
    return self.world.invoked(self.hid, event)


class Sub (object):
  __slots__ = ("sid", "hid", "etype", "prio", "once", "weak", "token", "alive", "spent", "meth", "gone")
  def __init__ (self, **kw):
    for k, v in kw.items(): setattr(self, k, v)


class Delivery (object):
  def __init__ (self, etype, snapshot, form):
    self.etype = etype
    self.snapshot = snapshot      # list of Sub in expected order
    self.form = form
    self.events = []              # ('inv', hid) ('rm', hid) ('add', hid) ('halt',) ('exc',)
    self.halted = False


class World (object):
  """Fresh real source + handlers + reference model for one execution."""
  def __init__ (self, rv, ctx, rep, two=False):
    self.rv = rv; self.ctx = ctx; self.rep = rep
    hermetic_reset(rv)
    class E1 (rv.Event): pass
    class E2 (rv.Event): pass
    class E3 (rv.Event): pass
    class Source (rv.EventMixin):
      _eventMixin_events = set([E1, E2])
    self.E = {"E1": E1, "E2": E2, "E3": E3}
    self.src = Source()
    # a neighbouring source: shares the event class E1 with the first one and declares a DIFFERENT class that is
    # also called "E2" (pox has such pairs); whatever happens on it must not show on the first source, and vice versa
    # (only built for the two-source family)
    if two:
      E2b = type("E2", (rv.Event,), {})
      class SourceB (rv.EventMixin):
        _eventMixin_events = set([E1, E2b])
      self.B = SourceB(); self.EB = {"E1": E1, "E2": E2b}
    self.bsub = {}            # etype -> token of B's one handler for it
    self.b_raising = None; self.b_got = []
    self.owners = {}          # hid -> owner object (strong ref held by the harness)
    self.subs = []            # all Sub records in subscription order
    self.stack = []           # active deliveries
    self.feats = set()
    self.hist = []
    self.next_fresh = NH
    self.violated = None
    self.ninv = 0
    self.two = two
    self.forms = False        # third family: the full product of subscription options x API forms
    self.frozen = False
    self.nbeh = NBEH0
    self.proto = False        # fifth family: return-value protocol
    self.spell = False        # fourth family: positional spellings + the remaining wiring APIs
    self.OwnerM = None

  # ----- handlers -----------------------------------------------------------
  def owner (self, hid):
    o = self.owners.get(hid)
    if o is None:
      if self.forms:
        # (the wiring families: the owner is itself an EventMixin, so that it has listenTo())
        if self.OwnerM is None: self.OwnerM = type("Owner", (Owner, self.rv.EventMixin), {})
        o = self.OwnerM()
      else:
        o = Owner()
      o.hid = hid; o.world = self
      self.owners[hid] = o
    return o

  def b_handler (self, etype):
    world = self
    def h (event, *a, **kw):
      if world.b_raising != etype or type(event) is not world.EB[etype]:
        world.fail("cross-source-delivery", "the neighbouring source's %s handler was invoked with %r while %s" %
                   (etype, type(event).__name__, "it was raising " + world.b_raising if world.b_raising else "it was raising nothing"))
      world.b_got.append(etype)
    hs = self.__dict__.setdefault("_bh", {})
    if etype not in hs: hs[etype] = h
    return hs[etype]

  def do_b (self, op):
    _, what, etype = op
    B = self.B
    if what == "sub":
      self.bsub[etype] = B.addListener(self.EB[etype], self.b_handler(etype))
    elif what == "byname":
      self.bsub[etype] = B.addListenerByName(etype, self.b_handler(etype))
    elif what == "churn":
      # subscribe and unsubscribe again at once: the neighbour's handler list for the type exists but is empty
      B.removeListener(B.addListener(self.EB[etype], self.b_handler(etype)))
    elif what == "unsub":
      B.removeListener(self.b_handler(etype)); self.bsub.pop(etype, None)
    elif what == "raise":
      self.b_raising = etype; self.b_got = []
      try:
        B.raiseEvent(self.EB[etype]())
      finally:
        self.b_raising = None
      want = [etype] if etype in self.bsub else []
      if self.b_got != want:
        self.fail("neighbour-source-delivery", "the neighbouring source raised %s: its handler ran %d time(s), expected %d" % (etype, len(self.b_got), len(want)))
    n = B._eventMixin_get_listener_count()
    if n != len(self.bsub):
      self.fail("neighbour-listener-count", "after %s %s on the neighbouring source it counts %d listener(s), %d are subscribed" % (what, etype, n, len(self.bsub)))

  def fail (self, clause, what):
    if self.violated is None:
      self.violated = (clause, what)
    raise Stop()

  def reap (self):
    """An owner the harness no longer references lives only as long as a strong subscription holds its bound
    method; when the last one goes, the owner is freed and its weak subscriptions go with it."""
    for hid in set(s.hid for s in self.subs if s.alive and s.weak):
      if hid in self.owners: continue
      if not any(s.alive and s.hid == hid and not s.weak for s in self.subs):
        for s in self.subs:
          if s.alive and s.hid == hid and s.weak:
            s.alive = False; s.gone = True
            for d in self.stack: d.events.append(("rm", s.hid))

  def alive_subs (self, etype):
    self.reap()
    xs = [s for s in self.subs if s.alive and s.etype == etype]
    xs.sort(key=lambda s: (-s.prio, s.sid))
    return xs

  def invoked (self, hid, event):
    self.ninv += 1
    if self.ninv > 60: self.fail("runaway", "more than 60 handler invocations")
    if not self.stack:
      self.fail("invoked-outside-delivery", "handler %d invoked with no raise in progress" % hid)
    d = self.stack[-1]
    if type(event).__name__ != d.etype:
      self.fail("wrong-event-type", "handler %d got %s during a raise of %s" % (hid, type(event).__name__, d.etype))
    self.check_invocation(d, hid)
    d.events.append(("inv", hid))
    inflight = [s for s in self.subs if s.alive and s.hid == hid and s.etype == d.etype and s.once]
    for s in inflight: s.spent = "inflight"
    try:
      return self.behave(d, hid, event)
    finally:
      # model: a one-shot subscription is spent once its invocation completes; a handler
      # that asked to be removed is gone when it returns
      selfrm = any(e == ("selfrm", hid) for e in d.events)
      for s in self.subs:
        if s.alive and s.hid == hid and s.etype == d.etype and (s.once or selfrm):
          s.alive = False
          # the same subscription may be waiting for its turn in an enclosing delivery of a re-entrant raise: there
          # "invoked exactly once per raise" and "never invoked again" contradict each other - either way is accepted
          for outer in self.stack[:-1]:
            if s in outer.snapshot: outer.events.append(("rm", s.hid))

  def behave (self, d, hid, event=None):
    if self.frozen:           # teardown probes: every handler just returns None (no choice point)
      self.hist.append("  h%d invoked -> none" % hid)
      return None
    b = self.ctx.choose(self.nbeh, "beh@h%d" % hid)
    name = BEH[b]
    if b: self.feats.add("beh." + name)
    self.hist.append("  h%d invoked -> %s" % (hid, name))
    if name == "none": return None
    if name == "True": self.mark_halt(d); return True
    if name == "False": self.mark_remove(d, hid); return False
    if name == "EventHalt": self.mark_halt(d); return self.rv.EventHalt
    if name == "EventRemove": self.mark_remove(d, hid); return self.rv.EventRemove
    if name == "EventHaltAndRemove":
      self.mark_remove(d, hid); self.mark_halt(d); return self.rv.EventHaltAndRemove
    if name == "EventContinue": return self.rv.EventContinue
    if name == "halt-attr":
      # the handler halts the event through its public attribute (the one raisers read back) and returns nothing
      event.halt = True; d.events.append(("halt-attr",)); return None
    if name == "halt-attr-cont":
      event.halt = True; d.events.append(("halt-attr",)); return self.rv.EventContinue
    if name == "raise":
      d.events.append(("exc",))
      raise ValueError("handler %d fails" % hid)
    if name == "raise-revent":
      # the handler fails with the library's own exception type (as a nested raise of an undeclared event would)
      d.events.append(("exc",)); d.events.append(("exc-revent",))
      raise self.rv.ReventError("handler %d fails" % hid)
    if name in ("re-sub-p0", "re-sub-p1"):
      nh = self.next_fresh; self.next_fresh += 1
      self.do_sub(nh, d.etype, 1 if name.endswith("1") else 0, "plain", during=d)
      return None
    if name in ("re-unsub-next", "re-unsub-first"):
      ids = [s.hid for s in d.snapshot]
      tgt = None
      if name == "re-unsub-next":
        if hid in ids and ids.index(hid) + 1 < len(ids): tgt = ids[ids.index(hid) + 1]
      else:
        if ids and ids[0] != hid: tgt = ids[0]
      if tgt is not None:
        if any(s.alive and s.weak and s.hid == tgt for s in self.subs): self.feats.add("unsub.handler.weak")
        meth = [s.meth for s in d.snapshot if s.hid == tgt][0]
        self.do_unsub_handler(tgt, during=d, meth=meth)
      return None
    if name == "re-unsub-first-token":
      # unsubscribe the first handler of this delivery (already run, or myself) by its token
      if d.snapshot:
        s0 = d.snapshot[0]
        self.src.removeListener(s0.token)
        self.model_remove(lambda x: x is s0, d)
      return None
    if name == "re-drop-weak":
      # the owner of some weakly subscribed handler goes away during the delivery
      for s in d.snapshot:
        if s.weak and s.alive and s.hid != hid and s.hid in self.owners:
          self.do_drop(s.hid); break
      return None
    if name == "re-clear":
      # the handler drops every subscription of the source (clearHandlers) in the middle of the delivery
      self.src.clearHandlers()
      self.model_remove(lambda x: True, d)
      return None
    if name == "re-raise":
      if len(self.stack) < 2:
        self.do_raise(d.etype, "inst")
      return None

  def mark_halt (self, d):
    d.events.append(("halt",))

  def mark_remove (self, d, hid):
    # removal requested by the handler itself: takes effect when it returns
    d.events.append(("selfrm", hid))

  # ----- online oracle ---------------------------------------------------
  def check_invocation (self, d, hid):
    snap_ids = [s.hid for s in d.snapshot]
    invoked = [e[1] for e in d.events if e[0] == "inv"]
    added = set(e[1] for e in d.events if e[0] == "add")
    if any(e[0] == "halt" for e in d.events):
      self.fail("invoked-after-halt", "handler %d invoked after the event was halted" % hid)
    if any(e[0] == "halt-attr" for e in d.events):
      self.fail("halt-attribute-ignored", "handler %d invoked after an earlier handler halted the event by setting event.halt = True" % hid)
    if hid in invoked:
      self.fail("invoked-twice", "handler %d invoked twice in one delivery" % hid)
    if hid in added:
      return
    if hid not in snap_ids:
      self.fail("dead-handler-invoked",
                "handler %d invoked but it is not subscribed (removed, one-shot spent, owner gone or never subscribed)" % hid)
    # all snapshot members before hid must have been invoked or legitimately removed
    removed = set(e[1] for e in d.events if e[0] == "rm")
    for s in d.snapshot:
      if s.hid == hid: break
      if s.hid in invoked: continue
      if s.hid in removed: continue      # removed by another handler before its turn: unconstrained
      self.fail("skipped-or-out-of-order",
                "handler %d invoked before handler %d (priority %d, subscribed earlier/higher)" % (hid, s.hid, s.prio))

  def end_delivery (self, d, raised):
    invoked = [e[1] for e in d.events if e[0] == "inv"]
    halted = any(e[0] in ("halt", "halt-attr") for e in d.events)
    exc = any(e[0] == "exc" for e in d.events)
    removed = set(e[1] for e in d.events if e[0] == "rm")
    if not halted and not exc and not raised:
      for s in d.snapshot:
        if s.hid not in invoked and s.hid not in removed:
          self.fail("skipped", "handler %d was subscribed when %s was raised but never invoked" % (s.hid, d.etype))

  # ----- operations ---------------------------------------------------------
  def do_sub (self, hid, etype, prio, mode, during=None, form=None, once=False, weak=False, pos=False):
    """mode: the four legacy spellings (first two families: addListener / addListenerByName on the method 'h').
    form (third and fourth family): which API makes the subscription, on the method named after the event;
    pos: every optional argument is given positionally, in the documented order, instead of by keyword."""
    o = self.owner(hid)
    et = self.E[etype]
    if form is None:
      form = "byname" if mode == "byname" else "class"
      once = (mode == "once"); weak = (mode == "weak")
      meth = "h"
    else:
      meth = "_handle_px_E1" if form in PX_FORMS else "_handle_" + etype
    h = getattr(o, meth)
    once = bool(once); weak = bool(weak)
    kw = {}
    if prio: kw["priority"] = prio
    if once: kw["once"] = True
    if weak: kw["weak"] = True
    names = [etype]
    src = self.src
    px = "px" if form in PX_FORMS else ""
    if form in AUTO_FORMS:
      kw.pop("once", None)
      if px:
        if not pos: kw["prefix"] = px
      else: names = ["E1", "E2"]                                              # every _handle_<Event> method of the owner
    try:
      if pos:
        if form == "class": toks = [src.addListener(et, h, once, weak, prio)]
        elif form == "byname": toks = [src.addListenerByName(etype, h, once, weak, prio)]
        elif form == "al-type": toks = [src.add_listener(h, et, None, once, weak, prio)]
        elif form == "al-name": toks = [src.add_listener(h, None, etype, once, weak, prio)]
        elif form == "al-infer": toks = [src.add_listener(h, None, None, once, weak, prio)]
        elif form in ("bind", "bind+px"): toks = src.addListeners(o, px, weak, prio)
        elif form in ("listen", "listen-px"): toks = o.listenTo(src, px, weak, prio)
        elif form in ("auto", "bind-px"): toks = self.rv.autoBindEvents(o, src, px, weak, prio)
      else:
        if form == "class": toks = [src.addListener(et, h, **kw)]
        elif form == "byname": toks = [src.addListenerByName(etype, h, **kw)]
        elif form == "al-type": toks = [src.add_listener(h, event_type=et, **kw)]
        elif form == "al-name": toks = [src.add_listener(h, event_name=etype, **kw)]
        elif form == "al-infer": toks = [src.add_listener(h, **kw)]          # name taken from '_handle_<Event>'
        elif form in ("bind", "bind+px"): toks = src.addListeners(o, **kw)
        elif form in ("listen", "listen-px"): toks = o.listenTo(src, **kw)
        elif form in ("auto", "bind-px"): toks = self.rv.autoBindEvents(o, src, **kw)
    except self.rv.ReventError:
      if etype == "E3": return "rejected"
      self.fail("subscribe-rejected", "subscribing to declared event %s was rejected" % etype)
    if etype == "E3":
      self.fail("undeclared-accepted", "subscribing to an undeclared event type was accepted")
    ok = isinstance(toks, list) and len(toks) == len(names) and all(isinstance(t, tuple) and len(t) == 2 for t in toks)
    if ok:
      toks = sorted(toks, key=lambda t: getattr(t[0], "__name__", ""))     # (order of returned ids: not constrained)
      ok = all(t[0] is self.E[n] for t, n in zip(toks, names))
    if not ok:
      self.fail("bad-token", "%s returned %r" % ("addListener" if form in ("class", "byname") else form, toks[0] if len(names) == 1 and isinstance(toks, list) and len(toks) == 1 else toks))
    s = None
    for tok, name in zip(toks, names):
      s = Sub(sid=len(self.subs), hid=hid, etype=name, prio=prio, once=bool(once),
              weak=bool(weak), token=tok, alive=True, spent=None, gone=False,
              meth=("_handle_" + name if form in AUTO_FORMS and not px else meth))
      self.subs.append(s)
      for d in self.stack:
        if d.etype == name: d.events.append(("add", hid))
    return s

  def check_count (self, when):
    """Read-back of the source's listener count between top-level operations: it counts exactly the live
    subscriptions (in particular: a weak subscription whose owner is gone is not there any more)."""
    if self.stack: return
    want = 0; weak = False
    for s in self.subs:
      if s.alive:
        want += 1
        if s.weak: weak = True
    if weak:
      self.reap()
      want = sum(1 for s in self.subs if s.alive)
    got = self.src._eventMixin_get_listener_count()
    if got == want: return
    if got > want and self.stale_are_ownerless():
      self.fail("weak-outlives-owner", "%s the source counts %d listener(s), %d are subscribed: the weak subscription of a "
                "handler whose owner is gone is still there" % (when, got, want))
    self.fail("listener-count-high" if got > want else "listener-count-low",
              "%s the source counts %d listener(s), %d are subscribed" % (when, got, want))

  def stale_are_ownerless (self):
    """Only to NAME a surplus in the listener count (it does not decide whether there is one): are the entries the
    source still holds for subscriptions that are over all weak subscriptions whose owner went away?"""
    gone = [s for s in self.subs if s.gone]
    if not gone: return False
    try:
      held = set(e[3] for lst in self.src._eventMixin_handlers.values() for e in lst)
      stale = [s for s in self.subs if not s.alive and s.token[1] in held]
    except Exception:
      return True               # cannot look inside: go by the model alone
    return bool(stale) and all(s.gone for s in stale)

  def model_remove (self, pred, during):
    n = 0
    for s in self.subs:
      if s.alive and pred(s):
        s.alive = False; n += 1
        for d in self.stack:
          d.events.append(("rm", s.hid))
    return n

  def do_unsub_handler (self, hid, etype=None, during=None, meth="h"):
    h = getattr(self.owner(hid), meth)
    if etype is None: r = self.src.removeListener(h)
    else: r = self.src.removeListener(h, self.E[etype])
    n = self.model_remove(lambda s: s.hid == hid and s.meth == meth and (etype is None or s.etype == etype), during)
    return r, n

  def do_unsub_token (self, s, form):
    et, eid = s.token
    if form == "eid": r = self.src.removeListener(eid)
    elif form == "tuple": r = self.src.removeListener((et, eid))
    elif form == "eid+type": r = self.src.removeListener(eid, et)
    elif form == "list": r = self.src.removeListeners([s.token])        # the plural form, given a list of ids
    n = self.model_remove(lambda x: x is s, None)
    return r, n

  def do_unsub_bulk (self, idx, form):
    """One removeListeners() call naming several subscriptions; every one of them is over afterwards."""
    items = []; preds = []
    for pos, j in enumerate(idx):
      s = self.subs[j]
      f = form if form != "mixed" else ("tuple", "eid", "handler")[pos % 3]
      if f == "tuple": items.append(s.token); preds.append(lambda x, s=s: x is s)
      elif f == "eid": items.append(s.token[1]); preds.append(lambda x, s=s: x is s)
      else:
        if s.alive and s.weak: self.feats.add("unsub.handler.weak")
        items.append(getattr(self.owner(s.hid), s.meth))
        preds.append(lambda x, s=s: x.hid == s.hid and x.meth == s.meth)
    r = self.src.removeListeners(items)
    for p in preds: self.model_remove(p, None)
    return r

  def do_raise (self, etype, form):
    et = self.E[etype]
    d = Delivery(etype, self.alive_subs(etype), form)
    for s in d.snapshot:
      # a one-shot handler that is raising this event from inside its own (only)
      # invocation: whether the nested delivery reaches it is not constrained
      if s.spent == "inflight": d.events.append(("rm", s.hid))
    self.stack.append(d)
    raised = None
    try:
      try:
        if form == "inst": r = self.src.raiseEvent(et())
        elif form == "class": r = self.src.raiseEvent(et)
        elif form == "noerr": r = self.src.raiseEventNoErrors(et())
        elif form == "noerr-class": r = self.src.raiseEventNoErrors(et)
      except Stop:
        raise
      except self.rv.ReventError as e:
        raised = repr(e)          # (not the exception object: its traceback would keep handler owners alive)
        if any(x[0] == "exc-revent" for x in d.events):
          pass                    # raised by a handler: with error suppression "never propagates" and "the library's
                                  # rejection signal passes" contradict each other - both outcomes are accepted
        elif etype != "E3":
          self.fail("raise-rejected", "raising declared event %s raised ReventError: %s" % (etype, e))
      except ValueError as e:
        raised = repr(e)          # (not the exception object: its traceback would keep handler owners alive)
        if form.startswith("noerr"):
          self.fail("exception-propagated", "raiseEventNoErrors propagated a handler's exception")
        if not any(x[0] == "exc" for x in d.events):
          self.fail("spurious-exception", "raiseEvent raised %r but no handler failed" % (e,))
      except Exception as e:
        raised = repr(e)          # (not the exception object: its traceback would keep handler owners alive)
        self.fail("internal-error", "raise of %s (%s form) failed inside the library: %s: %s" % (etype, form, type(e).__name__, e))
      else:
        if etype == "E3" and (form in ("inst", "noerr") or d.snapshot):
          self.fail("undeclared-accepted", "raising an instance of an undeclared event type was accepted")
        if any(x[0] == "exc" for x in d.events) and not form.startswith("noerr"):
          self.fail("exception-swallowed", "raiseEvent swallowed a handler's exception")
    finally:
      self.stack.pop()
    self.end_delivery(d, raised)

  def do_drop (self, hid):
    o = self.owners.pop(hid, None)
    del o
    gc.collect(0)
    # a weak subscription dies with its owner; a strong one keeps the owner alive
    strong = any(s.alive and s.hid == hid and not s.weak for s in self.subs)
    if not strong:
      for s in self.subs:
        if s.alive and s.hid == hid and s.weak: s.gone = True
      self.model_remove(lambda s: s.hid == hid and s.weak, None)


def ops_two (w):
  """Reduced alphabet on the first source plus operations on the neighbouring source."""
  ops = []
  used = set(s.hid for s in w.subs)
  nxt = min([h for h in range(NH) if h not in used] or [NH])
  for hid in range(min(nxt + 1, 2)):
    busy = lambda et: any(s.alive and s.hid == hid and s.etype == et for s in w.subs)
    if not busy("E1"):
      for prio in (0, -1, 1): ops.append(("sub", hid, "E1", prio, "plain"))
      ops.append(("sub", hid, "E1", 0, "byname"))
    if not busy("E2"):
      ops.append(("sub", hid, "E2", 0, "byname")); ops.append(("sub", hid, "E2", 0, "plain"))
  for hid in sorted(used):
    if hid in w.owners: ops.append(("unsub-handler", hid, None))
  ops += [("raise", "E1", "inst"), ("raise", "E2", "inst")]
  for et in ("E1", "E2"):
    if et not in w.bsub:
      ops.append(("B", "sub", et)); ops.append(("B", "byname", et))
    else:
      ops.append(("B", "unsub", et))
    ops.append(("B", "raise", et))
  if "E1" not in w.bsub: ops.append(("B", "churn", "E1"))
  return ops


FORMS1 = ("class", "byname", "al-type", "al-name", "al-infer")     # forms that make one subscription
# name-based wiring: source.addListeners(sink) / sink.listenTo(source) / autoBindEvents(sink, source), each without a
# method prefix (binds _handle_E1 and _handle_E2 at once) and with one (binds _handle_px_E1 alone)
AUTO_FORMS = ("bind", "bind+px", "listen", "listen-px", "auto", "bind-px")
PX_FORMS = ("bind+px", "listen-px", "bind-px")
NF = 2            # handler identities of the third family


def bulk_lists (w, k, forms):
  """Bulk unsubscription: removeListeners(list) with every sub-list (>= 2 entries, in subscription order and
  reversed) of the first k subscriptions - live or already over (stale entries) - x the ways an entry is named:
  the (type,id) pairs subscribing returned, bare ids, handler references, or the three mixed by position."""
  n = min(len(w.subs), k)
  ops = []
  for r in range(2, n + 1):
    for idx in itertools.combinations(range(n), r):
      for order in (idx, idx[::-1]):
        for form in forms:
          if form in ("handler", "mixed") and any(w.subs[j].hid not in w.owners for j in order): continue
          ops.append(("unsub-bulk", order, form))
  return ops


def ops_forms (w, thorough):
  """Third family: the first handler identity subscribes to E1 through every API form x once x weak x priority{0,1}
  (auto-binding: x weak x priority; it binds E1 and E2 at once, or E1 alone with a method prefix); the second identity
  through {class, by-name} x weak x priority{0,1} and auto-binding (thorough: the full product as well).
  Fourth family (w.spell): the first identity's optional arguments are all given positionally, through every one of
  these forms and through all six name-based wiring calls; the wiring calls the third family lacks also by keyword."""
  ops = []
  used = set(s.hid for s in w.subs)
  nxt = min([h for h in range(NF) if h not in used] or [NF])
  for hid in range(min(nxt + 1, NF)):
    if hid not in w.owners and hid in used: continue       # owner dropped
    busy = lambda et: any(s.alive and s.hid == hid and s.etype == et for s in w.subs)
    full = (hid == 0) or (thorough and not w.spell)
    pos = 1 if (w.spell and hid == 0) else 0
    if not busy("E1"):
      for form in (FORMS1 if full else ("class", "byname")):
        for weak in (0, 1):
          for once in ((0, 1) if full else (0,)):
            for prio in (0, 1):
              ops.append(("sub3", hid, "E1", prio, once, weak, form, pos))
      for weak in (0, 1):
        for prio in (0, 1):
          if pos:
            for form in AUTO_FORMS:
              if form in PX_FORMS or not busy("E2"): ops.append(("sub3", hid, "E1", prio, 0, weak, form, 1))
            for form in ("bind+px", "listen", "listen-px", "auto"):
              if form in PX_FORMS or not busy("E2"): ops.append(("sub3", hid, "E1", prio, 0, weak, form, 0))
          else:
            if full: ops.append(("sub3", hid, "E1", prio, 0, weak, "bind-px", 0))
            if not busy("E2"): ops.append(("sub3", hid, "E1", prio, 0, weak, "bind", 0))
  for hid in sorted(used):
    if hid in w.owners:
      for meth in sorted(set(s.meth for s in w.subs if s.hid == hid)):
        ops.append(("unsub-handler3", hid, meth))
  for j, s in enumerate(w.subs[:2]):
    for form in ("eid", "tuple", "list"):
      ops.append(("unsub-token", j, form))
  ops += bulk_lists(w, 3 if thorough else 2, ("tuple", "eid", "handler", "mixed"))
  ops.append(("raise", "E1", "inst"))
  ops.append(("raise", "E1", "class"))
  ops.append(("raise", "E2", "inst"))
  for form in ("byname", "al-type", "al-name", "al-infer"):
    ops.append(("sub3", NF - 1, "E3", 0, 0, 0, form, pos))
  ops.append(("sub3", NF - 1, "E3", 0, 0, 1, "byname", pos))
  for hid in sorted(used):
    if hid in w.owners and any(s.weak for s in w.subs if s.hid == hid):
      ops.append(("drop", hid))
  return ops


def ops_proto (w):
  """Fifth family (return-value protocol): up to three handlers on one event, plain or one-shot, priority {0,1};
  raise in all four forms; every invocation chooses among ALL behaviours (the extended list)."""
  ops = []
  used = set(s.hid for s in w.subs)
  nxt = min([h for h in range(NH) if h not in used] or [NH])
  for hid in range(min(nxt + 1, NH)):
    if any(s.alive and s.hid == hid for s in w.subs): continue
    for prio in (0, 1):
      for mode in ("plain", "once"):
        ops.append(("sub", hid, "E1", prio, mode))
  for form in ("inst", "class", "noerr", "noerr-class"):
    ops.append(("raise", "E1", form))
  return ops


def ops_alphabet (w, thorough):
  if w.two: return ops_two(w)
  if w.forms: return ops_forms(w, thorough)
  if w.proto: return ops_proto(w)
  """Enabled top-level operations in the current state (symmetry: handler identities are
  interchangeable, so a fresh identity is only introduced in index order)."""
  ops = []
  used = set(s.hid for s in w.subs)
  nxt = min([h for h in range(NH) if h not in used] or [NH])
  for hid in range(min(nxt + 1, NH)):
    if hid not in w.owners and hid in used: continue       # owner dropped
    busy = lambda et: any(s.alive and s.hid == hid and s.etype == et for s in w.subs)
    if not busy("E1"):
      for prio in (0, 1):
        for mode in ("plain", "once", "weak", "byname"):
          ops.append(("sub", hid, "E1", prio, mode))
      ops.append(("sub", hid, "E1", -1, "plain"))          # below the default priority
    if not busy("E2") and hid < 2:
      ops.append(("sub", hid, "E2", 0, "plain"))
  for hid in sorted(used):
    if hid in w.owners and hid < NH:
      ops.append(("unsub-handler", hid, None))
      # (with an explicit type only once the source has a handler list for that type: removing from a type nobody
      #  ever subscribed to raises KeyError, which the property does not speak about)
      if thorough and any(x.etype == "E1" for x in w.subs): ops.append(("unsub-handler", hid, "E1"))
      # naming a type the source never declared removes nothing (KeyError / ReventError / False are all fine);
      # what matters is that the type stays unknown to the source afterwards
      if hid == min(used): ops.append(("unsub-undeclared", hid))
  for j, s in enumerate(w.subs[:3]):
    for form in ("eid", "tuple", "eid+type"):
      ops.append(("unsub-token", j, form))
  if thorough: ops += bulk_lists(w, 3, ("tuple",))
  for form in ("inst", "class", "noerr"):
    ops.append(("raise", "E1", form))
  ops.append(("raise", "E2", "inst"))
  ops.append(("raise", "E3", "inst"))
  ops.append(("raise", "E3", "class"))
  ops.append(("sub", NH - 1, "E3", 0, "plain"))
  for hid in sorted(used):
    if hid in w.owners and hid < NH and any(s.weak for s in w.subs if s.hid == hid):
      ops.append(("drop", hid))
  return ops


def apply_op (w, op):
  k = op[0]
  if k == "sub":
    _, hid, et, prio, mode = op
    if mode != "plain": w.feats.add("sub." + mode)
    if prio > 0: w.feats.add("sub.prio1")
    if prio < 0: w.feats.add("sub.prio-1")
    if et == "E3": w.feats.add("E3")
    w.do_sub(hid, et, prio, mode)
  elif k == "sub3":
    _, hid, et, prio, once, weak, form = op[:7]
    pos = bool(op[7]) if len(op) > 7 else False
    if form != "class": w.feats.add("sub." + form)
    if pos: w.feats.add("sub.pos")
    if once: w.feats.add("sub.once")
    if weak: w.feats.add("sub.weak")
    if prio > 0: w.feats.add("sub.prio1")
    if et == "E3": w.feats.add("E3")
    try:
      w.do_sub(hid, et, prio, None, form=form, once=once, weak=weak, pos=pos)
    except Stop: raise
    except Exception as e:
      w.fail("internal-error", "subscribing (%s form) failed inside the library: %s: %s" % (form, type(e).__name__, e))
  elif k == "unsub-handler3":
    if any(s.alive and s.weak and s.hid == op[1] and s.meth == op[2] for s in w.subs): w.feats.add("unsub.handler.weak")
    try:
      w.do_unsub_handler(op[1], meth=op[2])
    except Stop: raise
    except Exception as e:
      w.fail("internal-error", "removeListener(handler) failed inside the library: %s: %s" % (type(e).__name__, e))
  elif k == "unsub-handler":
    if op[2]: w.feats.add("unsub.handler+type")
    if any(s.alive and s.weak and s.hid == op[1] for s in w.subs): w.feats.add("unsub.handler.weak")
    try:
      r, n = w.do_unsub_handler(op[1], op[2])
    except Stop: raise
    except Exception as e:
      w.fail("internal-error", "removeListener(handler%s) failed inside the library: %s: %s" % (", type" if op[2] else "", type(e).__name__, e))
  elif k == "unsub-undeclared":
    w.feats.add("E3")
    try:
      r = w.src.removeListener(w.owner(op[1]).h, w.E["E3"])
      if r: w.fail("unsub-undeclared-removed", "removeListener(handler, undeclared type) claims to have removed something: %r" % (r,))
    except Stop: raise
    except (KeyError, w.rv.ReventError): pass
    except Exception as e:
      w.fail("internal-error", "removeListener(handler, undeclared type) failed inside the library: %s: %s" % (type(e).__name__, e))
  elif k == "unsub-token":
    w.feats.add("unsub." + op[2])
    s = w.subs[op[1]]
    try:
      r, n = w.do_unsub_token(s, op[2])
    except Stop: raise
    except Exception as e:
      w.fail("internal-error", "removeListener (%s form) failed inside the library: %s: %s" % (op[2], type(e).__name__, e))
  elif k == "unsub-bulk":
    w.feats.add("unsub.bulk")
    if op[2] != "tuple": w.feats.add("unsub.bulk." + op[2])
    try:
      w.do_unsub_bulk(op[1], op[2])
    except Stop: raise
    except Exception as e:
      w.fail("internal-error", "removeListeners (list of %d, %s form) failed inside the library: %s: %s" % (len(op[1]), op[2], type(e).__name__, e))
  elif k == "raise":
    if op[2] != "inst": w.feats.add("raise." + op[2])
    if op[1] == "E3": w.feats.add("E3")
    w.do_raise(op[1], op[2])
  elif k == "drop":
    w.feats.add("drop")
    w.do_drop(op[1])
  elif k == "B":
    w.feats.add("two-sources")
    try:
      w.do_b(op)
    except Stop: raise
    except Exception as e:
      w.fail("internal-error", "operation %r on the neighbouring source failed inside the library: %s: %s" % (op[1:], type(e).__name__, e))


def make_run (rv, rep, depth, thorough, two=False, forms=False, fam=None):
  if fam is None: fam = 1 if two else 2 if forms else 0
  two = (fam == 1); forms = fam in (2, 3)
  def run (ctx):
    w = World(rv, ctx, rep, two)
    w.forms = forms
    w.spell = (fam == 3)
    if fam == 4: w.proto = True; w.nbeh = len(BEH)
    try:
      for step in range(depth):
        ops = ops_alphabet(w, thorough)
        i = ctx.choose(len(ops) + 1, "op", costly=False)
        if i == 0: break              # history ends here (shorter histories first)
        op = ops[i - 1]
        w.hist.append(repr(op))
        apply_op(w, op)
        rep.transitions += 1
        w.check_count("after %s" % (op[0],))
    except Stop:
      pass
    finally:
      # final sanity probe: after the history, one more plain raise of E1 must invoke
      # exactly the model's live handlers (catches dead handlers / leaks left behind)
      pass
    if w.violated is None:
      try:
        w.hist.append("(final probe raise E1)")
        w.do_raise("E1", "inst")
        w.check_count("after the final probe raise")
        if forms:
          w.frozen = True
          w.hist.append("(final probe raise E2)")
          w.do_raise("E2", "inst")
          w.check_count("after the final probe raise")
        # teardown: every owner of a weakly subscribed handler goes away; those subscriptions must be gone
        # (listener count), the others must still be served by one more raise
        doomed = [hid for hid in sorted(w.owners) if any(s.alive and s.weak and s.hid == hid for s in w.subs)]
        if doomed:
          w.frozen = True
          w.feats.add("drop")
          w.hist.append("(teardown: drop the owners of handlers %s; raise E1%s)" % (doomed, ", E2" if forms else ""))
          for hid in doomed: w.do_drop(hid)
          w.check_count("after the owners of all weakly subscribed handlers went away")
          w.do_raise("E1", "inst")
          if forms: w.do_raise("E2", "inst")
          w.check_count("after the owners of all weakly subscribed handlers went away and a raise")
      except Stop:
        pass
    return w
  return run


def key_of (clause, feats):
  return "%s:%s|%s" % (PID, clause, ",".join(sorted(feats)))


def explains (known_key, key):
  """A listed finding explains every violation of the same clause whose history contains
  (at least) the listed features."""
  try:
    kc, kf = known_key.split("|"); c, f = key.split("|")
  except ValueError:
    return known_key == key
  if kc.endswith(":*"): kc = c
  return kc == c and set(x for x in kf.split(",") if x) <= set(x for x in f.split(",") if x)


def _worker (args):
  first_ops, depth, dev, thorough, fam = args
  two = (fam == 1); forms = fam in (2, 3)
  rv = _import()
  rep = Report(PID, "model_checking")
  run = make_run(rv, rep, depth, thorough, fam=fam)
  def on_exec (ctx, w):
    rep.evaluations += 1
    rep.outcome((tuple(w.hist[-6:]), w.violated and w.violated[0]))
    if w.violated:
      clause, what = w.violated
      rep.violation(key_of(clause, w.feats), what,
                    dict(choices=ctx.choices(), depth=depth, two=two, forms=forms, fam=fam, thorough=thorough, history=w.hist))
    elif rep.evaluations % 50000 == 1:
      rep.sample(dict(history=w.hist))
  old = sys.stderr; sys.stderr = io.StringIO()
  try:
    for f in first_ops:
      explore(run, dev_bound=dev, prefix0=[f], on_exec=on_exec)
  finally:
    sys.stderr = old
  return rep


def minimal_keys (rep):
  """Keep, per clause, only violations whose feature set is minimal."""
  by = {}
  for k in rep.violations:
    c, f = k.split("|")
    by.setdefault(c, []).append((frozenset(x for x in f.split(",") if x), k))
  keep = {}
  for c, lst in by.items():
    for f, k in lst:
      if not any(g < f for g, _ in lst):
        keep[k] = rep.violations[k]
  rep.violations = keep


def plan_items (cfg, rv, rep=None):
  """Work items (first operation, depth, deviations, thorough/full, family), partitioned on the first operation."""
  rep = rep or Report(PID, "model_checking")
  plans = cfg.pick([(3, 2)], [(4, 1), (3, 3)])
  w0 = World(rv, Ctx([]), rep)
  n0 = len(ops_alphabet(w0, not cfg.quick)) + 1
  items = [([f], d, v, not cfg.quick, 0) for (d, v) in plans for f in range(n0)]
  # two sources side by side (reduced alphabet on the first one)
  w0.two = True
  n2 = len(ops_alphabet(w0, False)) + 1
  plans2 = cfg.pick([(4, 0), (3, 1)], [(5, 1), (4, 2)])
  items += [([f], d, v, not cfg.quick, 1) for (d, v) in plans2 for f in range(n2)]
  rep.bound["two_source_plans"] = [dict(depth=d, deviations=v) for d, v in plans2]
  # subscription API forms x options (third family)
  w0.two = False; w0.forms = True
  n3 = len(ops_alphabet(w0, False)) + 1          # (the first operation is the same with and without 'full')
  # (depth, deviations, full): full = the second identity also goes through the whole product of forms and options
  plans3 = cfg.pick([(3, 0, False), (2, 2, False)], [(3, 0, True), (2, 2, True), (3, 1, False), (4, 0, False)])
  items += [([f], d, v, full, 2) for (d, v, full) in plans3 for f in range(n3)]
  rep.bound["api_form_plans"] = [dict(depth=d, deviations=v, handlers=NF, second_identity_full_product=full) for d, v, full in plans3]
  # positional spellings + every name-based wiring call (fourth family)
  w0.spell = True
  n4 = len(ops_alphabet(w0, False)) + 1
  plans4 = cfg.pick([(3, 0), (2, 1)], [(3, 1), (2, 2)])
  items += [([f], d, v, not cfg.quick, 3) for (d, v) in plans4 for f in range(n4)]
  rep.bound["spelling_plans"] = [dict(depth=d, deviations=v, handlers=NF) for d, v in plans4]
  # return-value protocol with the extended behaviour list (fifth family)
  w0.forms = False; w0.spell = False; w0.proto = True
  n5 = len(ops_alphabet(w0, False)) + 1
  plans5 = cfg.pick([(3, 2)], [(4, 1), (3, 3)])
  items += [([f], d, v, not cfg.quick, 4) for (d, v) in plans5 for f in range(n5)]
  rep.bound["return_protocol_plans"] = [dict(depth=d, deviations=v, handlers=NH, behaviours=len(BEH)) for d, v in plans5]
  return items


def run (cfg):
  rv = _import()
  # thorough: depth 4 with one non-default handler behaviour, and depth 3 with up to three
  plans = cfg.pick([(3, 2)], [(4, 1), (3, 3)])
  depth = max(d for d, _ in plans); dev = max(v for _, v in plans)
  rep = Report(PID, "model_checking")
  rep.rule = ("every history of <=%d top-level operations (thorough: depth 4 with <=1 and depth 3 with <=3 non-default behaviours) (subscribe x priority{0,1} x {plain,once,weak,by-name}, "
              "unsubscribe by handler / eid / (type,eid) / eid+type, raise instance/class/no-errors form, undeclared "
              "type, drop weak owner) on a real EventMixin with up to %d handler identities (symmetry-reduced), every "
              "handler invocation choosing among %d behaviours with <=%d non-default ones per history; a final probe "
              "raise after every history. Second family: two sources side by side (a shared event class and two different classes "
              "of the same name): reduced alphabet on the first plus subscribe / by-name subscribe / subscribe-and-unsubscribe / unsubscribe / raise on the neighbour, depth 4 (thorough 5). "
              "Third family (subscription API forms): the first of %d handler identities subscribes through every form {addListener, addListenerByName, add_listener(event_type=), "
              "add_listener(event_name=), add_listener() with the name inferred from _handle_<Event>} x once{0,1} x weak{0,1} x priority{0,1}, or through auto-binding "
              "{addListeners(owner) binding _handle_E1 and _handle_E2 at once, autoBindEvents with a method prefix} x weak x priority; the second identity through {class, by-name} x weak x priority "
              "and auto-binding; by-name / inferred / event_type= subscription of the undeclared type; unsubscribe by handler method, eid, (type,eid) and "
              "removeListeners([id]); raise E1 instance/class form, raise E2; drop owner; depth 3 with default behaviours and depth 2 with <=2 non-default ones (thorough: the same with the full product for the second identity, plus depth 3 with <=1 and depth 4 with 0 non-default behaviours). "
              "Bulk unsubscription (third and fourth family; first family, pairs only, in the thorough tier): removeListeners(list) with every sub-list of >=2 of the first two (thorough three) subscriptions, live or stale, in subscription order and reversed, "
              "entries named as (type,id) pairs / bare ids / handler references / the three mixed by position. "
              "Fourth family (spellings and wiring calls): the first identity gives every optional argument positionally, in the documented order, through each of the five subscribe forms x once x weak x priority and "
              "each of the six name-based wiring calls {source.addListeners(sink), sink.listenTo(source), autoBindEvents(sink, source)} x {no prefix, method prefix} x weak x priority (the wiring calls the third family lacks also by keyword); "
              "second identity, unsubscribe, raise, drop operations as in the third family; depth 3 with default behaviours and depth 2 with <=1 non-default one (thorough: depth 3 with <=1, depth 2 with <=2). "
              "Fifth family (return-value protocol): up to %d handlers on one event, plain or one-shot x priority{0,1}, raise in the four forms {instance, class, no-errors, no-errors class}, every invocation choosing among %d behaviours "
              "(the %d above plus: return EventContinue, set event.halt=True and return None, set event.halt=True and return EventContinue, raise ReventError), depth 3 with <=2 non-default ones (thorough: depth 4 with <=1, depth 3 with <=3). "
              "In all families the source's listener count is read back after every top-level operation and compared with the number of live subscriptions of the model, and every history "
              "ends with a teardown: all owners of weakly subscribed handlers are dropped, the count is read back, the event(s) raised once more and the count read back again. "
              "distinct = distinct (history tail, verdict) digests"
              % (depth, NH, NBEH0, dev, NF, NH, len(BEH), NBEH0))
  rep.bound = dict(plans=[dict(depth=d, deviations=v) for d, v in plans], handlers=NH)
  rep.assumptions = ["handler identities are interchangeable (symmetry reduction)",
                     "ReventError raised by a handler (fifth family only): whether an error-suppressed raise lets it through is not judged (the library re-raises it on purpose as its own rejection signal); a plain raise must let it through",
                     "a one-shot or self-removing handler that ran in a nested (re-entrant) raise of the same event may or may not run again in the enclosing delivery whose turn for it had not come yet (the two clauses of the statement contradict each other there)",
                     "whether a handler added during a delivery takes part in it, and whether a handler removed by another before its turn still runs, is unconstrained",
                     "the listener count is read through EventMixin._eventMixin_get_listener_count() between top-level operations only (never inside a delivery)",
                     "handlers behave by default (return None) during the teardown raises and the third family's E2 probe (no choice points there)",
                     "the order of the ids returned by auto-binding and the return values of removeListener(s) are not judged"]
  items = plan_items(cfg, rv, rep)
  for r in pmap(_worker, items, cfg.workers, seed=cfg.seed):
    rep.merge(r)
  rep.state_count = rep.evaluations
  minimal_keys(rep)
  return rep


def replay (cfg, data):
  rv = _import()
  rep = Report(PID, "model_checking")
  runf = make_run(rv, rep, data["depth"], data.get("thorough", not cfg.quick), data.get("two", False), data.get("forms", False), data.get("fam"))
  ctx = Ctx(list(data["choices"]))
  w = runf(ctx)
  text = "\n".join(w.hist) + "\n=> %r" % (w.violated,)
  return bool(w.violated), text
